"""C04 - signature hashes: structural obligations (DESIGN.md section 4, C04)."""
from __future__ import annotations

import ast

from sa.core import Ob
from sa.pm import AnalysisError, norm, body_nodes
from sa import gi, df, ru, ct, sym
from sa.pm import Undecided
from sa.gi import FinSet, GuardWalker, FiniteAtomizer, IntSet, SymbolicAtomizer, iv

BSC = "pycoin/coins/bitcoin/SolutionChecker.py"
SEG = "pycoin/coins/bitcoin/SegwitChecker.py"
GRS = "pycoin/coins/groestlcoin/SolutionChecker.py"
BCH = "pycoin/coins/bcash/SolutionChecker.py"
BTG = "pycoin/coins/bgold/SolutionChecker.py"
TX = "pycoin/coins/bitcoin/Tx.py"
DOM = frozenset(range(256))

NONE = {v for v in DOM if v & 0x1F == 2}
SINGLE = {v for v in DOM if v & 0x1F == 3}
ACP = {v for v in DOM if v & 0x80}
NOFORK = {v for v in DOM if not v & 0x40}


_REF = None


def _ref():
    global _REF
    if _REF is None:
        import os
        _REF = ast.parse(open(os.path.join(os.path.dirname(os.path.dirname(os.path.abspath(__file__))), "spec", "ref_sighash.py")).read())
    return _REF


INTS = lambda t: t in ("hash_type", "i", "idx", "tx_in_idx", "unsigned_txs_out_idx", "pc", "new_pc", "signature_type", "base_type") or t.startswith(("len(", "self.FORKID"))


def _leaf(ctx, f, pname="hash_type"):
    """finite domain: every guard atom that depends on the hash type only is decided for all 256 values"""
    from sa.interp import Frame, Unknown
    it = ctx.interp
    mv = it.module(f.module.name)

    def evalf(expr, v):
        val = it.eval(expr, Frame(mv, None, {pname: v}))
        if isinstance(val, Unknown):
            raise ValueError("unknown")
        return bool(val)
    return sym.finite_leaf(DOM, evalf)


def _refcheck(ctx, rel, dotted, refname, key, finite=None, tree=None):
    fi = ctx.p.functions.get(ctx.p.module(rel).name + "." + dotted) or ctx.func(rel, dotted)
    return sym.against_reference(ctx, fi, tree or _ref(), refname, key, INTS, leaf=_leaf(ctx, fi, finite) if finite else None)


def _fmt(s):
    xs = sorted(s)
    if len(xs) > 20:
        return "{%d hash types: %s...}" % (len(xs), ",".join("0x%02x" % x for x in xs[:10]))
    return "{%s}" % ",".join("0x%02x" % x for x in xs)


def _is_zero32(e):
    return e is not None and isinstance(e, ast.Constant) and e.value == b"\0" * 32


# ------------------------------------------------------------------ C04.1
def c04_1(ctx):
    for rel, cls in ((SEG, "SegwitChecker"), (GRS, "GroestlcoinSolutionChecker")):
        for name, want_must, want_may, what in (("_hash_prevouts", ACP, ACP, "exactly the ANYONECANPAY types"), ("_hash_sequence", ACP | NONE | SINGLE, ACP | NONE | SINGLE, "ACP or NONE or SINGLE (base type taken with & 0x1f)"),
                                                ("_hash_outputs", NONE, NONE | SINGLE, "NONE always, SINGLE only without a matching output")):
            f = ctx.func(rel, "%s.%s" % (cls, name))
            ht = f.params()[1]
            leaf = _leaf(ctx, f, ht)
            w = sym.walk(ctx, f, leaf, feasible=lambda r: True)
            zero = sym.exits_formula(w, lambda e: e.kind == "return" and _is_zero32(e.value))
            nonzero = sym.exits_formula(w, lambda e: e.kind == "return" and not _is_zero32(e.value))
            may = set(sym.may_set(zero, leaf.univ, leaf.empty).m) if zero is not False else set()
            must = set(DOM) - (set(sym.may_set(nonzero, leaf.univ, leaf.empty).m) if nonzero is not False else set())
            ctx.check(must == want_must and may == want_may, "zero-hash:%s.%s" % (cls, name), ctx.where(f),
                      "%s.%s is the zero hash always for %s and possibly for %s; BIP143: %s (differences %s / %s)" % (cls, name, _fmt(must), _fmt(may), what, _fmt(must ^ want_must), _fmt(may ^ want_may)),
                      sample={"function": f.qualname, "always_zero_for": _fmt(must), "possibly_zero_for": _fmt(may)})
        _refcheck(ctx, rel, cls + "._hash_outputs", "seg_hash_outputs", "outputs-form:%s" % cls, finite="hash_type", tree=_grs_tree() if rel == GRS else None)
    # legacy digest
    _refcheck(ctx, BSC, "BitcoinSolutionChecker._signature_hash", "bsc_signature_hash", "legacy-blanking", finite="hash_type")
    for rel, cls, refname in ((BCH, "BcashSolutionChecker", "bch_signature_hash"), (BTG, "BgoldSolutionChecker", "btg_signature_hash")):
        f = ctx.func(rel, cls + "._signature_hash")
        ht = f.params()[3]
        leaf = _leaf(ctx, f, ht)
        w = sym.walk(ctx, f, leaf, feasible=lambda r: True)
        fr = sym.exits_formula(w, lambda e: e.kind == "raise")
        rs = set(sym.may_set(fr, leaf.univ, leaf.empty).m) if fr is not False else set()
        ctx.check(rs == NOFORK, "forkid-guard:%s" % cls, ctx.where(f),
                  "%s._signature_hash refuses %s; must refuse exactly the types without the fork-id bit 0x40 (difference %s)" % (cls, _fmt(rs), _fmt(rs ^ NOFORK)), sample={"function": f.qualname, "refused": _fmt(rs)})
        _refcheck(ctx, rel, cls + "._signature_hash", refname, "forkid-delegates:%s" % cls, finite=ht)


_GRS = None


def _grs_tree():
    """the Bitcoin reference with double_sha256 replaced by sha256: Groestlcoin's sighash differs in nothing else"""
    global _GRS
    if _GRS is None:
        import copy

        class Sub(ast.NodeTransformer):
            def visit_Name(self, n):
                if n.id == "double_sha256":
                    return ast.copy_location(ast.Name("sha256", n.ctx), n)
                return n
        _GRS = Sub().visit(copy.deepcopy(_ref()))
        ast.fix_missing_locations(_GRS)
    return _GRS


# ------------------------------------------------------------------ C04.2
def c04_2(ctx):
    _refcheck(ctx, SEG, "SegwitChecker._segwit_signature_preimage", "seg_preimage", "bip143-preimage")
    for rel, cls, tree in ((SEG, "SegwitChecker", None), (GRS, "GroestlcoinSolutionChecker", _grs_tree())):
        for name, refname in (("_hash_prevouts", "seg_hash_prevouts"), ("_hash_sequence", "seg_hash_sequence"), ("_hash_outputs", "seg_hash_outputs"), ("_signature_for_hash_type_segwit", "seg_signature_for_hash_type")):
            _refcheck(ctx, rel, "%s.%s" % (cls, name), refname, "subhash:%s.%s" % (cls, name), finite="hash_type" if name.startswith("_hash") else None, tree=tree)


# ------------------------------------------------------------------ C04.3
def c04_3(ctx):
    _refcheck(ctx, BSC, "BitcoinSolutionChecker._tx_in_for_idx", "bsc_tx_in_for_idx", "legacy-input-copies")
    _refcheck(ctx, BSC, "BitcoinSolutionChecker._signature_hash", "bsc_signature_hash", "legacy-digest-of-copy", finite="hash_type")
    _refcheck(ctx, TX, "Tx.hash", "tx_hash", "tx-hash:bitcoin")
    _refcheck(ctx, "pycoin/coins/groestlcoin/Tx.py", "Tx.hash", "grs_tx_hash", "tx-hash:groestlcoin")
    # the 4-byte hash type is part of the digest input exactly when one is given -- 0 is a hash type (consensus-legal), None is not
    for rel in (TX, "pycoin/coins/groestlcoin/Tx.py"):
        hf = ctx.func(rel, "Tx.hash")
        hp = hf.params()[1]
        wh = sym.walk(ctx, hf)
        conds = []
        packs = ("stream_struct('L', ", "pack_struct('L', %s)" % hp, "struct.pack('<L', %s)" % hp)
        for e in wh.effects:
            if e.kind == "call" and hp in norm(e.call) and any(t in norm(e.call) for t in packs):
                conds.append(e.reach)
        for e in wh.exits:
            if e.kind == "return" and e.value is not None and hp in norm(e.value) and any(t in norm(e.value) for t in packs):
                conds.append(e.cond)
        if not conds:
            raise Undecided("%s Tx.hash: no place where the hash type is packed as a 4-byte little-endian integer" % rel)
        given = gi.f_not(("op", "%s is None" % hp))
        ctx.check(sym._equiv(gi.f_or(*conds), given), "hash-type-appended-iff-given:%s" % rel.split("/")[-2], ctx.where(hf),
                  "Tx.hash appends the hash type when %s; it belongs to the digest exactly when hash_type is not None (hash type 0 is legal and must be appended)"
                  % ", ".join(sorted(str(o) for c in conds for o in (gi.f_opaques(c) if c not in (True, False) else [str(c)]))[:3]))
    _refcheck(ctx, BSC, "BitcoinSolutionChecker._make_sighash_f.sig_for_hash_type_f", "bsc_sig_for_hash_type_f", "find-and-delete")
    _refcheck(ctx, BSC, "BitcoinSolutionChecker._delete_signature", "bsc_delete_signature", "opcode-aligned-delete:_delete_signature")
    _refcheck(ctx, BSC, "BitcoinSolutionChecker.delete_subscript", "bsc_delete_subscript", "opcode-aligned-delete:delete_subscript")
    # FindAndDelete removes EVERY occurrence: the walk over the script's instructions runs to the end of the script (no way out of
    # the loop that a match selects)
    for nm in ("BitcoinSolutionChecker._delete_signature", "BitcoinSolutionChecker.delete_subscript"):
        g = ctx.func(BSC, nm)
        node = sym.expanded(ctx, g)
        loops = [n for n in ast.walk(node) if isinstance(n, (ast.For, ast.While)) and "get_opcode" in norm(n.iter if isinstance(n, ast.For) else n.test) + " ".join(norm(x) for st in n.body for x in ast.walk(st) if isinstance(x, ast.Call))]
        if not loops:
            raw = [c for c in ast.walk(node) if isinstance(c, ast.Call) and isinstance(c.func, ast.Attribute) and c.func.attr in ("replace", "split", "partition", "find", "index")]
            if raw:
                ctx.bad("delete-aligned-to-instructions:%s" % nm.split(".")[-1], ctx.where(g, raw[0]), "%s removes the pattern with `%s` on the raw bytes: FindAndDelete compares whole INSTRUCTIONS, so an occurrence that straddles an instruction boundary (inside another push's payload) must stay; the script code that is hashed differs from consensus" % (nm, norm(raw[0])[:60]))
            else:
                ctx.undecided("delete-every-occurrence:%s" % nm.split(".")[-1], ctx.where(g), "%s: no loop over the script's instructions found" % nm)
        for lp in loops:
            inner = {id(y) for x in ast.walk(lp) if isinstance(x, (ast.For, ast.While)) and x is not lp for y in ast.walk(x)}
            outs = [x for st in lp.body for x in ast.walk(st) if isinstance(x, (ast.Break, ast.Return)) and id(x) not in inner]
            while_end = isinstance(lp, ast.While)      # `while pc < len(script)` ends by its own test: breaks that restate it are read below
            bad_ = []
            for x in outs:
                tst = ru.enclosing_test(lp, x)
                if tst is not None and any(isinstance(c, ast.Compare) and any(isinstance(o, (ast.Eq, ast.NotEq)) for o in c.ops) and not any(isinstance(z, ast.Constant) for z in [c.left] + list(c.comparators)) for c in ast.walk(tst)):
                    bad_.append(x)
            ctx.check(not bad_, "delete-every-occurrence:%s" % nm.split(".")[-1], ctx.where(g, bad_[0]) if bad_ else ctx.where(g, lp),
                      "%s leaves its walk over the script when an instruction matches: only the first occurrence is removed, so the script code that is hashed still contains later copies" % nm,
                      sample={"function": nm, "ways_out_of_the_walk_on_a_match": 0})


# ------------------------------------------------------------------ C04.4
def c04_4(ctx):
    # BOTH ways into the Bitcoin Gold digest fold the fork id: _signature_hash (legacy inputs) and the method that
    # SegwitChecker._make_witness_sighash_f calls for witness v0 inputs, _signature_for_hash_type_segwit, as Bitcoin Gold's
    # checker resolves it (its own, or whatever it inherits)
    btg = ctx.p.cls(BTG, "BgoldSolutionChecker")
    it = ctx.interp
    cv = it.get(btg.module.name, "BgoldSolutionChecker")
    wm = ctx.p.lookup_method(btg, "_signature_for_hash_type_segwit")
    if wm is None:
        raise Undecided("BgoldSolutionChecker resolves no _signature_for_hash_type_segwit")
    ww = sym.walk(ctx, wm)
    pre = sym.calls_matching(ww, lambda t: t.endswith("_segwit_signature_preimage"))
    folds = []
    for e in pre:
        if len(e.call.args) >= 3:
            for n_ in ast.walk(e.call.args[2]):
                if isinstance(n_, ast.BinOp) and isinstance(n_.op, ast.LShift) and df.const_int(n_.right) == 8:
                    folds.append(n_.left)
                elif isinstance(n_, ast.Constant) and isinstance(n_.value, int) and n_.value and n_.value % 256 == 0:
                    folds.append(ast.Constant(n_.value >> 8))
    if not pre:
        ctx.undecided("btg-witness-digest-folds-forkid", ctx.where(wm), "%s does not call _segwit_signature_preimage in a form this clause reads" % wm.qualname)
    else:
        vals = []
        for x in folds:
            if isinstance(x, ast.Constant):
                vals.append(x.value)
            elif isinstance(x, ast.Attribute) and isinstance(x.value, ast.Name) and x.value.id == "self":
                vals.append(it.getattr(cv, x.attr))       # the attribute as Bitcoin Gold's class has it
            else:
                vals.append(None)
        ctx.check(bool(folds) and all(v == 79 for v in vals), "btg-witness-digest-folds-forkid", ctx.where(wm),
                  "witness v0 inputs of Bitcoin Gold are hashed by %s, which folds %s into the hash type: the BTG digest commits to hash_type | 79 << 8 on EVERY route (SegwitChecker._make_witness_sighash_f calls this method directly, not _signature_hash)"
                  % (wm.qualname, vals if folds else "no fork id"), sample={"method": wm.qualname, "fork_id_folded": vals})
    if "_signature_for_hash_type_segwit" not in btg.methods:
        raise Undecided("BgoldSolutionChecker no longer defines _signature_for_hash_type_segwit itself; the remaining clauses of this rule read that definition")
    f = ctx.func(BTG, "BgoldSolutionChecker._signature_for_hash_type_segwit")
    p = f.params()
    fid = it.getattr(cv, "FORKID_BTG")
    ctx.check(fid == 79, "btg-forkid", ctx.where(f), "Bitcoin Gold fork id evaluates to %r, expected 79" % (fid,))
    _refcheck(ctx, BTG, "BgoldSolutionChecker._signature_for_hash_type_segwit", "btg_signature_for_hash_type", "btg-fold")
    # BCH inherits the unfolded BIP143 digest
    c = ctx.p.cls(BCH, "BcashSolutionChecker")
    ctx.check("_signature_for_hash_type_segwit" not in c.methods and "_segwit_signature_preimage" not in c.methods, "bch-forkid-zero", "%s:%d" % (BCH, c.node.lineno),
              "BcashSolutionChecker overrides the BIP143 digest (its fork id is 0: the digest must be the unchanged one)")
    for rel, cname in ((BCH, "BcashSolutionChecker"), (BTG, "BgoldSolutionChecker")):
        c = ctx.p.cls(rel, cname)
        extra = set(c.methods) - {"_signature_hash", "_signature_for_hash_type_segwit"}
        ctx.check(not extra, "forkcoin-overrides:%s" % cname, "%s:%d" % (rel, c.node.lineno), "%s overrides %s besides the two digest entry points" % (cname, sorted(extra)))


# ------------------------------------------------------------------ C04.5
def c04_5(ctx):
    for name, refname in (("_hash_prevouts", "seg_hash_prevouts"), ("_hash_sequence", "seg_hash_sequence"), ("_hash_outputs", "seg_hash_outputs"), ("_signature_for_hash_type_segwit", "seg_signature_for_hash_type")):
        _refcheck(ctx, GRS, "GroestlcoinSolutionChecker." + name, refname, "grs-clone:%s" % name, finite="hash_type" if name.startswith("_hash") else None, tree=_grs_tree())
    h = ctx.func("pycoin/coins/groestlcoin/hash.py", "sha256")
    w = sym.walk(ctx, h)
    rr = [e for e in w.exits if e.kind == "return" and e.value is not None]
    ctx.check(len(rr) == 1 and norm(rr[0].value) in ("hashlib.sha256(%s).digest()" % h.params()[0], "bytes_as_revhex(hashlib.sha256(%s).digest())" % h.params()[0]), "grs-sha256-single", ctx.where(h), "groestlcoin.hash.sha256 is not a single SHA256")


# ------------------------------------------------------------------ C04.6
SIGHASH_FUNCS = [(BSC, "BitcoinSolutionChecker._signature_hash"), (BSC, "BitcoinSolutionChecker._tx_in_for_idx"), (BSC, "BitcoinSolutionChecker._delete_signature"),
                 (BSC, "BitcoinSolutionChecker.delete_subscript"), (SEG, "SegwitChecker._hash_prevouts"), (SEG, "SegwitChecker._hash_sequence"),
                 (SEG, "SegwitChecker._hash_outputs"), (SEG, "SegwitChecker._segwit_signature_preimage"), (SEG, "SegwitChecker._signature_for_hash_type_segwit"),
                 (GRS, "GroestlcoinSolutionChecker._hash_prevouts"), (GRS, "GroestlcoinSolutionChecker._hash_sequence"), (GRS, "GroestlcoinSolutionChecker._hash_outputs"),
                 (GRS, "GroestlcoinSolutionChecker._signature_for_hash_type_segwit"), (BCH, "BcashSolutionChecker._signature_hash"), (BTG, "BgoldSolutionChecker._signature_hash"),
                 (BTG, "BgoldSolutionChecker._signature_for_hash_type_segwit"), (TX, "Tx.hash"), (TX, "Tx.w_hash"), (TX, "Tx.blanked_hash"), (TX, "Tx.stream"),
                 ("pycoin/coins/bitcoin/TxIn.py", "TxIn.stream"), ("pycoin/coins/bitcoin/TxOut.py", "TxOut.stream")]


def c04_6(ctx):
    from sa.ef import writes_in
    for rel, name in SIGHASH_FUNCS:
        f = ctx.func(rel, name)
        for wr in writes_in(f):
            if not wr.fresh:
                from rules import C06 as _C06
                if _C06.memo_policy(ctx, f, wr, "sighash-write:%s:%s" % (f.name, wr.text)):
                    continue
            ctx.check(wr.fresh, "sighash-write:%s:%s" % (f.name, wr.text), ctx.where(f, wr.node),
                      "%s writes `%s`, whose receiver is not an object created inside the sighash computation: computing a signature hash must not "
                      "modify the transaction or keep state on the checker" % (f.qualname.split(".", 3)[-1], wr.text), what="%s:%s" % (f.name, wr.text),
                      sample={"function": f.qualname, "write": wr.text, "receiver": wr.why})
        ctx.ok("scanned:" + f.qualname, nontrivial=False)


def c04_7(ctx):
    """the digest a signature operation checks is computed for THAT operation: the cache of digests lives for one
    CHECKSIG / CHECKMULTISIG call (FindAndDelete makes the legacy digest depend on the signatures of the operation)"""
    from rules import C03
    C03.guarded(C03.c03_13)(ctx)        # spelling-sensitive in places: subordinate to the reference comparison, as in C03


OBLIGATIONS = [
    Ob("C04.1", "branch partition of all 256 hash types in every sighash function (legacy, BIP143, GRS, BCH, BTG)", c04_1, floor=11, engines="SYM,GI(finite)",
       breaks_if="hash types 0x06, 0x22, 0x43, 0xc3 ... (a mask other than 0x1f reclassifies them); 0x80-0xbf on fork-id coins", exhaustive=True),
    Ob("C04.2", "BIP143 pre-image and sub-hash field traces", c04_2, floor=9, engines="SYM", breaks_if="every witness input (field order / width / omitted amount)"),
    Ob("C04.3", "legacy blanking: fresh input copies, digest of the copy, hash type appended, FindAndDelete", c04_3, floor=7, engines="SYM"),
    Ob("C04.4", "fork-id folding (BTG 79<<8, BCH 0)", c04_4, floor=5, engines="CE,PM,SYM"),
    Ob("C04.5", "Groestlcoin methods equal the Bitcoin ones modulo double_sha256 -> sha256", c04_5, floor=5, engines="SYM,SIB"),
    Ob("C04.7", "the sighash cache of CHECKSIG / CHECKMULTISIG is local to one call (shared with C03.13, C06.2)", c04_7, floor=5, engines="EF,DF", breaks_if="two signature operations with the same hash type in one legacy script"),
    Ob("C04.6", "no write with a non-fresh receiver in the sighash call tree", c04_6, floor=22, engines="EF", breaks_if="sequence zeroed on the real inputs; memo kept on the checker"),
]
