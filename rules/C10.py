"""C10 - WIF / SEC / DER encodings: structural obligations (DESIGN.md section 4, C10)."""
from __future__ import annotations

import ast
import re

from sa.core import Ob
from sa.pm import AnalysisError, norm, body_nodes
from sa import gi, df, ru, sym
from sa.pm import Undecided
from sa.gi import IntSet, FinSet, iv, GuardWalker, SymbolicAtomizer, FiniteAtomizer, reach_sets
from sa.cfg import stmt_paths, struct_dominates

SEC = "pycoin/encoding/sec.py"
KEY = "pycoin/key/Key.py"
DER = "pycoin/satoshi/der.py"
PARSE = "pycoin/networks/ParseAPI.py"
U, E = IntSet.all(), IntSet.empty()


_REF = None


def _ref():
    global _REF
    if _REF is None:
        import os
        _REF = ast.parse(open(os.path.join(os.path.dirname(os.path.dirname(os.path.abspath(__file__))), "spec", "ref_codecs.py")).read())
    return _REF


# ------------------------------------------------------------------ C10.1
def c10_1(ctx):
    f = ctx.func(SEC, "sec_to_public_pair")
    secp, genp, strictp = f.params()[:3]
    it = ctx.interp
    from sa.interp import Frame, Unknown
    mv = it.module(f.module.name)
    B = 32
    lens = {"c": 1 + B, "u": 1 + 2 * B, "o": 10, "e": 0, "u+1": 2 + 2 * B, "c-1": B}
    domain = [(p, k) for p in range(256) for k in lens]
    defs = df.single_defs(f.node)
    # the coordinate size in bytes: a local with a definition from generator.p().bit_length() (whatever it is without a generator)
    bc = {n for n, ds in df.assignments(f.node).items() if any(isinstance(v, ast.AST) and ".bit_length()" in norm(v) for v, _st in ds)}
    if not bc:
        raise Undecided("sec_to_public_pair: no local holds a coordinate size derived from a bit_length(); this rule reads the (prefix, length) decisions through that local")

    def evalf(expr, v):
        p, k = v
        sec = (bytes([p]) + b"\0" * (lens[k] - 1)) if lens[k] else b""
        env = {secp: sec}
        for n in bc:
            env[n] = B
        val = it.eval(expr, Frame(mv, None, env))
        if isinstance(val, Unknown):
            raise ValueError("unknown")
        return bool(val)
    leaf = sym.finite_leaf(domain, evalf)
    w = sym.walk(ctx, f, leaf, keep=bc, feasible=lambda r: True)
    exits = w.exits
    rets = [e for e in exits if e.kind == "return"]
    if not rets:
        raise AnalysisError("sec_to_public_pair: no returning exit")
    strict_atom = "truthy(%s)" % strictp
    ops = set()
    for e in exits:
        ops |= set(gi.f_opaques(e.cond)) if e.cond not in (True, False) else set()
    if strict_atom not in ops:
        raise Undecided("sec_to_public_pair: the `%s` flag is not a recognisable guard atom (%s)" % (strictp, sorted(ops)[:6]))
    foreign = [o for o in ops if o != strict_atom and genp not in o]
    if foreign:
        raise Undecided("sec_to_public_pair: guards %s are not decided by (prefix byte, length)" % foreign[:3])
    fr = sym.exits_formula(w, lambda e: e.kind == "return")
    acc = sym.may_set(fr, leaf.univ, leaf.empty, assume={strict_atom: True})
    lenient = sym.may_set(fr, leaf.univ, leaf.empty, assume={strict_atom: False})
    want = {(4, "u"), (2, "c"), (3, "c")}
    ctx.check(set(acc.m) == want, "strict-decision-table", ctx.where(f),
              "sec_to_public_pair(strict=True) accepts (prefix byte, length class) %s; the unique encodings are exactly %s" % (sorted(acc.m)[:12], sorted(want)),
              sample={"function": f.qualname, "domain": "256 prefix bytes x %d length classes" % len(lens), "strict_accepts": sorted(acc.m), "lenient_accepts": sorted(lenient.m)[:20], "atoms": len(leaf.cache)})
    ctx.note("lenient (consensus) row: %d cells accepted" % len(lenient.m))
    # without STRICTENC (consensus) the hybrid forms 06 / 07 are the only additional encodings a key parser accepts
    # (the blobs of the decision table carry y = 0, an even y: of the two hybrid prefixes only 06 names that parity)
    want_l = want | {(6, "u")}
    ctx.check(set(lenient.m) == want_l, "lenient-decision-table", ctx.where(f),
              "sec_to_public_pair(strict=False) accepts (prefix byte, length class) %s; a key parser accepts exactly %s there for an even y (CHECKSIG without STRICTENC runs in this mode: a 33-byte blob with another prefix must not parse, a hybrid prefix names the parity of y)"
              % (sorted(lenient.m)[:12], sorted(want_l)), sample={"lenient_accepts": sorted(lenient.m)[:20]})
    # an uncompressed / hybrid blob is a point only if (x, y) is on the curve; a hybrid prefix names the parity of y
    pair_rets = [e for e in rets if isinstance(e.value, ast.Tuple) and len(e.value.elts) == 2]
    for e in pair_rets:
        ops_e = [o for o in (gi.f_opaques(e.cond) if e.cond not in (True, False) else []) if isinstance(o, str)]
        on_curve = [o for o in ops_e if ".contains_point(" in o]
        with_gen = gi.f_and(e.cond, ("op", "truthy(%s)" % genp), ("not", ("op", "%s.p() is None" % genp)), ("not", ("op", "%s is None" % genp)))
        ctx.check(bool(on_curve) and all(sym.entails(with_gen, ("op", o)) for o in on_curve), "uncompressed-on-curve", ctx.where(f, e.node),
                  "sec_to_public_pair returns the pair of an uncompressed blob without testing that it lies on the curve: (1, 1) decodes to a `public pair`")

    other = [e for e in exits if e.kind not in ("return", "raise")]
    ctx.check(not other, "sec-fails-by-raising", ctx.where(f), "sec_to_public_pair has an exit that neither returns a point nor raises")
    bad_r = [e for e in exits if e.kind == "raise" and not isinstance(e.node, ast.Assert) and not ru.is_raise_of("EncodingError")(e)]
    ctx.check(not bad_r, "sec-error-type", ctx.where(f), "sec_to_public_pair raises something other than EncodingError")
    # coordinates compared with the field prime before a point is returned
    subjects = []
    for e in rets:
        v = e.value
        if isinstance(v, ast.Call) and norm(v.func) == "cast" and len(v.args) == 2:
            v = v.args[1]
        if isinstance(v, ast.Tuple) and len(v.elts) == 2:
            subjects += [("x", norm(v.elts[0]), e), ("y", norm(v.elts[1]), e)]
        else:
            cs = [c for c in ast.walk(v) if isinstance(c, ast.Call) and norm(c.func).endswith(".points_for_x") and c.args]
            if not cs:
                raise Undecided("sec_to_public_pair returns `%s`: neither a coordinate pair nor points_for_x(x)" % norm(v)[:60])
            subjects.append(("x", norm(cs[0].args[0]), e))
    for coord, text, e0 in subjects:
        w2 = sym.int_walk(ctx, f, {text}, {"%s.p()" % genp}, keep=bc)
        for e in w2.exits:
            if e.kind != "return" or e.node is not e0.node:
                continue
            s = sym.may_set(e.cond, U, E, assume={"truthy(%s)" % genp: True, "%s.p() is None" % genp: False, "%s is None" % genp: False})
            want_s = iv(None, ("s", -1))
            ctx.check(s.issubset(want_s), "coordinate-below-p:%s:%s" % (coord, norm(e.value)[:30]), ctx.where(f, e.node),
                      "sec_to_public_pair returns `%s` for %s = `%s` in %s: a coordinate >= p is accepted, so one point has several encodings (and addresses)"
                      % (norm(e.value)[:60], coord, text[:50], s.fmt("p")), what="coordinate-below-p:%s:%d" % (coord, len(text)),
                      sample={"exit": norm(e.value)[:60], "coordinate": coord, "accepted": s.fmt("p")})
    ctx.check(bool(bc), "byte-count", ctx.where(f), "the coordinate size is not derived from generator.p().bit_length()")
    # Key.from_sec uses the strict default
    g = ctx.func(KEY, "Key.from_sec")
    wg = sym.walk(ctx, g)
    cs = [e.raw for e in sym.calls_matching(wg, "sec_to_public_pair")]
    a = f.node.args
    dflt = dict(zip([x.arg for x in a.args][len(a.args) - len(a.defaults):], a.defaults))
    strict_default = isinstance(dflt.get(strictp), ast.Constant) and dflt[strictp].value is True
    ok = len(cs) >= 1
    for c in cs:
        kw = [k for k in c.keywords if k.arg == strictp]
        if kw:
            ok = ok and isinstance(kw[0].value, ast.Constant) and kw[0].value.value is True
        elif len(c.args) >= 3:
            ok = ok and isinstance(c.args[2], ast.Constant) and c.args[2].value is True
        else:
            ok = ok and strict_default
    ctx.check(ok, "from-sec-strict", ctx.where(g), "Key.from_sec does not decode in strict mode")
    sym.against_reference(ctx, ctx.func(SEC, "public_pair_to_sec"), _ref(), "public_pair_to_sec", "sec-encoder", lambda t: t.startswith("public_pair["))


# ------------------------------------------------------------------ C10.2
def c10_2(ctx):
    f = ctx.func(KEY, "Key.__init__")
    se = f.params()[1]
    subj = {"self._secret_exponent", se}
    w = sym.int_walk(ctx, f, subj, {"self._generator.order()"}, truthy=False)
    fr = sym.exits_formula(w, ru.is_raise_of("InvalidSecretExponentError"))
    s, n = sym.decisive_set(fr, U, E)
    want = iv(1, ("s", -1)).complement()
    ctx.check(s == want, "secret-exponent-range", ctx.where(f),
              "Key.__init__ refuses secret exponents in %s; the property requires exactly %s" % (s.fmt("n"), want.fmt("n")), sample={"subject": "self._secret_exponent", "refused": s.fmt("n")})
    w = sym.walk(ctx, f)
    anyraise = sym.exits_formula(w, lambda e: e.kind == "raise")
    pp = sym.exits_formula(w, ru.is_raise_of("InvalidPublicPairError"))
    ops = gi.f_opaques(pp) if pp not in (True, False) else []
    none_in = [o for o in ops if o.startswith("None in") or ("is None" in o and "_public_pair[" in o)]
    on_curve = [o for o in ops if "contains_point(" in o]
    ok = bool(none_in) and bool(on_curve)
    if ok:
        ok = all(sym.entails(("op", o), anyraise) for o in none_in[:1]) and sym.entails(gi.f_and(*[("not", ("op", o)) for o in none_in] + [("not", ("op", on_curve[0]))]), anyraise)
    ctx.check(ok, "public-pair-validated", ctx.where(f), "Key.__init__ does not raise InvalidPublicPairError whenever the pair contains None or is off the curve (guards: %s)" % ops[:5])
    one = [e for e in w.exits if e.kind == "raise" and ru.is_raise_of("ValueError")(e)]
    pk = f.params()[2]
    ok = len(one) >= 1 and any(se in o and pk in o for e in one for o in gi.f_opaques(e.cond))
    ctx.check(ok, "exactly-one-of", ctx.where(f), "Key.__init__ does not insist on exactly one of secret_exponent / public_pair")


# ------------------------------------------------------------------ C10.3
def wif_payload(ctx, f):
    """canonical text of the WIF payload: the decoded base58 blob with len(self._wif_prefix) bytes stripped"""
    w = sym.walk(ctx, f)
    cands = set()
    for e in list(w.effects) + list(w.exits):
        exprs = [e.call] if getattr(e, "kind", "") == "call" else [getattr(e, "value", None)]
        for x in exprs:
            if x is None:
                continue
            for n in ast.walk(x):
                if isinstance(n, ast.Subscript) and isinstance(n.slice, ast.Slice) and n.slice.lower is not None and n.slice.upper is None and n.slice.step is None \
                        and norm(n.slice.lower) == "len(self._wif_prefix)" and "parse_b58_hashed" in norm(n.value):
                    cands.add(norm(n))
    for c in w.tests.values():
        for n in ast.walk(c):
            if isinstance(n, ast.Subscript) and isinstance(n.slice, ast.Slice) and n.slice.lower is not None and n.slice.upper is None \
                    and norm(n.slice.lower) == "len(self._wif_prefix)" and "parse_b58_hashed" in norm(n.value):
                cands.add(norm(n))
    return cands


def c10_3(ctx):
    f = ctx.func(PARSE, "ParseAPI.wif")
    cands = wif_payload(ctx, f)
    if len(cands) != 1:
        ctx.bad("wif-prefix-strip", ctx.where(f), "ParseAPI.wif: the key is not built from the decoded blob with exactly len(self._wif_prefix) bytes stripped (found %s)" % sorted(cands)[:3])
        return
    payload = cands.pop()
    subj = "len(%s)" % payload
    # the length of what follows the 32 exponent bytes says the same as the length of the payload
    base = sym.value_leaf(lambda e: norm(e) == subj, df.const_int)
    tail = {"1 == len(%s[32:])" % payload: iv(33, 33), "0 == len(%s[32:])" % payload: iv(None, 32), "len(%s[32:]) == 1" % payload: iv(33, 33), "len(%s[32:]) == 0" % payload: iv(None, 32)}

    def leaf(e, text):
        if text in tail:
            return ("set", tail[text])
        return base(e, text)
    w = sym.walk(ctx, f, leaf)
    calls = sym.calls_matching(w, "keys.private")
    if not calls:
        raise Undecided("ParseAPI.wif: call of keys.private not found")
    by_node = {}
    for e in calls:
        by_node.setdefault(id(e.raw), []).append(e)
    for group in by_node.values():
        e = group[0]
        r = gi.f_or(*[x.reach for x in group])
        s = sym.may_set(r, U, E)
        want = iv(32, 33)
        ctx.check(s == want, "wif-payload-length", ctx.where(f, e.node),
                  "ParseAPI.wif builds a key for payload lengths %s (measured after the prefix strip); a WIF payload is 32 bytes, or 33 with the compression marker" % s.fmt(),
                  sample={"subject": "len(payload after prefix strip)", "accepted": s.fmt()})
        # with 33 bytes the last byte must have been compared with 01
        r33 = gi.f_and(r, ("set", iv(33, 33)))
        ops = gi.f_opaques(r33) if r33 not in (True, False) else []
        mk = [o for o in ops if payload in o and ("b'\\x01'" in o or "== 1" in o or "1 ==" in o)]
        ok = False
        for o in mk:
            # 33-byte payloads reach the constructor only if the marker comparison holds
            ok = ok or not _sat(gi.f_and(r33, ("not", ("op", o)))) or not _sat(gi.f_and(r33, ("op", o)))
        ctx.check(ok, "wif-marker-checked", ctx.where(f, e.node), "ParseAPI.wif does not compare the 33rd byte with the compression marker 01 (guards: %s)" % ops, sample={"guards": ops})
        yes, no = E, E
        okc = True
        for x in group:
            kws = [k for k in x.call.keywords if k.arg == "is_compressed"]
            if not kws:
                okc = False
                continue
            fml = w.atomize(kws[0].value, True)
            yes = yes | sym.may_set(gi.f_and(fml, x.reach), U, E)
            no = no | sym.may_set(gi.f_and(gi.f_not(fml), x.reach), U, E)
        okc = okc and yes == iv(33, 33) and no == iv(32, 32)
        ctx.check(okc, "wif-compressed-flag", ctx.where(f, e.node), "ParseAPI.wif: is_compressed is true for payload lengths %s and false for %s; it must be `payload has 33 bytes`" % (yes.fmt(), no.fmt()))
        tries = sym.enclosing_tries(f.node, e.node)
        names = set()
        for t in tries:
            names |= sym.handler_names(t)
        ctx.check(bool(names & {"ValueError", "InvalidSecretExponentError", "Exception", "BaseException"}), "wif-range-error-to-none", ctx.where(f, e.node), "ParseAPI.wif lets the out-of-range exponent error of the key constructor escape")
    sym.against_reference(ctx, ctx.func(KEY, "Key.wif"), _ref(), "key_wif", "wif-writer", lambda t: False)


def _sat(f):
    import itertools
    if f in (True, False):
        return f
    ops = gi.f_opaques(f)
    return any(not gi.f_eval(f, dict(zip(ops, bits)), U, E).is_empty() for bits in itertools.product((False, True), repeat=len(ops)))


# ------------------------------------------------------------------ C10.4
def c10_4(ctx):
    ints = lambda t: t in ("length", "llen", "lengthlength", "endseq", "s0", "r", "v") or t.startswith(("len(", "ord("))
    for fn in ("encode_integer", "encode_sequence", "remove_sequence", "remove_integer", "encode_length", "read_length", "sigencode_der", "sigdecode_der"):
        sym.against_reference(ctx, ctx.func(DER, fn), _ref(), [fn, fn + "_v2"] if fn == "remove_integer" else fn, "der:%s" % fn, ints, inline=False)
    # a truncated element is refused with the documented error before anything is indexed: a zero-length integer, no length byte
    # (the test may be spelled `== 0`, `< 1`, `not x`)
    def refuses(w_, is_subject, key, where, msg):
        eq0 = lambda o: (o.startswith("0 == ") and is_subject(o[5:])) or (o.endswith(" == 0") and is_subject(o[:-5])) or (o.endswith(" < 1") and is_subject(o[:-4]))
        tr = lambda o: o.startswith("truthy(") and o.endswith(")") and is_subject(o[7:-1])
        ctx.check(sym.guard_present(w_, is_der_raise, eq0) or sym.guard_present(w_, is_der_raise, tr, positive=False), key, where, msg)
    ri = ctx.func(DER, "remove_integer")
    w_ = sym.walk(ctx, ri, int_names=ints)
    is_der_raise = ru.is_raise_of("UnexpectedDER")
    refuses(w_, lambda t: ("read_length(" in t and t.endswith("[0]")) or t == "length", "der-zero-length-integer", ctx.where(ri),
            "remove_integer does not refuse an integer of declared length 0 with UnexpectedDER (a truncated signature ends in a TypeError / IndexError instead)")
    rl = ctx.func(DER, "read_length")
    sp = rl.params()[0]
    w_ = sym.walk(ctx, rl, int_names=ints)
    wl = sym.int_walk(ctx, rl, {"len(%s)" % sp})
    frl = sym.exits_formula(wl, is_der_raise)
    if frl is not False and iv(0, 0).issubset(sym.must_set(frl, U, E)):
        ctx.ok("der-no-length-byte", sample={"raises_for_len": sym.must_set(frl, U, E).fmt()})      # as an interval: the empty field is always refused
    else:
        refuses(w_, lambda t: t in (sp, "len(%s)" % sp), "der-no-length-byte", ctx.where(rl), "read_length does not refuse an empty length field with UnexpectedDER")
    # strict mode refuses bytes after the SEQUENCE and bytes after the second INTEGER inside it; the two remainders are named by
    # what they are (second component of remove_sequence(..) / of the second remove_integer(..)), not by a local's name
    sd = ctx.func(DER, "sigdecode_der")
    ws = sym.walk(ctx, sd, int_names=ints)
    prm = sd.params()
    if len(prm) >= 2:
        strict = ("not", ("op", "truthy(%s)" % prm[1]))
        outer = lambda t: "remove_sequence(" in t and "remove_integer(" not in t and t.rstrip(")").endswith("[1]")
        inner = lambda t: t.count("remove_integer(") >= 2 and t.rstrip(")").endswith("[1]") and "[1], " in t
        for nm, tp, what in (("der-trailing-after-sequence", outer, "sigdecode_der(strict): bytes after the end of the SEQUENCE (sig + b'\\x00')"),
                             ("der-trailing-inside-sequence", inner, "sigdecode_der(strict): bytes after the second INTEGER inside the SEQUENCE")):
            sym.must_refuse(ctx, ws, nm, ctx.where(sd), what, lambda a, tp=tp: a.startswith("truthy(") and tp(a[7:-1]), tp, assume=strict)
    # a DER INTEGER is two's complement: the 00 pad byte is there exactly when the first magnitude byte has its top bit set
    # (0x80..0xff), as a value set of that byte
    ei = ctx.func(DER, "encode_integer")
    we0 = sym.walk(ctx, ei)
    import re as _re
    firsts = set()
    for a_ in sym.all_atoms(we0):
        m_ = _re.match(r"^\d+ < (.+\[0\])$", a_) or _re.match(r"^(.+\[0\]) < \d+$", a_) or _re.match(r"^bit\((.+\[0\]), 7\)$", a_)
        if m_:
            firsts.add(m_.group(1))
    if not firsts:
        ctx.undecided("der-pad-iff-top-bit", ctx.where(ei), "encode_integer: no test of the first magnitude byte found in a form this rule reads")
    else:
        wE = sym.int_walk(ctx, ei, firsts)
        padded = [e for e in wE.exits if e.kind == "return" and e.value is not None and _re.search(r"b'\\x00' \+", norm(e.value))]
        plain = [e for e in wE.exits if e.kind == "return" and e.value is not None and not _re.search(r"b'\\x00' \+", norm(e.value))]
        opq = set()
        for e in padded + plain:
            opq |= {a for a in (gi.f_opaques(e.cond) if e.cond not in (True, False) else []) if isinstance(a, str) and any(f_ in a for f_ in firsts)}
        bits7 = {a for a in opq if _re.fullmatch(r"bit\((.+\[0\]), 7\)", a)}
        if not padded or not plain:
            ctx.undecided("der-pad-iff-top-bit", ctx.where(ei), "encode_integer: padded and unpadded results not told apart by this rule")
        elif opq and opq == bits7:
            # the top bit is tested as a bit: padded exactly on the paths where it is set
            okp = all(any(sym.entails(e.cond, ("op", a)) for a in bits7) for e in padded)
            okn = all(any(sym.entails(e.cond, ("not", ("op", a))) for a in bits7) for e in plain)
            ctx.check(okp and okn, "der-pad-iff-top-bit", ctx.where(ei), "encode_integer: the 00 pad is %s and the unpadded form is %s; DER needs the pad exactly when the top bit of the first byte is set"
                      % ("written only when the top bit of the first byte is set" if okp else "written on a path where the top bit is not known to be set", "written only when it is clear" if okn else "written on a path where the top bit may be set"),
                      sample={"pads_for_first_byte": "top bit set", "no_pad_for": "top bit clear"})
        elif opq:
            ctx.undecided("der-pad-iff-top-bit", ctx.where(ei), "encode_integer tests the first byte with `%s`; this rule reads comparisons with constants and the bit test `& 0x80`" % sorted(opq)[0][:60])
        else:
            byte = iv(0, 255)
            sp = E
            for e in padded:
                sp = sp | (sym.may_set(e.cond, U, E) & byte)
            sn = E
            for e in plain:
                sn = sn | (sym.may_set(e.cond, U, E) & byte)
            ctx.check(sp == iv(128, 255) and sn == iv(0, 127), "der-pad-iff-top-bit", ctx.where(ei), "encode_integer pads for first bytes %s and does not pad for %s; DER needs the 00 pad exactly for 128..255 (0x80 without the pad reads as a negative number: not strict DER)" % (sp.fmt(), sn.fmt()),
                      sample={"pads_for_first_byte": sp.fmt(), "no_pad_for": sn.fmt()})
    # the encoder writes the two integers it was given: sigdecode_der(sigencode_der(r, s)) is (r, s) for EVERY pair (a canonical
    # low-S form is the signer's business -- C05.2 -- not the codec's)
    se = ctx.func(DER, "sigencode_der")
    wse = sym.walk(ctx, se)
    encs = sym.calls_matching(wse, lambda t: t == "encode_integer" or t.endswith(".encode_integer"))
    if not encs:
        ctx.undecided("der-encoder-identity", ctx.where(se), "sigencode_der does not call encode_integer")
    prs = set(se.params())
    for e in encs:
        a = e.call.args[0] if e.call.args else None
        if isinstance(a, ast.Name) and a.id in prs:
            ctx.ok("der-encoder-identity", sample={"encodes": a.id})
        elif a is not None and any(isinstance(x, ast.Name) and x.id in prs for x in ast.walk(a)) and any(isinstance(x, (ast.BinOp, ast.UnaryOp)) for x in ast.walk(a)):
            ctx.bad("der-encoder-identity", ctx.where(se, e.node), "sigencode_der encodes `%s`, not the integer it was given: the DER codec no longer returns what went in (sigdecode_der(sigencode_der(r, s)) != (r, s) for some s)" % norm(a)[:70])
        else:
            ctx.undecided("der-encoder-identity", ctx.where(se, e.node), "sigencode_der encodes `%s`; this rule reads parameters" % (norm(a)[:60] if a is not None else ""))
    # callers of the lenient / strict decoder handle exactly the documented errors
    for rel, fn, callee in (("pycoin/satoshi/checksigops.py", "checksigs", "parse_and_check_signature_blob"), (KEY, "Key.verify", "sigdecode_der")):
        c = ctx.func(rel, fn)
        w = sym.walk(ctx, c)
        cs = sym.calls_matching(w, callee)
        if not cs:
            raise Undecided("%s does not call %s any more" % (fn, callee))
        for e in cs:
            names = set()
            for t in sym.enclosing_tries(c.node, e.node):
                names |= sym.handler_names(t)
            ctx.check({"UnexpectedDER", "ValueError"} <= names or bool(names & {"Exception", "BaseException"}), "decoder-errors-handled:%s" % fn, ctx.where(c, e.node),
                      "%s does not handle both UnexpectedDER and ValueError from the DER decoder (handles %s)" % (fn, sorted(names)))


def c10_5(ctx):
    """coordinates are field elements (shared with C02.7); the application-level verifier decodes DER strictly (shared with C01.7)"""
    from rules import C02, C01
    C02.c02_7(ctx)
    C01.c01_7(ctx)


OBLIGATIONS = [
    Ob("C10.1", "SEC decoder: strict (prefix, length) decision table; coordinates below p before acceptance", c10_1, floor=8, engines="SYM,GI(finite),MK",
       breaks_if="02||(x+p); hybrid prefixes 06/07 in strict mode; wrong lengths", exhaustive=True),
    Ob("C10.2", "Key.__init__: secret exponent accepted exactly on [1, n-1]; public pair validated", c10_2, floor=3, engines="SYM,GI"),
    Ob("C10.3", "WIF: payload length {32,33} measured after the prefix strip, marker 01, flag = 33 bytes", c10_3, floor=5, engines="SYM,GI",
       breaks_if="two-byte WIF prefixes (DCR); marker byte != 01; 34-byte payload; exponent 0"),
    Ob("C10.5", "public pairs need field-element coordinates; Key.verify decodes DER strictly and turns decoder errors into False", c10_5, floor=5, engines="SYM,GI", breaks_if="(Gx, Gy - p); sig + b'\\x00'"),
    Ob("C10.4", "DER encoder / strict and lenient decoder equal the reference transcription (canonical forms); callers handle the documented errors", c10_4, floor=10, engines="SYM",
       breaks_if="sig + b'\\x00' in strict mode; truncated 30 / 30 02 02"),
]
