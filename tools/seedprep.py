#!/usr/bin/env python3
"""seedprep.py <round> <kinds.json> [Cxx ...]: prepare /tmp/seed<round>/Cxx/{wt,out,PROMPT.md} for independent sub-agents.

kinds.json: {"b13": "<what kind of breaking change>", "r19": "<what kind of refactoring>", ...}.  The prompt holds the
property text and the protocol only - nothing from /verif's rules, engines or earlier variants."""
import json, os, subprocess, sys

rnd = sys.argv[1]
kinds = json.load(open(sys.argv[2]))
only = set(sys.argv[3:])
root = "/tmp/seed%s" % rnd
props = [json.loads(l) for l in open("/verif/properties.jsonl")]

TEMPLATE = """# Task

You are working on a scratch git worktree of the Python library richardkiss/pycoin at `{wt}` (interpreter
`/venv/bin/python`, run things with `PYTHONPATH={wt}`; the pinned test suite is `cd {wt} && PYTHONPATH={wt}
/venv/bin/python -m pytest -q -p no:cacheprovider -n 4 --timeout=900`; four network tests fail on the untouched tree too -
ignore those: cmdline_test x2, tx_test fetch_unspent, services BlockchainInfo).  There is no network.  Work ONLY inside
`{wt}` and `{out}`; do not read or write `/verif` or `/repo`; never commit.

The following semantic property of pycoin is supposed to hold:

**{id}: {title}**

Statement: {statement}

Quantified over: {qtext}

Why the unit tests cannot settle it: {why}

Anchored in: {files}
Mechanisms: {mech}

# What to produce

{n} variants, each in its own directory under `{out}`:

{kinds}

For every **breaking** variant `{out}/<name>/`:
* `patch.diff` - `git diff` of the worktree (pycoin/ sources only; do not touch tests), a change a developer could
  plausibly make, that BREAKS the property above, while the package still imports and the pinned suite above still passes
  exactly as before.  The breakage must need something specific to manifest (an unusual input, a multi-step sequence, a
  particular configuration, two cooperating sites that each look fine alone), not something ordinary use exposes at once.
* `demo.py` - a small standalone program (run as `PYTHONPATH={wt} /venv/bin/python demo.py`) that exits 0 on the untouched
  tree and non-zero (printing what went wrong) with the patch applied.
* `meta.json` - {{"summary": "...", "file": "...", "function": "...", "needs": "what it needs in order to manifest",
  "why_tests_pass": "..."}}

For every **refactoring** variant `{out}/<name>/`:
* `patch.diff` - a change of the stated kind to code the property depends on that provably does NOT change behaviour for
  any input (same results, same exceptions, same side effects as far as any caller can observe); the suite still passes.
  Make it a real rewrite of the stated kind, not a cosmetic one, and be rigorous about equivalence - check edge cases
  (empty inputs, None, negative numbers, exception types) with a differential test against the untouched sources.
* `meta.json` - {{"summary": "...", "file": "...", "function": "...", "why_equivalent": "..."}}

Protocol for each variant: start from a clean worktree (`git -C {wt} checkout -- .`), make the edit, run the suite and your
demonstration / differential test, write `git -C {wt} diff > {out}/<name>/patch.diff`, then `git -C {wt} checkout -- .`
before the next one.  Verify at the end that every patch applies to the clean worktree with `git apply --check`.
Leave the worktree clean.  Reply with one line per variant: name, file/function touched, one-sentence description.
"""

for p in props:
    pid = p["id"]
    if only and pid not in only:
        continue
    d = "%s/%s" % (root, pid)
    wt, out = d + "/wt", d + "/out"
    os.makedirs(out, exist_ok=True)
    if not os.path.isdir(wt):
        subprocess.run(["git", "-C", "/repo", "worktree", "add", "--detach", wt, "HEAD"], check=True,
                       stdout=subprocess.DEVNULL, stderr=subprocess.DEVNULL)
    a = p["anchors"]
    text = TEMPLATE.format(
        wt=wt, out=out, id=pid, title=p["title"], statement=p["statement"], qtext=p["quantifier"]["text"],
        why=p["why_tests_cant"], files=", ".join(a["files"]),
        mech="; ".join("%s (%s)" % (m["name"], m["where"]) for m in a["mechanism"]),
        n=len(kinds), kinds="\n".join("* `%s` (%s): %s" % (k, "breaking" if k.startswith("b") else "refactoring", v)
                                      for k, v in kinds.items()))
    open(d + "/PROMPT.md", "w").write(text)
    print(pid, d + "/PROMPT.md")
