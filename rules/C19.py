"""C19 - hash primitives: structural obligations (DESIGN.md section 4, C19)."""
from __future__ import annotations

import ast

from sa.core import Ob
from sa.pm import AnalysisError, norm, body_nodes
from sa import gi, df, ru
from sa.gi import GuardWalker, FiniteAtomizer, FinSet

RMD = "pycoin/contrib/ripemd160.py"
HASH = "pycoin/encoding/hash.py"
BLOOM = "pycoin/bloomfilter.py"

# ---- RIPEMD-160 specification (Dobbertin, Bosselaers, Preneel 1996), written from the paper's definitions
RHO = [7, 4, 13, 1, 10, 6, 15, 3, 12, 0, 9, 5, 2, 14, 11, 8]
PI = [(9 * i + 5) % 16 for i in range(16)]
SHIFT = [
    [11, 14, 15, 12, 5, 8, 7, 9, 11, 13, 14, 15, 6, 7, 9, 8],
    [12, 13, 11, 15, 6, 9, 9, 7, 12, 15, 11, 13, 7, 8, 7, 7],
    [13, 15, 14, 11, 7, 7, 6, 8, 13, 14, 13, 12, 5, 5, 6, 9],
    [14, 11, 12, 14, 8, 6, 5, 5, 15, 12, 15, 14, 9, 9, 8, 6],
    [15, 12, 13, 13, 9, 5, 8, 6, 14, 11, 12, 11, 8, 6, 5, 5],
]


def spec_tables():
    ml, mr = [], []
    cur_l = list(range(16))
    cur_r = list(PI)
    for rnd in range(5):
        ml.extend(cur_l)
        mr.extend(cur_r)
        cur_l = [RHO[x] for x in cur_l]
        cur_r = [RHO[x] for x in cur_r]
    rl = [SHIFT[j >> 4][ml[j]] for j in range(80)]
    rr = [SHIFT[j >> 4][mr[j]] for j in range(80)]
    import math

    def isqrt_scaled(n):      # floor(2^30 * sqrt(n))
        return math.isqrt(n << 60)

    def icbrt_scaled(n):      # floor(2^30 * cbrt(n))
        x = n << 90
        r = round(x ** (1 / 3))
        while r ** 3 > x:
            r -= 1
        while (r + 1) ** 3 <= x:
            r += 1
        return r
    kl = [0] + [isqrt_scaled(n) for n in (2, 3, 5, 7)]
    kr = [icbrt_scaled(n) for n in (2, 3, 5, 7)] + [0]
    return ml, mr, rl, rr, kl, kr


IV = (0x67452301, 0xEFCDAB89, 0x98BADCFE, 0x10325476, 0xC3D2E1F0)


# ------------------------------------------------------------------ C19.1
def c19_1(ctx):
    it = ctx.interp
    m = ctx.p.module(RMD)
    ml, mr, rl, rr, kl, kr = spec_tables()
    for name, want in (("ML", ml), ("MR", mr), ("RL", rl), ("RR", rr), ("KL", kl), ("KR", kr)):
        got = it.get(m.name, name)
        diff = [i for i, (a, b) in enumerate(zip(got, want)) if a != b] if isinstance(got, list) and len(got) == len(want) else "length"
        ctx.check(got == want, "table:%s" % name, "%s:1" % RMD, "RIPEMD-160 table %s differs from the specification at entries %s" % (name, diff if diff == "length" else diff[:6]),
                  sample={"table": name, "entries": len(want), "derived_from": "rho/pi permutations and the 5x16 shift table" if name[0] in "MR" and name != "KR" else "2^30 * roots of 2,3,5,7"})
    f = ctx.func(RMD, "fi")
    w = GuardWalker(gi.SymbolicAtomizer(ru.subject({"i"}), df.const_int))
    ex = w.run(f.node.body)
    got = {}
    for e in ex:
        if e.kind == "return":
            s = gi.sat_set(e.cond, gi.IntSet.all(), gi.IntSet.empty())
            if len(s.ivs) == 1 and s.ivs[0][0] == s.ivs[0][1]:
                got[s.ivs[0][0][1]] = norm(e.value)
    want = {0: "x ^ y ^ z", 1: "x & y | ~x & z", 2: "(x | ~y) ^ z", 3: "x & z | y & ~z", 4: "x ^ (y | ~z)"}
    ctx.check(got == want, "round-functions", ctx.where(f), "the five RIPEMD-160 boolean functions are %s" % got, sample={"fi": got})
    r = ctx.func(RMD, "rol")
    ctx.check(norm(r.node.body[-1]) == "return (x << i | (x & 4294967295) >> 32 - i) & 4294967295", "rol", ctx.where(r), "rol is not a 32-bit left rotation: %s" % norm(r.node.body[-1]))
    c = ctx.func(RMD, "compress")
    body = [norm(s) for s in c.node.body if not (isinstance(s, ast.Expr) and isinstance(s.value, ast.Constant))]
    want_body = [
        "al, bl, cl, dl, el = (h0, h1, h2, h3, h4)",
        "ar, br, cr, dr, er = (h0, h1, h2, h3, h4)",
        "x = [struct.unpack('<L', block[4 * i:4 * (i + 1)])[0] for i in range(16)]",
        "for j in range(80):\n    rnd = j >> 4\n    al = rol(al + fi(bl, cl, dl, rnd) + x[ML[j]] + KL[rnd], RL[j]) + el\n    al, bl, cl, dl, el = (el, al, bl, rol(cl, 10), dl)\n"
        "    ar = rol(ar + fi(br, cr, dr, 4 - rnd) + x[MR[j]] + KR[rnd], RR[j]) + er\n    ar, br, cr, dr, er = (er, ar, br, rol(cr, 10), dr)",
        "return (h1 + cl + dr, h2 + dl + er, h3 + el + ar, h4 + al + br, h0 + bl + cr)",
    ]
    for i, (g, w_) in enumerate(zip(body + [""] * 5, want_body)):
        ctx.check(g == w_, "compress-step-%d" % i, ctx.where(c), "compress step %d is `%s`; the specification's step is `%s`" % (i, g[:120], w_[:120]), what="compress:%d" % i, sample=None)
    ctx.check(len(body) == len(want_body), "compress-length", ctx.where(c), "compress has %d steps, expected %d" % (len(body), len(want_body)))
    h = ctx.func(RMD, "ripemd160")
    body = [norm(s) for s in h.node.body if not (isinstance(s, ast.Expr) and isinstance(s.value, ast.Constant))]
    want_body = [
        "state = (%d, %d, %d, %d, %d)" % IV,
        "for b in range(len(data) >> 6):\n    state = compress(*state, data[64 * b:64 * (b + 1)])",
        "pad = b'\\x80' + b'\\x00' * (119 - len(data) & 63)",
        "fin = data[len(data) & ~63:] + pad + struct.pack('<Q', 8 * len(data))",
        "for b in range(len(fin) >> 6):\n    state = compress(*state, fin[64 * b:64 * (b + 1)])",
        "return b''.join((struct.pack('<L', h & 4294967295) for h in state))",
    ]
    for i, (g, w_) in enumerate(zip(body + [""] * 6, want_body)):
        ctx.check(g == w_, "ripemd160-step-%d" % i, ctx.where(h), "ripemd160 step %d is `%s`; Merkle-Damgard padding / IV / output per the specification: `%s`" % (i, g[:120], w_[:120]), what="md:%d" % i,
                  sample={"step": i, "statement": g[:100]} if i in (2, 3) else None)
    ctx.check(len(body) == len(want_body), "ripemd160-length", ctx.where(h), "ripemd160 has %d steps, expected %d" % (len(body), len(want_body)))


# ------------------------------------------------------------------ C19.2
def _ops(stmts, vars_):
    return [norm(s) for s in stmts if isinstance(s, (ast.Assign, ast.AugAssign)) and norm(s.targets[0] if isinstance(s, ast.Assign) else s.target) in vars_]


def c19_2(ctx):
    f = ctx.func(BLOOM, "murmur3")
    top = [s for s in f.node.body if not (isinstance(s, ast.Expr) and isinstance(s.value, ast.Constant))]
    defs = df.single_defs(f.node)
    for nm, val in (("c1", 0xCC9E2D51), ("c2", 0x1B873593)):
        ctx.check(nm in defs and df.const_int(defs[nm]) == val, "murmur-const:%s" % nm, ctx.where(f), "murmur3 constant %s is %s, MurmurHash3_x86_32 uses 0x%08x" % (nm, norm(defs[nm]) if nm in defs else None, val))
    ctx.check(norm(defs.get("roundedEnd", ast.Constant(0))) == "length & 4294967292" and norm(defs.get("length", ast.Constant(0))) == "len(data)", "murmur-blocks", ctx.where(f), "murmur3 does not process len & ~3 bytes in 4-byte blocks")
    loops = [s for s in top if isinstance(s, ast.For)]
    if len(loops) != 1:
        raise AnalysisError("murmur3: expected one block loop")
    lp = loops[0]
    ctx.check(norm(lp.iter) == "range(0, roundedEnd, 4)", "murmur-block-loop", ctx.where(f, lp), "block loop iterates %s" % norm(lp.iter))
    got = _ops(lp.body, {"k1", "h1"})
    want = ["k1 = data[i] & 255 | (data[i + 1] & 255) << 8 | (data[i + 2] & 255) << 16 | data[i + 3] << 24", "k1 *= c1", "k1 = k1 << 15 | (k1 & 4294967295) >> 17", "k1 *= c2",
            "h1 ^= k1", "h1 = h1 << 13 | (h1 & 4294967295) >> 19", "h1 = h1 * 5 + 3864292196"]
    ctx.check(got == want, "murmur-block-mix", ctx.where(f, lp), "block mixing is %s; MurmurHash3: k*=c1, rotl 15, k*=c2, h^=k, rotl 13, h=h*5+0xe6546b64 on a little-endian word" % [g for g in got if g not in want][:3],
              sample={"block": got})
    # tail: k1 restarts at 0 after the loop
    idx = top.index(lp)
    after = top[idx + 1:]
    k0 = [s for s in after if isinstance(s, ast.Assign) and norm(s) == "k1 = 0"]
    before = [s for s in top[:idx] if isinstance(s, ast.Assign) and norm(s.targets[0]) == "k1"]
    tail_ifs = [s for s in after if isinstance(s, ast.If) and "val" in norm(s.test)]
    ok = len(k0) == 1 and not before and tail_ifs and after.index(k0[0]) < after.index(tail_ifs[0])
    ctx.check(ok, "murmur-tail-reset", ctx.where(f), "the tail does not start from k1 = 0 after the block loop: the tail bytes are OR-ed into the last block's k1 (inputs with len % 4 in {1,2} and len >= 4 hash wrongly)",
              sample={"k1_reset_after_loop": len(k0), "k1_assigned_before_loop": len(before)})
    ctx.check(norm(defs.get("val", ast.Constant(0))) == "length & 3", "murmur-tail-length", ctx.where(f), "tail length is not len & 3")
    from sa.interp import Frame
    it = ctx.interp
    mv = it.module(f.module.name)
    fa = FiniteAtomizer(range(4), lambda e, v: bool(it.eval(e, Frame(mv, None, {"val": v}))))
    w = GuardWalker(fa)
    w.block(after, True)
    got = {}
    for st, r in w.visits:
        if isinstance(st, (ast.Assign, ast.AugAssign)) and norm(st.targets[0] if isinstance(st, ast.Assign) else st.target) in ("k1", "h1") and not gi.f_equiv(r, True, fa.univ(), fa.empty()):
            got[norm(st)] = sorted(gi.sat_set(r, fa.univ(), fa.empty()).m)
    want = {"k1 = (data[roundedEnd + 2] & 255) << 16": [3], "k1 |= (data[roundedEnd + 1] & 255) << 8": [2, 3], "k1 |= data[roundedEnd] & 255": [1, 2, 3],
            "k1 *= c1": [1, 2, 3], "k1 = k1 << 15 | (k1 & 4294967295) >> 17": [1, 2, 3], "k1 *= c2": [1, 2, 3], "h1 ^= k1": [1, 2, 3]}
    ctx.check(got == want, "murmur-tail-switch", ctx.where(f), "tail handling by (len & 3) is %s; MurmurHash3 falls through 3 -> 2 -> 1 with shifts 16, 8, 0 and mixes k1 once" % {k: v for k, v in got.items() if want.get(k) != v},
              sample={"tail": got})
    fin = _ops([s for s in after if not isinstance(s, ast.If) and norm(s) != "k1 = 0"], {"h1"})
    want = ["h1 ^= length", "h1 ^= (h1 & 4294967295) >> 16", "h1 *= 2246822507", "h1 ^= (h1 & 4294967295) >> 13", "h1 *= 3266489909", "h1 ^= (h1 & 4294967295) >> 16"]
    ctx.check(fin == want, "murmur-fmix", ctx.where(f), "finalisation is %s; MurmurHash3 fmix32: ^=len, ^>>16, *0x85ebca6b, ^>>13, *0xc2b2ae35, ^>>16" % fin)
    rets = df.returns_of(f.node)
    ctx.check(len(rets) == 1 and norm(rets[0].value) == "h1 & 4294967295" and norm(defs.get("h1", ast.Constant(0))) != "seed" or any(norm(s) == "h1 = seed" for s in top), "murmur-seed-and-result", ctx.where(f), "murmur3 does not start from the seed / return the low 32 bits")
    # bloom filter addressing
    a = ctx.func(BLOOM, "BloomFilter.add_item")
    t = norm(a.node)
    ctx.check("for hash_index in range(self.hash_function_count):" in t and "seed = hash_index * 4221880213 + self.tweak" in t and "self.set_bit(murmur3(item_bytes, seed=seed) % self.bit_count)" in t, "bip37-seeds", ctx.where(a),
              "BloomFilter.add_item does not set bit murmur3(item, i*0xFBA4C795 + tweak) mod (8*size) for each hash function i")
    i = ctx.func(BLOOM, "BloomFilter.__init__")
    ctx.check("self.bit_count = 8 * size_in_bytes" in norm(i.node) and "self.filter_bytes = bytearray(size_in_bytes)" in norm(i.node), "bloom-size", ctx.where(i), "bit count is not 8 * size")
    x = ctx.func(BLOOM, "BloomFilter._index_for_bit")
    t = norm(x.node)
    ctx.check("byte_index, mask_index = divmod(v, 8)" in t and "mask = self.MASK_ARRAY[mask_index]" in t, "bloom-bit-address", ctx.where(x), "bit v is not byte v//8, mask 1 << (v%8)")
    cv = it.get(a.module.name, "BloomFilter")
    ctx.check(it.getattr(cv, "MASK_ARRAY") == [1, 2, 4, 8, 16, 32, 64, 128], "bloom-masks", ctx.where(x), "MASK_ARRAY is not [1<<i]")
    sb = ctx.func(BLOOM, "BloomFilter.set_bit")
    ctx.check("self.filter_bytes[byte_index] |= mask" in norm(sb.node), "bloom-set", ctx.where(sb), "set_bit does not OR the mask into the byte")


# ------------------------------------------------------------------ C19.3
def c19_3(ctx):
    n = 0
    for rel, name in ((BLOOM, "murmur3"), (RMD, "rol"), (RMD, "compress"), (RMD, "ripemd160")):
        f = ctx.func(rel, name)
        for x in body_nodes(f.node):
            if isinstance(x, ast.BinOp) and isinstance(x.op, ast.RShift):
                l = x.left
                clean = (isinstance(l, ast.BinOp) and isinstance(l.op, ast.BitAnd) and 0xFFFFFFFF in (df.const_int(l.left), df.const_int(l.right))) or \
                    (isinstance(l, ast.Name) and l.id in ("j", "b")) or (isinstance(l, ast.Call) and norm(l.func) == "len")
                n += 1
                ctx.check(clean, "dirty-right-shift:%s:%s" % (name, norm(x)), ctx.where(f, x), "%s: `%s` shifts a value that is not reduced to 32 bits first (Python integers are unbounded: high garbage bits enter the result)" % (name, norm(x)),
                          what="%s:%s" % (name, norm(x)), sample={"function": name, "shift": norm(x)} if n < 3 else None)
            # rotation pairs
            if isinstance(x, ast.BinOp) and isinstance(x.op, ast.BitOr) and isinstance(x.left, ast.BinOp) and isinstance(x.left.op, ast.LShift) and isinstance(x.right, ast.BinOp) and isinstance(x.right.op, ast.RShift):
                a, b = df.const_int(x.left.right), df.const_int(x.right.right)
                if a is not None and b is not None:
                    ctx.check(a + b == 32, "rotation-pair:%s:%d" % (name, a), ctx.where(f, x), "%s: rotation `%s` shifts by %d and %d, which do not sum to 32" % (name, norm(x), a, b), what="rot:%s:%d:%d" % (name, a, b), sample=None)


# ------------------------------------------------------------------ C19.4
def c19_4(ctx):
    f = ctx.func(HASH, "get_best_ripemd160")
    w = GuardWalker(ru.opaque)
    ex = w.run(f.node.body)
    ctx.check(all(e.kind == "return" and e.value is not None and not (isinstance(e.value, ast.Constant) and e.value.value is None) for e in ex), "selection-total", ctx.where(f),
              "get_best_ripemd160 has an exit that does not return a hash factory: %s" % [(e.kind, norm(e.value) if e.value is not None else None) for e in ex])
    nat = [e for e in ex if e.kind == "return" and norm(e.value) == "ripemd160_native"]
    from rules.C01 import can_be
    A, B = "'ripemd160' in hashlib.algorithms_available", "os.getenv('PYCOIN_USE_PYTHON_RIPEMD160')"
    ok = len(nat) == 1 and can_be(nat[0].cond, A) and not can_be(gi.f_and(nat[0].cond, ("not", ("op", A))), "\0") and not can_be(gi.f_and(nat[0].cond, ("op", B)), "\0")
    ctx.check(ok, "native-selection", ctx.where(f), "the native implementation is not selected exactly when available and PYCOIN_USE_PYTHON_RIPEMD160 is unset")
    tries = [n for n in body_nodes(f.node) if isinstance(n, ast.Try) and any("ripemd160_native(b'').digest()" in norm(s) for s in n.body)]
    ctx.check(len(tries) == 1 and nat and any(nat[0].node is s for s in tries[0].body), "native-probed", ctx.where(f), "the native implementation is returned without a successful probe call")
    fall = [e for e in ex if e.kind == "return" and norm(e.value) == "_PurePythonRIPEMD160"]
    ctx.check(len(fall) == 1, "fallback", ctx.where(f), "the pure-Python fallback is not the last resort")
    pp = ctx.func(HASH, "_PurePythonRIPEMD160.__init__")
    body = [norm(s) for s in pp.node.body]
    ctx.check(body == ["self._digest: bytes = pycoin.contrib.ripemd160.ripemd160(data)"], "fallback-delegates", ctx.where(pp),
              "_PurePythonRIPEMD160.__init__ is %s; it must hash every input through pycoin.contrib.ripemd160.ripemd160 (no special-cased lengths)" % body, sample={"body": body})
    dg = ctx.func(HASH, "_PurePythonRIPEMD160.digest")
    ctx.check([norm(s) for s in dg.node.body] == ["return self._digest"], "fallback-digest", ctx.where(dg), "_PurePythonRIPEMD160.digest does not return the computed digest")
    n = ctx.func(HASH, "ripemd160_native")
    ctx.check("return hashlib.new('ripemd160', data)" in norm(n.node), "native", ctx.where(n), "ripemd160_native is not hashlib.new('ripemd160', data)")
    h = ctx.func(HASH, "hash160")
    ctx.check("return ripemd160(hashlib.sha256(data).digest()).digest()" in norm(h.node), "hash160", ctx.where(h), "hash160 is not ripemd160(sha256(data))")
    d = ctx.func(HASH, "double_sha256")
    ctx.check("return bytes_as_revhex(hashlib.sha256(hashlib.sha256(data).digest()).digest())" in norm(d.node), "double-sha256", ctx.where(d), "double_sha256 is not sha256(sha256(data))")
    m = ctx.p.module(HASH)
    ctx.check([norm(v) for v in m.assigns.get("ripemd160", [])] == ["get_best_ripemd160()"], "selection-bound", "%s:1" % HASH, "module-level ripemd160 is not get_best_ripemd160()")


OBLIGATIONS = [
    Ob("C19.1", "RIPEMD-160 tables re-derived from the specification; round functions, compress and padding steps", c19_1, floor=20, engines="TB,CE", exhaustive=True,
       breaks_if="any input when the pure-Python fallback is active (lengths at multiples of 64 for the padding)"),
    Ob("C19.2", "MurmurHash3_x86_32 constants, block mix, tail switch (finite on len & 3), fmix; BIP37 seeds and bit addressing", c19_2, floor=14, engines="TB,GI(finite)",
       breaks_if="items with len % 4 in {1,2,3}; any seed"),
    Ob("C19.3", "32-bit width hygiene: masked right shifts, rotation pairs sum to 32", c19_3, floor=10, engines="WH"),
    Ob("C19.4", "implementation selection falls through to a factory on every path; compound hashes", c19_4, floor=10, engines="CFG,DF", breaks_if="56-byte inputs under the fallback"),
]
