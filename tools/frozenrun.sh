#!/bin/bash
# frozenrun.sh <frozen-verif-clone> <suffix-regex> : run the frozen engine's own-property check on the kept variants whose name matches
FZ=$1; RE=$2
cd $FZ
run() {
  td=$(mktemp -d /tmp/vf-XXXXXX); cp -r /repo/pycoin $td/pycoin
  (cd $td && patch -p1 -s --no-backup-if-mismatch -i $4 >/dev/null 2>&1) || { echo "$2: patch failed"; rm -rf $td; return; }
  out=$(VERIF_REPO=$td ./check $1 --no-evidence 2>&1); code=$?
  rm -rf $td
  rules=$(echo "$out" | grep -E "^VIOLATED" | awk '{print $2}' | sort -u | tr '\n' ' ')
  if [ "$3" = refactoring ]; then
    if [ $code -eq 0 ]; then echo "$2: silent"; elif [ $code -eq 1 ]; then echo "$2: FALSE ALARM by $rules"; else echo "$2: twin -> analysis-error: $(echo "$out" | grep ANALYSIS-ERROR | head -1 | cut -c1-160)"; fi
  else
    if [ $code -eq 1 ]; then echo "$2: CAUGHT by $rules"; elif [ $code -eq 2 ]; then echo "$2: analysis-error: $(echo "$out" | grep ANALYSIS-ERROR | head -1 | cut -c1-160)"; else echo "$2: MISSED"; fi
  fi
}
for d in /verif/seeded/*; do
  b=$(basename $d); k=${b#*-}
  [[ $k =~ $RE ]] || continue
  [ -f $d/patch.diff ] || continue
  pid=${b%%-*}
  case $k in r*) kind=refactoring;; *) kind=breaking;; esac
  run $pid $b $kind $d/patch.diff &
  while [ $(jobs -r | wc -l) -ge ${JOBS:-8} ]; do sleep 0.2; done
done
wait
