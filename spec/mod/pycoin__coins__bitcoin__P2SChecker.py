"""Transcription of every function of pycoin/coins/bitcoin/P2SChecker.py as of the reviewed tree (see DESIGN.md section 12).
NEVER IMPORTED OR EXECUTED: parsed and compared in canonical form (sa/sym.py) with the functions in /repo."""


_CONSTS = {
    'OP_EQUAL': 135,
    'OP_HASH160': 169,
    'VERIFY_P2SH': 1,
}


# pycoin/coins/bitcoin/P2SChecker.py :: P2SChecker.is_pay_to_script_hash
def q__P2SChecker__is_pay_to_script_hash(class_, script_public_key):
    return len(script_public_key) == 23 and script_public_key[0] == OP_HASH160 and (script_public_key[1] == 20) and (script_public_key[-1] == OP_EQUAL)


# pycoin/coins/bitcoin/P2SChecker.py :: P2SChecker.script_hash_from_script
def q__P2SChecker__script_hash_from_script(class_, puzzle_script):
    if class_.is_pay_to_script_hash(puzzle_script):
        return puzzle_script[2:-1]
    return False


# pycoin/coins/bitcoin/P2SChecker.py :: P2SChecker.p2s_program_tuple
def q__P2SChecker__p2s_program_tuple(self, tx_context, puzzle_script, solution_stack, flags, sighash_f):
    if flags & VERIFY_P2SH and self.is_pay_to_script_hash(puzzle_script):
        self._check_script_push_only(tx_context.solution_script)
        puzzle_script, solution_stack = (solution_stack[-1], solution_stack[:-1])
        return (puzzle_script, solution_stack, flags & ~VERIFY_P2SH, sighash_f)
    return None
