"""Transcription of every function of pycoin/message/PeerAddress.py as of the reviewed tree (see DESIGN.md section 12).
NEVER IMPORTED OR EXECUTED: parsed and compared in canonical form (sa/sym.py) with the functions in /repo."""


_CONSTS = {
    'IP4_HEADER': b'\x00\x00\x00\x00\x00\x00\x00\x00\x00\x00\xff\xff',
}


# pycoin/message/PeerAddress.py :: ip_bin_to_ip6_addr
def q__ip_bin_to_ip6_addr(ip_bin):
    return ':'.join(('%x' % v for v in struct.unpack('>HHHHHHHH', ip_bin)))


# pycoin/message/PeerAddress.py :: ip_bin_to_ip4_addr
def q__ip_bin_to_ip4_addr(ip_bin):
    return '%d.%d.%d.%d' % tuple(ip_bin[-4:])


# pycoin/message/PeerAddress.py :: PeerAddress.__init__
def q__PeerAddress____init__(self, services, ip_bin, port):
    self.services = int(services)
    assert isinstance(ip_bin, bytes)
    if len(ip_bin) == 4:
        ip_bin = IP4_HEADER + ip_bin
    assert len(ip_bin) == 16
    self.ip_bin = ip_bin
    self.port = port


# pycoin/message/PeerAddress.py :: PeerAddress.__repr__
def q__PeerAddress____repr__(self):
    return '%s/%d' % (self.host(), self.port)


# pycoin/message/PeerAddress.py :: PeerAddress.host
def q__PeerAddress__host(self):
    if self.ip_bin.startswith(IP4_HEADER):
        return ip_bin_to_ip4_addr(self.ip_bin[-4:])
    return ip_bin_to_ip6_addr(self.ip_bin)


# pycoin/message/PeerAddress.py :: PeerAddress.stream
def q__PeerAddress__stream(self, f):
    f.write(struct.pack('<Q', self.services))
    f.write(self.ip_bin)
    f.write(struct.pack('!H', self.port))


# pycoin/message/PeerAddress.py :: PeerAddress.parse
def q__PeerAddress__parse(cls, f):
    services, ip_bin, port = parse_struct('Q@h', f)
    return cls(services, ip_bin, port)


# pycoin/message/PeerAddress.py :: PeerAddress.__lt__
def q__PeerAddress____lt__(self, other):
    return (self.ip_bin, self.port, self.services) < (other.ip_bin, other.port, other.services)


# pycoin/message/PeerAddress.py :: PeerAddress.__eq__
def q__PeerAddress____eq__(self, other):
    if not isinstance(other, PeerAddress):
        return False
    return self.services == other.services and self.ip_bin == other.ip_bin and (self.port == other.port)
