"""Transcription of every function of pycoin/key/electrum.py as of the reviewed tree (see DESIGN.md section 12).
NEVER IMPORTED OR EXECUTED: parsed and compared in canonical form (sa/sym.py) with the functions in /repo."""


_CONSTS = {

}


# pycoin/key/electrum.py :: initial_key_to_master_key
def q__initial_key_to_master_key(initial_key):
    b = initial_key.encode('utf8')
    orig_input = b
    for i in range(100000):
        b = hashlib.sha256(b + orig_input).digest()
    return from_bytes_32(b)


# pycoin/key/electrum.py :: ElectrumWallet.__init__
def q__ElectrumWallet____init__(self, initial_key=None, master_private_key=None, public_pair=None, master_public_key=None):
    if [initial_key, public_pair, master_private_key, master_public_key].count(None) != 3:
        raise ValueError()
    self._initial_key = initial_key
    if initial_key is not None:
        master_private_key = initial_key_to_master_key(initial_key)
    if master_public_key:
        public_pair = tuple((from_bytes_32(master_public_key[idx:idx + 32]) for idx in (0, 32)))
    super(ElectrumWallet, self).__init__(secret_exponent=master_private_key, public_pair=public_pair, is_compressed=False)


# pycoin/key/electrum.py :: ElectrumWallet.deserialize
def q__ElectrumWallet__deserialize(cls, blob):
    if len(blob) == 32:
        return cls(master_private_key=from_bytes_32(blob))
    if len(blob) == 64:
        return cls(master_public_key=blob)
    return None


# pycoin/key/electrum.py :: ElectrumWallet.serialize
def q__ElectrumWallet__serialize(self):
    if self._secret_exponent:
        return to_bytes_32(self._secret_exponent)
    return self.master_public_key()


# pycoin/key/electrum.py :: ElectrumWallet.as_text
def q__ElectrumWallet__as_text(self):
    if self._initial_key:
        return 'E:%s' % self._initial_key
    return 'E:%s' % b2h(self.serialize())


# pycoin/key/electrum.py :: ElectrumWallet.secret_exponent
def q__ElectrumWallet__secret_exponent(self):
    if self._secret_exponent is None and self._initial_key:
        self._secret_exponent = initial_key_to_master_key(b2h(self._initial_key))
    return self._secret_exponent


# pycoin/key/electrum.py :: ElectrumWallet.master_private_key
def q__ElectrumWallet__master_private_key(self):
    return self.secret_exponent()


# pycoin/key/electrum.py :: ElectrumWallet.master_public_key
def q__ElectrumWallet__master_public_key(self):
    sec = self.sec()
    return sec[1:] if sec is not None else b''


# pycoin/key/electrum.py :: ElectrumWallet.public_copy
def q__ElectrumWallet__public_copy(self):
    if self.secret_exponent() is None:
        return self
    return self.__class__(public_pair=self.public_pair())


# pycoin/key/electrum.py :: ElectrumWallet.subkey_for_path
def q__ElectrumWallet__subkey_for_path(self, path):
    return self.subkey(path)


# pycoin/key/electrum.py :: ElectrumWallet.subkey
def q__ElectrumWallet__subkey(self, path):
    t = path.split('/')
    if len(t) == 2:
        n, for_change = t
    else:
        n, = t
        for_change = 0
    b = (str(n) + ':' + str(for_change) + ':').encode('utf8') + self.master_public_key()
    offset = from_bytes_32(double_sha256(b))
    if self.secret_exponent():
        return self.__class__(master_private_key=(self.master_private_key() + offset) % self._generator.order())
    p1 = offset * self._generator
    x, y = self.public_pair()
    p2 = self._generator.Point(x, y)
    p = p1 + p2
    return self.__class__(public_pair=p)


# pycoin/key/electrum.py :: ElectrumWallet.subkeys
def q__ElectrumWallet__subkeys(self, path):
    for _ in subpaths_for_path_range(path, hardening_chars="'pH"):
        yield self.subkey(_)


# pycoin/key/electrum.py :: ElectrumWallet.__repr__
def q__ElectrumWallet____repr__(self):
    return 'Electrum<E:%s>' % b2h(self.master_public_key())
