#!/usr/bin/env python3
"""Unit tests of the canonical forms of sa/sym.py: pairs of function bodies that must (or must not) have the same
summary.  Run: python3 selftest/symtest.py   (exit 0 iff every expectation holds).  The functions are parsed, never run."""
import ast
import os
import sys
import textwrap

sys.path.insert(0, os.path.dirname(os.path.dirname(os.path.abspath(__file__))))
from sa import sym  # noqa: E402

INTS = lambda t: t in ("a", "b", "c", "i", "j", "k", "n", "x", "y", "v", "lo", "hi", "count", "total", "size") or t.startswith("len(")

SAME = [
    ("rename + temporary",
     "def f(s, n):\n    t = len(s)\n    if t > n:\n        raise ValueError('x')\n    return s[:n]",
     "def f(s, n):\n    if len(s) > n:\n        raise ValueError('too long')\n    head = s[:n]\n    return head"),
    ("de morgan / early return",
     "def f(a, b):\n    if a < 1 or a >= b:\n        return False\n    return True",
     "def f(a, b):\n    if not (1 <= a < b):\n        return False\n    return True"),
    ("nested if vs and",
     "def f(a, b):\n    if a == 0:\n        if b == 0:\n            return None\n    return a + b",
     "def f(a, b):\n    if a == 0 and b == 0:\n        return None\n    return b + a"),
    ("ifexp vs if",
     "def f(c, a, b):\n    x = a if c else b\n    return g(x)",
     "def f(c, a, b):\n    if c:\n        return g(a)\n    return g(b)"),
    ("shift / mask idioms",
     "def f(v):\n    return (v >> 3, v & 7)",
     "def f(v):\n    q, r = divmod(v, 8)\n    return q, r"),
    ("linear arithmetic",
     "def f(i, s):\n    return s[4 * i:4 * (i + 1)]",
     "def f(i, s):\n    start = 4 * i\n    return s[start:start + 4]"),
    ("append loop vs comprehension",
     "def f(xs):\n    out = []\n    for x in xs:\n        out.append(h(x))\n    return out",
     "def f(xs):\n    return [h(item) for item in xs]"),
    ("loop over literal tuple",
     "def f(w, a, b):\n    for t in (a, b):\n        w.write(t)\n",
     "def f(w, a, b):\n    w.write(a)\n    w.write(b)\n"),
    ("enumerate vs range(len)",
     "def f(xs):\n    for i in range(len(xs)):\n        if i != 2:\n            xs[i].seq = 0\n",
     "def f(xs):\n    for i, x in enumerate(xs):\n        if i != 2:\n            x.seq = 0\n"),
    ("impure calls keep their order",
     "def f(vm):\n    v3, v2, v1 = [vm.pop() for _ in range(3)]\n    return v2 <= v1 < v3",
     "def f(vm):\n    hi = vm.pop()\n    lo = vm.pop()\n    x = vm.pop()\n    return lo <= x and x < hi"),
    ("any / all",
     "def f(s):\n    if any(ord(c) < 33 or ord(c) > 126 for c in s):\n        return None\n    return s",
     "def f(s):\n    if not all(33 <= ord(ch) <= 126 for ch in s):\n        return None\n    return s"),
    ("bit test idioms",
     "def f(flags, k):\n    if flags & (1 << k) == 0:\n        return 0\n    return 1",
     "def f(flags, k):\n    if (flags >> k) & 1:\n        return 1\n    return 0"),
    ("aug item vs assignment",
     "def f(d):\n    d['t'] |= 64\n",
     "def f(d):\n    d['t'] = d['t'] | 64\n"),
    ("stream_struct letters",
     "def f(f_, a, b):\n    stream_struct('QL', f_, a, b)\n",
     "def f(f_, a, b):\n    stream_struct('Q', f_, a)\n    stream_struct('L', f_, b)\n"),
    ("continue vs else",
     "def f(xs, w):\n    for x in xs:\n        if x is None:\n            continue\n        w.write(x)\n",
     "def f(xs, w):\n    for x in xs:\n        if x is not None:\n            w.write(x)\n"),
    ("difference comparison",
     "def f(a, n):\n    if a + a > n:\n        return n - a\n    return a",
     "def f(a, n):\n    if a > n - a:\n        return n - a\n    return a"),
    ("string formatting",
     "def f(t, d):\n    return d['OP_%s' % t]",
     "def f(t, d):\n    return d['OP_' + t]"),
    ("return None vs fall",
     "def f(a, w):\n    if not a:\n        return\n    w.write(a)\n",
     "def f(a, w):\n    if a:\n        w.write(a)\n"),
]

DIFFERENT = [
    ("length before and after an in-place change are different terms",
     "def f(seen, o):\n    n = len(seen)\n    seen.add(o)\n    if len(seen) == n:\n        raise ValueError\n    return seen",
     "def f(seen, o):\n    seen.add(o)\n    raise ValueError"),
    ("off by one",
     "def f(a, b):\n    if a < 1 or a >= b:\n        return False\n    return True",
     "def f(a, b):\n    if a < 1 or a > b:\n        return False\n    return True"),
    ("swapped writes",
     "def f(w, a, b):\n    w.write(a)\n    w.write(b)\n",
     "def f(w, a, b):\n    w.write(b)\n    w.write(a)\n"),
    ("swapped pops",
     "def f(vm):\n    a = vm.pop()\n    b = vm.pop()\n    return g(b, a)",
     "def f(vm):\n    a = vm.pop()\n    b = vm.pop()\n    return g(a, b)"),
    ("byte concatenation order is kept",
     "def f(s1, s2):\n    return h(s1 + s2)",
     "def f(s1, s2):\n    return h(s2 + s1)"),
    ("dropped guard",
     "def f(s, n):\n    if len(s) > n:\n        raise ValueError()\n    return s",
     "def f(s, n):\n    return s"),
    ("different constant",
     "def f(v):\n    return v & 0x1F",
     "def f(v):\n    return v & 0x0F"),
    ("condition moved into a branch",
     "def f(v, n, s):\n    if s > 0:\n        v >>= s\n    if v >= n:\n        v -= n\n    return v",
     "def f(v, n, s):\n    if s > 0:\n        v >>= s\n        if v >= n:\n            v -= n\n    return v"),
]


def summary(src):
    node = ast.parse(textwrap.dedent(src)).body[0]
    return sym.summarize(node, sym.Canon(None, INTS))


def main():
    bad = 0
    for name, a, b in SAME:
        st, det = sym.compare_summaries(summary(a), summary(b))
        if st != "same":
            bad += 1
            print("FAIL (should be the same): %s -> %s" % (name, st))
            for d in det[:3]:
                print("     ", d[0], "|", (d[2] or "")[:110], "|", (d[3] or "")[:110])
    for name, a, b in DIFFERENT:
        st, det = sym.compare_summaries(summary(a), summary(b))
        if st == "same":
            bad += 1
            print("FAIL (should differ): %s" % name)
    print("symtest: %d pairs, %d failures" % (len(SAME) + len(DIFFERENT), bad))
    return 1 if bad else 0


if __name__ == "__main__":
    sys.exit(main())
