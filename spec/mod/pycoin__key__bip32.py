"""Transcription of every function of pycoin/key/bip32.py as of the reviewed tree (see DESIGN.md section 12).
NEVER IMPORTED OR EXECUTED: parsed and compared in canonical form (sa/sym.py) with the functions in /repo."""


_CONSTS = {
    '_SUBKEY_VALIDATION_LOG_ERR_FMT': 'BUY A LOTTO TICKET RIGHT NOW! (And consider giving up your wallet to\nscience!)\n\nYou have stumbled across an astronomically unlikely scenario. Your HD\nwallet contains an invalid subkey. Having access to this information would\nbe incredibly valuable to the Bitcoin development community.\n\nIf you are inclined to help, please make sure to back up this wallet (or\nany outputted information) onto a USB drive and e-mail "Richard Kiss"\n<him@richardkiss.com> or "Matt Bogosian" <matt@bogosian.net> for\ninstructions on how best to donate it without losing your bitcoins.\n\nWARNING: DO NOT SEND ANY WALLET INFORMATION UNLESS YOU WANT TO LOSE ALL\nTHE BITCOINS IT CONTAINS.',
}


# pycoin/key/bip32.py :: subkey_secret_exponent_chain_code_pair
def q__subkey_secret_exponent_chain_code_pair(generator, secret_exponent, chain_code_bytes, i, is_hardened, public_pair=None):
    ORDER = generator.order()
    i_as_bytes = struct.pack('>L', i)
    if is_hardened:
        data = b'\x00' + to_bytes_32(secret_exponent) + i_as_bytes
    else:
        if public_pair is None:
            public_pair = secret_exponent * generator
        sec = public_pair_to_sec(public_pair, compressed=True)
        data = sec + i_as_bytes
    while True:
        I64 = hmac.HMAC(key=chain_code_bytes, msg=data, digestmod=hashlib.sha512).digest()
        I_left = from_bytes_32(I64[:32])
        new_secret_exponent = (I_left + secret_exponent) % ORDER
        if I_left < ORDER and new_secret_exponent != 0:
            break
        data = b'\x01' + I64[32:] + i_as_bytes
    new_chain_code = I64[32:]
    return (new_secret_exponent, new_chain_code)


# pycoin/key/bip32.py :: subkey_public_pair_chain_code_pair
def q__subkey_public_pair_chain_code_pair(generator, public_pair, chain_code_bytes, i):
    INFINITY = generator.infinity()
    ORDER = generator.order()
    i_as_bytes = struct.pack('>l', i)
    sec = public_pair_to_sec(public_pair, compressed=True)
    data = sec + i_as_bytes
    I64 = hmac.HMAC(key=chain_code_bytes, msg=data, digestmod=hashlib.sha512).digest()
    I_left_as_exponent = from_bytes_32(I64[:32]) % ORDER
    the_point = I_left_as_exponent * generator + generator.Point(*public_pair)
    if the_point == INFINITY:
        logger.critical(_SUBKEY_VALIDATION_LOG_ERR_FMT)
        raise DerivationError()
    new_chain_code = I64[32:]
    return (the_point, new_chain_code)
