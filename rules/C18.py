"""C18 - text parsing: structural obligations (DESIGN.md section 4, C18)."""
from __future__ import annotations

import ast

from sa.core import Ob
from sa.ex import attributed
from sa.pm import AnalysisError, norm, body_nodes
from sa import gi, df, ru, sym
from sa.pm import Undecided
from sa.ex import EX
from rules import netbind

PARSE = "pycoin/networks/ParseAPI.py"
PSTR = "pycoin/networks/parseable_str.py"
GRSP = "pycoin/coins/groestlcoin/parse.py"

# (entry point or "*", exception, raising function) -> why the pair cannot happen on that path.  Path-insensitive
# over-approximations of the escape analysis, each confirmed by reading; anything not listed is a violation.
INFEASIBLE = {
    ("*", "AssertionError", "pycoin.ecdsa.Curve.Curve.contains_point"): "Key.__init__ evaluates `None in pair` first (short-circuit or); all callers pass integer pairs",
    ("*", "AssertionError", "pycoin.encoding.sec.sec_to_public_pair"): "the generator argument is the per-network class attribute, never None",
    # keyed by the CALLER as well (caller>raiser): the reason holds for that call site only
    ("*", "OverflowError", "pycoin.key.BIP32Node.BIP32Node.__init__>pycoin.encoding.bytes32.to_bytes_32"): "the secret exponent was validated to be < order < 2^256 by Key.__init__ just before",
    ("*", "TypeError", "pycoin.key.BIP32Node.BIP32Node.__init__"): "the chain code handed over by deserialize / from_master_secret is a bytes slice",
    ("*", "struct.error", "pycoin.key.BIP32Node.BIP32Node.deserialize"): "hparse only calls deserialize with exactly 78 bytes (guard checked by C18.3)",
    ("*", "TypeError", "pycoin.key.BIP32Node.BIP32Node.deserialize"): "hparse only calls deserialize with exactly 78 bytes (guard checked by C18.3)",
    ("*", "binascii.Error", "pycoin.vm.ScriptTools.ScriptTools.compile"): "reached only with the constant templates of ContractAPI (for_info / match); user text goes through ParseAPI.script, which catches Exception",
    ("*", "binascii.Error", "pycoin.vm.ScriptTools.ScriptTools.compile_expression"): "template arguments are produced by b2h (valid hex)",
    ("*", "SyntaxError", "pycoin.vm.ScriptTools.ScriptTools.compile_expression"): "template arguments are produced by b2h (valid hex)",
    ("*", "UnicodeDecodeError", "pycoin.encoding.hexbytes.b2h"): "hexlify output is ASCII",
    ("public_pair", "ValueError", "pycoin.key.Key.Key.__init__"): "Key(1) / Key(public_pair=point) pass exactly one argument",
    ("public_pair", "InvalidSecretExponentError", "pycoin.key.Key.Key.__init__"): "the only secret exponent constructed here is the literal 1",
    ("public_pair", "InvalidPublicPairError", "pycoin.key.Key.Key.__init__"): "the point comes from points_for_x or was validated by contains_point",
    ("public_pair", "NoSuchPointError", "pycoin.ecdsa.Point.Point.check_on_curve"): "generator.Point(v0, v1) is guarded by generator.contains_point(v0, v1)",
    ("public_pair", "ValueError", "pycoin.networks.bitcoinish.create_bitcoinish_network.keys_public"): "is_compressed is not passed",
    ("public_pair", "EncodingError", "pycoin.encoding.sec.sec_to_public_pair"): "keys_public is called with a point (tuple), not a SEC blob",
    ("public_pair", "ValueError", "pycoin.ecdsa.Generator.Generator.points_for_x"): "only reachable through the SEC branch of keys_public, which a tuple argument does not take",
}
for _e in ("public_key", "__call__", "secret", "private_key"):
    pass


def _engine(ctx):
    if "ex" not in ctx.cache:
        ctx.cache["ex"] = EX(ctx.p, extra_resolve=netbind.make_resolver(ctx))
    return ctx.cache["ex"]


def entry_points(ctx):
    c = ctx.p.cls(PARSE, "ParseAPI")
    out = [m for name, m in sorted(c.methods.items()) if (not name.startswith("_") or name == "__call__") and name != "__init__"]
    g = ctx.p.cls(GRSP, "GRSParseAPI")
    out += [m for name, m in sorted(g.methods.items())]
    return out


# ------------------------------------------------------------------ C18.1
def c18_1(ctx):
    ex = _engine(ctx)
    eps = entry_points(ctx)
    if len(eps) < 36:
        raise AnalysisError("only %d parse entry points found" % len(eps))
    # composite entry points inherit the per-kind parsers' table entries
    for m in eps:
        escs = ex.escapes(m)
        remaining = []
        for e in escs:
            owner = attributed(ctx.p, e)        # code moved into a new helper keeps the disposition of the function it came from
            why = INFEASIBLE.get((m.name, e.exc, owner)) or INFEASIBLE.get(("*", e.exc, owner))
            if why is None and len(e.via) >= 2:
                site = "%s>%s" % (e.via[-2], owner)
                why = INFEASIBLE.get((m.name, e.exc, site)) or INFEASIBLE.get(("*", e.exc, site))
            if why is None and m.name in ("public_key", "secret", "__call__", "private_key", "hierarchical_key", "payable", "address"):
                # dispatchers call the per-kind parsers: accept what is tabulated for any of them
                why = next((w for (ent, exc, fn), w in INFEASIBLE.items() if exc == e.exc and fn == owner), None)
            if why is None:
                remaining.append(e)
        for e in remaining:
            ctx.bad("escape:%s:%s:%s" % (m.name, e.exc, e.func.split(".")[-1]), e.where,
                    "%s.%s can raise %s (from %s: `%s`, reached via %s): text parsing must return an object or None, never raise"
                    % (m.cls.name, m.name, e.exc, e.func.split(".", 1)[-1], e.what[:70], " -> ".join(v.split(".")[-1] for v in e.via[:6]) or "itself"),
                    sample={"entry": m.name, "exception": e.exc, "raised_in": e.func, "construct": e.what[:80]})
        ctx.ok("entry:%s.%s" % (m.cls.name, m.name), sample={"entry": m.qualname, "raw_escapes": len(escs), "tabulated_infeasible": len(escs) - len(remaining)} if m.name in ("wif", "bip32_prv", "public_pair") else None)
    ctx.note("unresolved calls: %s" % sorted(ex.unresolved.items())[:8])


def cache_calls(ctx):
    """(module, call node, key expr, cached function expr) for every <parseable_str>.cache(key, f) call in the repo"""
    out = []
    for m in ctx.p.modules.values():
        if ".cache(" not in m.source and "_cached" not in m.source:
            continue
        hit = False
        # as each function performs them (helpers added since the review spliced in, locals substituted): a call routed
        # through a new wrapper `_cached_parse(s, "b58", f)` is the same `.cache("b58", f)` call
        for q, fi in sorted(ctx.p.functions.items()):
            if fi.module is not m or isinstance(fi.node, ast.Lambda) or fi.parent is not None:
                continue
            src = ast.get_source_segment(m.source, fi.node) or ""
            if ".cache(" not in src and "_cached" not in src:
                continue
            try:
                w = sym.walk(ctx, fi)
            except Exception:
                continue
            for e in w.effects:
                c = getattr(e, "call", None)
                if e.kind == "call" and isinstance(c.func, ast.Attribute) and c.func.attr == "cache" and len(c.args) == 2 and not [k for k in c.keywords if k.arg != "__n"]:
                    out.append((m, e.node if e.node is not None else fi.node, c.args[0], e.raw.args[1] if isinstance(e.raw.func, ast.Attribute) and e.raw.func.attr == "cache" and len(e.raw.args) == 2 else c.args[1]))
                    hit = True
        if not hit:
            for n in ast.walk(m.tree):
                if isinstance(n, ast.Call) and isinstance(n.func, ast.Attribute) and n.func.attr == "cache" and len(n.args) == 2 and not n.keywords:
                    out.append((m, n, n.args[0], n.args[1]))
    return out


# ------------------------------------------------------------------ C18.2
def c18_2(ctx):
    f = ctx.func(PSTR, "parseable_str.cache")
    keyp, fp = f.params()[1:3]
    w = sym.walk(ctx, f)
    calls = [e for e in w.effects if e.kind == "call" and norm(e.raw.func) == fp]
    if not calls:
        raise Undecided("parseable_str.cache does not call its decoder argument directly")
    for e in calls:
        names = set()
        for t in sym.enclosing_tries(f.node, e.node):
            names |= sym.handler_names(t)
        ctx.check(bool(names & {"Exception", "BaseException"}), "cache-swallows-every-exception", ctx.where(f, e.node),
                  "parseable_str.cache converts only %s to `not parseable`; the decoders it wraps (base58, bech32 ...) fail with IndexError / KeyError / TypeError on malformed text, so anything narrower than Exception lets parsing raise" % sorted(names),
                  sample={"handlers": sorted(names)})
        # ... and no handler in front of the catch-all hands a kind of exception back (`except TypeError: raise`): a decoder that
        # fails with that kind on some text (bytes(None), an index on a short payload) then makes parsing raise
        for t in sym.enclosing_tries(f.node, e.node):
            for h in t.handlers:
                hn = {norm(x) for x in (h.type.elts if isinstance(h.type, ast.Tuple) else [h.type])} if h.type is not None else {"BaseException"}
                reraises = any(isinstance(x, ast.Raise) for b_ in h.body for x in ast.walk(b_))
                if reraises:
                    ctx.bad("cache-swallows-every-exception:reraised", ctx.where(f, h), "parseable_str.cache hands %s back to the caller (a handler in front of the catch-all re-raises): the decoders it wraps fail with these on malformed text "
                            "(bytes(None), unpacking, indexing), so text parsing raises instead of answering None" % sorted(hn), sample={"reraised": sorted(hn)})
                if hn & {"Exception", "BaseException"}:
                    break
        pre = [x for x in w.effects if x.kind == "setitem" and norm(x.target) == "self._cache" and norm(x.key) == keyp and isinstance(x.value, ast.Constant) and x.value.value is None]
        ok = bool(pre) and w.effects.index(pre[0]) < w.effects.index(e) and sym.entails(e.reach, pre[0].reach)
        ctx.check(ok, "cache-none-first", ctx.where(f), "parseable_str.cache does not record None before running the decoder")
    # only parseable_str itself fills its cache: the string object (and with it the cache) is shared between networks, so an entry
    # written from outside -- a parsed Contract, a key object: the answer of ONE network -- is found by every other network
    n_sites = 0
    for m_ in ctx.p.modules.values():
        if "._cache" not in m_.source:
            continue
        for q_, g_ in ctx.p.functions.items():
            if g_.module is not m_ or isinstance(g_.node, ast.Lambda):
                continue
            own = g_.cls is not None and g_.cls.name == "parseable_str"
            for n_ in ast.walk(g_.node):
                recv = None
                if isinstance(n_, ast.Subscript) and isinstance(n_.ctx, (ast.Store, ast.Del)) and isinstance(n_.value, ast.Attribute) and n_.value.attr == "_cache":
                    recv = n_.value.value
                elif isinstance(n_, ast.Call) and isinstance(n_.func, ast.Attribute) and n_.func.attr in ("setdefault", "update", "pop", "clear", "__setitem__") and isinstance(n_.func.value, ast.Attribute) and n_.func.value.attr == "_cache":
                    recv = n_.func.value.value
                if recv is None:
                    continue
                n_sites += 1
                if own and norm(recv) == "self":
                    continue
                if g_.cls is not None and norm(recv) == "self" and g_.cls.name != "parseable_str":
                    continue            # another class's own _cache attribute
                ctx.bad("cache-written-from-outside:%s" % q_.split(".", 2)[-1], "%s:%d" % (m_.relpath, n_.lineno),
                        "%s writes `%s` into the cache of a parseable_str: the object is shared between networks (and its cache with it), so what one network's parser stores there every other network's parser finds" % (q_, norm(n_)[:60]))
    ctx.ok("cache-owner", sample={"rule": "only parseable_str methods write parseable_str._cache", "write_sites_seen": n_sites}, nontrivial=False)
    # cache keys identify the decoding function uniquely (one string object is shared between networks)
    keys = {}
    param_keyed = 0
    for m, n, key, fn in cache_calls(ctx):
        # a key that is a PARAMETER of the function around the call (parse_b58_hashed(s, hash_f, cache_key)): each caller that
        # passes a literal for it names one decoder -- the one its other arguments select
        holder = None
        if isinstance(key, ast.Name):
            for q_, g_ in ctx.p.functions.items():
                if g_.module is m and isinstance(g_.node, (ast.FunctionDef, ast.AsyncFunctionDef)) and g_.parent is None and key.id in g_.params() and any(x is n for x in ast.walk(g_.node)):
                    holder = g_
        if holder is not None:
            idx = holder.params().index(key.id)
            found = 0
            for m2 in ctx.p.modules.values():
                for c in ast.walk(m2.tree):
                    if isinstance(c, ast.Call) and isinstance(c.func, (ast.Name, ast.Attribute)) and (c.func.id if isinstance(c.func, ast.Name) else c.func.attr) == holder.name:
                        bound = dict(zip(holder.params(), c.args))
                        bound.update({k.arg: k.value for k in c.keywords if k.arg})
                        kv = bound.get(key.id)
                        if isinstance(kv, ast.Constant) and isinstance(kv.value, str):
                            others = tuple(norm(v_) for p_, v_ in sorted(bound.items()) if p_ != key.id and p_ != holder.params()[0])
                            ident = "%s%s" % (holder.name, list(others))
                            if isinstance(fn, ast.Name) and fn.id in bound:
                                # the decoder itself is handed through (a plain wrapper of .cache): it is named as at a direct call
                                a_ = bound[fn.id]
                                ident = norm(a_) if not isinstance(a_, ast.Lambda) else "lambda@%s" % m2.name
                            keys.setdefault(kv.value, set()).add((ident, "%s:%d" % (m2.relpath, c.lineno)))
                            found += 1
            param_keyed += 1
            if found:
                continue
        if isinstance(key, ast.Constant) and isinstance(key.value, str) and isinstance(fn, (ast.Lambda, ast.Call)):
            # one LITERAL key for a decoder that is chosen by a parameter of the function around the call (lambda _: b58_hashed(_,
            # hash_f) under the key "b58_hashed"): the string object is shared between networks, so the verdict computed with one
            # network's hash function is found under the same key by a network that uses another
            encl = None
            for q_, g_ in ctx.p.functions.items():
                if g_.module is m and isinstance(g_.node, (ast.FunctionDef, ast.AsyncFunctionDef)) and g_.parent is None and any(x is n for x in ast.walk(g_.node)):
                    encl = g_
            if encl is not None:
                own = set()
                if isinstance(fn, ast.Lambda):
                    own = {a.arg for a in fn.args.args}
                free = sorted({x.id for x in ast.walk(fn) if isinstance(x, ast.Name) and x.id in encl.params()[1:] and x.id not in own})
                if free:
                    ctx.bad("cache-key-names-the-decoder:%s" % key.value, "%s:%d" % (m.relpath, n.lineno),
                            "%s caches under the one literal key %r a decoder that depends on its parameter `%s`: the parseable_str (and its cache) is shared between networks, so what was decided with one value of `%s` (one network's checksum function) "
                            "is served to a caller that passes another" % (encl.qualname.split(".", 1)[-1], key.value, free[0], free[0]), sample={"key": key.value, "decoder_depends_on": free})
        if isinstance(key, ast.Constant) and isinstance(key.value, str):
            keys.setdefault(key.value, set()).add((norm(fn) if not isinstance(fn, ast.Lambda) else "lambda@%s" % m.name, "%s:%d" % (m.relpath, n.lineno)))
        elif m.relpath.startswith("pycoin/networks/") or m.relpath.startswith("pycoin/coins/"):
            dep = isinstance(fn, ast.Lambda) and any(isinstance(x, ast.Name) and x.id == "self" for x in ast.walk(fn.body))
            ctx.check(not dep, "cache-network-independent:%s" % norm(key)[:30], "%s:%d" % (m.relpath, n.lineno),
                      "`%s` is cached on the parseable_str object, which is shared between networks, but the cached function reads network state (self.*): the verdict of one network is returned for another" % norm(key)[:60])
    for k, fs in sorted(keys.items()):
        names = {a for a, b in fs}
        ctx.check(len(names) == 1, "cache-key-unique:%s" % k, sorted(fs)[0][1],
                  "cache key %r is used for different decoders %s: a string parsed on one network poisons the result on another (the parseable_str object is shared)" % (k, sorted(names)),
                  sample={"key": k, "decoders": sorted(names)})
    if len(keys) >= 5:
        ctx.ok("cache-keys-found", sample={"keys": len(keys)})
    else:
        ctx.undecided("cache-keys-found", PSTR + ":1", "only %d literal cache keys found (%d call(s) take the key from a parameter): the keys this rule cannot read are not judged" % (len(keys), param_keyed))


# ------------------------------------------------------------------ C18.3
def c18_3(ctx):
    h = ctx.func(PARSE, "hparse")
    api, pub_prv, key_type, s_ = h.params()[:4]
    D = "%s.parse_b58_hashed(%s)" % (api, s_)
    w = sym.int_walk(ctx, h, {"len(%s)" % D})
    des = [e for e in w.effects if e.kind == "call" and isinstance(e.call.func, ast.Call) and norm(e.call.func.func) == "getattr" and norm(e.call.func.args[0]) == "%s._network.keys" % api]
    if not des:
        raise Undecided("hparse: the deserializer is not looked up with getattr(api._network.keys, ...) and called directly")
    for e in des:
        s = sym.may_set(e.reach, gi.IntSet.all(), gi.IntSet.empty())
        ctx.check(s == gi.iv(78, 78), "extended-key-length", ctx.where(h, e.node), "hparse hands payloads of length %s to the deserializer; a BIP32 extended key is exactly 78 bytes" % s.fmt(), sample={"subject": "len(data)", "accepted": s.fmt()})
        names = set()
        for t in sym.enclosing_tries(h.node, e.node):
            names |= sym.handler_names(t)
        ctx.check(bool(names & {"ValueError", "Exception", "BaseException"}), "extended-key-errors", ctx.where(h, e.node), "hparse lets the deserializer's ValueError family (bad exponent, no curve point, bad SEC) escape")
        name_expr = norm(e.call.func.args[1]) if len(e.call.func.args) > 1 else ""
        ops = gi.f_opaques(e.reach) if e.reach not in (True, False) else []
        pre = [o for o in ops if o.startswith("truthy(%s.startswith(getattr(%s, " % (D, api))]
        if not pre or key_type not in name_expr:
            raise Undecided("hparse: prefix attribute / deserializer name are not both derived from key_type in a recognisable way")
        attr_expr = pre[0][len("truthy(%s.startswith(getattr(%s, " % (D, api)):]
        if not (name_expr in ("'%%s_deserialize' %% %s" % key_type, "%s + '_deserialize'" % key_type)) and ("(" in name_expr or "[" in name_expr):
            raise Undecided("hparse takes the deserializer name from `%s` (a table or a helper); this rule reads names formatted from key_type only" % name_expr[:60])
        ctx.check(sym.entails(e.reach, ("op", pre[0])) and key_type in attr_expr and pub_prv in attr_expr and name_expr in ("'%%s_deserialize' %% %s" % key_type, "%s + '_deserialize'" % key_type),
                  "extended-key-prefix", ctx.where(h, e.node), "hparse does not select the prefix attribute (`%s`) and the deserializer (`%s`) of the same key type" % (attr_expr[:50], name_expr[:50]))
    # a length test on the TEXT must let every text form of an extended key through: 82 bytes (78 + checksum) are 111 base58
    # characters for the small version bytes of xprv/xpub/tprv and 112 for large ones (the DRKV / DRKP families)
    wt = sym.int_walk(ctx, h, {"len(%s)" % s_})
    des_t = [e for e in wt.effects if e.kind == "call" and isinstance(e.call.func, ast.Call) and norm(e.call.func.func) == "getattr" and norm(e.call.func.args[0]) == "%s._network.keys" % api]
    for e in des_t:
        st = sym.may_set(e.reach, gi.IntSet.all(), gi.IntSet.empty())
        ctx.check(gi.iv(111, 112).issubset(st), "text-length-free", ctx.where(h, e.node), "hparse reaches the deserializer only for texts of length %s: an extended key is 111 or 112 base58 characters depending on its version bytes" % st.fmt(),
                  sample={"subject": "len(%s)" % s_, "accepted": st.fmt()})
    from rules import C10, C08
    C10.c10_3(ctx)
    C08.c08_2(ctx)


# ------------------------------------------------------------------ C18.4
def c18_4(ctx):
    f = ctx.func(PARSE, "ParseAPI.sec")
    s_ = f.params()[1]
    w = sym.walk(ctx, f)
    PAIR = "parse_colon_prefix(%s)" % s_
    uses = [e for e in sym.calls_matching(w, lambda t: t == "h2b") if e.call.args and norm(e.call.args[0]) == "%s[1]" % PAIR]
    if not uses:
        raise Undecided("ParseAPI.sec: the text after the colon prefix is not passed to h2b directly")
    for e in uses:
        ops = gi.f_opaques(e.reach) if e.reach not in (True, False) else []
        eq = [o for o in ops if "self._sec_prefix" in o and "%s[0]" % PAIR in o and " == " in o]
        ok = bool(eq) and sym.entails(e.reach, ("op", eq[0])) and not any("_wif_prefix" in o for o in ops)
        ctx.check(ok, "sec-prefix", ctx.where(f, e.node), "ParseAPI.sec strips the colon prefix under `%s`; the text form written by Key.sec_as_hex carries the network's SEC prefix (self._sec_prefix), which must be what is compared"
                  % [o for o in ops if PAIR in o], sample={"comparison": eq or ops})
    b = ctx.func("pycoin/networks/bitcoinish.py", "create_bitcoinish_network")
    wb = sym.walk(ctx, b)
    dfl = [e for e in sym.calls_matching(wb, ".setdefault") if e.call.args and isinstance(e.call.args[0], ast.Constant) and e.call.args[0].value == "sec_prefix"]
    if not dfl:
        raise Undecided("create_bitcoinish_network: no setdefault('sec_prefix', ...)")
    t = norm(dfl[0].call.args[1]) if len(dfl[0].call.args) > 1 else ""
    ctx.check(t in ("'%sSEC:' % symbol.upper()", "symbol.upper() + 'SEC:'"), "sec-default", ctx.where(b, dfl[0].node), "the default SEC text prefix is `%s`, not `<SYMBOL>SEC:`" % t)
    inner = ctx.func("pycoin/networks/bitcoinish.py", "create_bitcoinish_network.sec_text_for_blob")
    wi = sym.walk(ctx, inner)
    rets = [e for e in wi.exits if e.kind == "return" and e.value is not None]
    ok = False
    if len(rets) == 1 and isinstance(rets[0].value, ast.BinOp) and isinstance(rets[0].value.op, ast.Add) and isinstance(rets[0].value.left, ast.Name):
        src = df.single_defs(b.node).get(rets[0].value.left.id)
        ok = src is not None and "get('sec_prefix')" in norm(src) and norm(rets[0].value.right) == "b2h(%s)" % inner.params()[0]
    ctx.check(ok, "sec-writer", ctx.where(inner), "sec_text_for_blob is not the configured sec_prefix + hex")
    none = lambda t: False
    sym.against_reference(ctx, ctx.func("pycoin/key/Key.py", "Key.as_text"), _ref(), "key_as_text", "key-as-text", none)
    sym.against_reference(ctx, ctx.func("pycoin/key/Key.py", "Key.sec_as_hex"), _ref(), "key_sec_as_hex", "key-sec-as-hex", none)
    for rel, cls, fn in (("pycoin/key/BIP32Node.py", "BIP32Node", "bip32_hwif"), ("pycoin/key/BIP49Node.py", "BIP49Node", "bip49_hwif"), ("pycoin/key/BIP84Node.py", "BIP84Node", "bip84_hwif")):
        sym.against_reference(ctx, ctx.func(rel, cls + ".hwif"), _ref(), fn, "hwif:%s" % cls, none)


_REF = None


def _ref():
    global _REF
    if _REF is None:
        import os
        _REF = ast.parse(open(os.path.join(os.path.dirname(os.path.dirname(os.path.abspath(__file__))), "spec", "ref_text.py")).read())
    return _REF


# ------------------------------------------------------------------ C18.5
def c18_5(ctx):
    nb = netbind.build(ctx)
    decl = nb["declared"]
    keys_decl = decl.get("NetworkKeys", set())
    net_decl = decl.get("Network", set())
    n = 0
    for rel in ("pycoin/networks/ParseAPI.py", "pycoin/key/Key.py", "pycoin/key/BIP32Node.py", "pycoin/key/BIP49Node.py", "pycoin/key/BIP84Node.py", "pycoin/key/electrum.py",
                "pycoin/networks/ContractAPI.py", "pycoin/networks/Contract.py", "pycoin/contrib/msg_signing.py", "pycoin/coins/tx_utils.py"):
        m = ctx.p.module(rel)
        for node in ast.walk(m.tree):
            if isinstance(node, ast.Attribute):
                t = df.dotted(node) or ""
                parts = [p_[:-2] if p_.endswith("()") else p_ for p_ in t.split(".")]      # x.keys.private(1)._generator reads keys.private
                for base in ("_network", "network", "override_network"):
                    if base in parts:
                        i = parts.index(base)
                        rest = parts[i + 1:]
                        if not rest or (i > 0 and parts[i - 1] not in ("self", "api")) and base == "_network":
                            continue
                        if base != "_network" and not (i == 0):
                            continue
                        first = rest[0]
                        n += 1
                        ok = first in net_decl
                        if ok and first == "keys" and len(rest) > 1:
                            ok = rest[1] in keys_decl and rest[1] in nb["keys_fields"]
                        ctx.check(ok, "binding:%s" % ".".join(rest[:2]), "%s:%d" % (rel, node.lineno),
                                  "%s uses network.%s, which create_bitcoinish_network never provides (AttributeError at run time)" % (rel, ".".join(rest[:2])), what="binding:%s:%s" % (rel, ".".join(rest[:2])),
                                  sample={"path": ".".join(rest[:2])} if n < 3 else None)
                        break
    ctx.note("attribute paths checked: %d" % n)


# ------------------------------------------------------------------ C18.6
def c18_6(ctx):
    """what a parser returns re-serialises to text of its own kind: the wallet writes the E: form its parsers read;
    a public pair is accepted only with coordinates that are field elements (shared with C02.7)"""
    EL = "pycoin/key/electrum.py"
    c = ctx.p.cls(EL, "ElectrumWallet")
    m = c.methods.get("as_text")
    if m is None:
        ctx.bad("electrum-text-form", "%s:%d" % (EL, c.node.lineno), "ElectrumWallet inherits Key.as_text (a WIF / SEC text): parse.electrum_*(t).as_text() parses back to a plain key, not to the wallet")
    else:
        f = ctx.func(EL, "ElectrumWallet.as_text")
        w = sym.walk(ctx, f)
        rets = [e for e in w.exits if e.kind in ("return", "fall")]
        for e in rets:
            t = norm(e.value) if e.value is not None else "None"
            ctx.check(t.startswith("'E:' + ") or t.startswith('"E:" + '), "electrum-text-form", ctx.where(f, e.node), "ElectrumWallet.as_text returns `%s`; the electrum parsers read `E:<hex>`" % t[:80], sample={"returns": t[:80]})
        blob = ctx.func(PARSE, "ParseAPI._electrum_to_blob")
        wb = sym.walk(ctx, blob)
        reads_e = any("'E'" in str(o) or "'E:'" in str(o) for e in wb.exits for o in (gi.f_opaques(e.cond) if e.cond not in (True, False) else []))
        if not reads_e and any("'E'" in norm(n) or "'E:'" in norm(n) for g_ in ctx.p.functions.values() if g_.module is blob.module for n in ast.walk(g_.node) if isinstance(n, ast.Compare)):
            ctx.undecided("electrum-prefix-read", ctx.where(blob), "ParseAPI._electrum_to_blob does not test for the E: prefix itself; another function of the module does (the test moved): not read here")
        else:
            ctx.check(reads_e, "electrum-prefix-read", ctx.where(blob), "ParseAPI._electrum_to_blob no longer tests for the E: prefix the wallet writes")
    # hierarchical keys: the text form of a node that holds a secret has to carry it, or it parses back to another object
    for rel, cname in (("pycoin/key/BIP32Node.py", "BIP32Node"), ("pycoin/key/BIP49Node.py", "BIP49Node"), ("pycoin/key/BIP84Node.py", "BIP84Node")):
        c = ctx.p.cls(rel, cname)
        at = c.attrs.get("as_text")
        target = None
        if isinstance(at, ast.Name) and at.id in c.methods:
            target = c.methods[at.id]               # as_text = hwif
        elif "as_text" in c.methods:
            target = c.methods["as_text"]
        if target is None:
            inherited = ctx.p.lookup_method(c, "as_text")
            if inherited is None and ctx.p.lookup_class_attr(c, "as_text")[1] is None:
                raise Undecided("%s has no as_text" % cname)
            ctx.ok("hd-text-form-inherited:%s" % cname)
            continue
        a = target.node.args
        pos = a.posonlyargs + a.args
        dflt = dict(zip([x.arg for x in pos[len(pos) - len(a.defaults):]], a.defaults))
        d = dflt.get("as_private")
        public_by_default = isinstance(d, ast.Constant) and d.value is False
        w = sym.walk(ctx, target)
        private_aware = any("is_private" in str(o) or "secret_exponent" in str(o) for e in w.exits for o in (gi.f_opaques(e.cond) if e.cond not in (True, False) else []))
        ctx.check(not public_by_default or private_aware, "hd-private-text-form:%s" % cname, "%s:%d" % (rel, target.node.lineno),
                  "%s.as_text() of a node holding a secret is the PUBLIC text (as_text is %s with as_private=False): parse(t).as_text() parses back to a public-only node, not to an equal object" % (cname, target.name),
                  sample={"class": cname, "as_text": target.name})
    # a key's text is written in the key's OWN compression form: the writers called by Key.as_text take no constant override
    # (text of an uncompressed key that says `compressed` parses back to a key with another SEC, hash160 and address)
    kt = ctx.func("pycoin/key/Key.py", "Key.as_text")
    n_calls = 0
    for cnode in ast.walk(sym.expanded(ctx, kt)):
        if isinstance(cnode, ast.Call) and isinstance(cnode.func, ast.Attribute) and cnode.func.attr in ("wif", "sec_as_hex", "sec", "address", "hash160"):
            n_calls += 1
            forced = [k for k in cnode.keywords if k.arg in ("is_compressed", "use_uncompressed") and isinstance(k.value, ast.Constant) and k.value.value is not None] + \
                     [a for a in cnode.args[:1] if isinstance(a, ast.Constant) and isinstance(a.value, bool)]
            ctx.check(not forced, "key-text-own-compression", ctx.where(kt, cnode), "Key.as_text calls `%s`: the compression form is fixed, so the text of a key in the other form parses back to a different key (other SEC, hash160, address)"
                      % norm(cnode)[:70], sample={"writer_call": norm(cnode)[:60]})
    if n_calls == 0:
        ctx.undecided("key-text-own-compression", ctx.where(kt), "Key.as_text calls none of wif / sec_as_hex / address")
    from rules import C02
    C02.c02_7(ctx)


OBLIGATIONS = [
    Ob("C18.1", "exception escape of all parse entry points (ParseAPI + GRSParseAPI) is empty modulo the tabulated infeasible pairs", c18_1, floor=36, engines="EX,PM",
       breaks_if="checksummed WIF with exponent 0 / >= n; short extended key; x without curve point; electrum blobs"),
    Ob("C18.2", "the decode cache swallows every Exception; cache keys identify one decoder", c18_2, floor=7, engines="SYM,TB", breaks_if="bech32 strings with empty data part; one string parsed on BTC then GRS"),
    Ob("C18.3", "payload-length guards keep kinds apart: extended key 78, WIF 32/33, address 20", c18_3, floor=15, engines="SYM,GI", breaks_if="POLIS (WIF prefix == P2SH prefix)"),
    Ob("C18.4", "the prefix an object's text form writes is the one its parser compares with", c18_4, floor=6, engines="SYM"),
    Ob("C18.6", "text forms are read by the parser of their own kind: ElectrumWallet writes E:<hex>; public pairs need field-element coordinates", c18_6, floor=4, engines="SYM,GI", breaks_if="'<p+1>/even'; parse.electrum_seed(t).as_text()"),
    Ob("C18.5", "every network.<ns>.<name> path used by the API classes is provided by create_bitcoinish_network", c18_5, floor=30, engines="PM,TB", breaks_if="parse.hd_seed('P:foo')"),
]
