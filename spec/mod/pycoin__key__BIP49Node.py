"""Transcription of every function of pycoin/key/BIP49Node.py as of the reviewed tree (see DESIGN.md section 12).
NEVER IMPORTED OR EXECUTED: parsed and compared in canonical form (sa/sym.py) with the functions in /repo."""


_CONSTS = {

}


# pycoin/key/BIP49Node.py :: BIP49Node.address
def q__BIP49Node__address(self, is_compressed=True):
    pk_hash = self.hash160(is_compressed=is_compressed)
    underlying_script = self._network.contract.for_p2pkh_wit(pk_hash)
    return self._network.address.for_p2s(underlying_script)


# pycoin/key/BIP49Node.py :: BIP49Node.hwif
def q__BIP49Node__hwif(self, as_private=False):
    return self._network.bip49_as_string(self.serialize(as_private=as_private), as_private=as_private)


# pycoin/key/BIP49Node.py :: BIP49Node.ku_output_for_address
def q__BIP49Node__ku_output_for_address(self):
    yield ('address', self.address(), None)
