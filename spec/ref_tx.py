"""Reference transcriptions for C07 (transaction / spendable codecs).  NEVER IMPORTED OR EXECUTED: parsed and compared
in canonical form (sa/sym.py) with the functions in /repo.  Written from the tree after the fix 24ec00c and reviewed
against the transaction wire format (BIP144: version, [marker 00, flag 01], inputs, outputs, [one witness stack per
input: count + var-strings], lock time; txid = dsha256 of the witness-stripped form), the compact-size integer
(< 0xfd: one byte; fd + u16 up to 0xffff; fe + u32 up to 0xffffffff; ff + u64) and pycoin's own Spendable extension."""


# pycoin/coins/bitcoin/Tx.py :: Tx.stream
def tx_stream(self, f, blank_solutions=False, include_unspents=False, include_witness_data=True):
    include_witnesses = include_witness_data and self.has_witness_data()
    stream_struct('L', f, self.version)
    if include_witnesses:
        f.write(b'\x00\x01')
    stream_struct('I', f, len(self.txs_in))
    for t in self.txs_in:
        t.stream(f, blank_solutions=blank_solutions)
    stream_struct('I', f, len(self.txs_out))
    for t in self.txs_out:
        t.stream(f)
    if include_witnesses:
        for tx_in in self.txs_in:
            witness = tx_in.witness
            stream_struct('I', f, len(witness))
            for w in witness:
                stream_satoshi_string(f, w)
    stream_struct('L', f, self.lock_time)
    if include_unspents and (not self.missing_unspents()):
        self.stream_unspents(f)


# pycoin/coins/bitcoin/Tx.py :: Tx.has_witness_data
def tx_has_witness_data(self):
    return any((len(tx_in.witness) > 0 for tx_in in self.txs_in))


# pycoin/coins/bitcoin/Tx.py :: Tx.parse
def tx_parse(class_, f, allow_segwit=None):
    if allow_segwit is None:
        allow_segwit = class_.ALLOW_SEGWIT
    version, = parse_struct('L', f)
    v1 = ord(f.read(1))
    is_segwit = bool(allow_segwit and v1 == 0)
    v2 = None
    if is_segwit:
        flag = f.read(1)
        if flag == b'\x00' or len(flag) == 0:
            raise ValueError()
        v2 = ord(flag)
        is_segwit = v2 & 1
        if is_segwit:
            v1 = v2 = None
    count = parse_satoshi_int(f, v=v1)
    txs_in = []
    for i in range(count):
        txs_in.append(class_.TxIn.parse(f))
    count = parse_satoshi_int(f, v=v2)
    txs_out = []
    for i in range(count):
        txs_out.append(class_.TxOut.parse(f))
    if is_segwit:
        for tx_in in txs_in:
            stack = []
            count = parse_satoshi_int(f)
            for i in range(count):
                stack.append(parse_satoshi_string(f))
            tx_in.witness = stack
    lock_time, = parse_struct('L', f)
    return class_(version, txs_in, txs_out, lock_time)


# pycoin/coins/bitcoin/TxIn.py :: TxIn.stream
def txin_stream(self, f, blank_solutions=False):
    script = b'' if blank_solutions else self.script
    stream_struct('#LSL', f, self.previous_hash, self.previous_index, script, self.sequence)


# pycoin/coins/bitcoin/TxIn.py :: TxIn.parse
def txin_parse(cls, f):
    return cls(*parse_struct('#LSL', f))


# pycoin/coins/bitcoin/TxIn.py :: TxIn.__init__
def txin_init(self, previous_hash, previous_index, script=b'', sequence=4294967295):
    self.previous_hash = previous_hash
    self.previous_index = previous_index
    self.script = script
    self.sequence = sequence
    self.witness = []


# pycoin/coins/bitcoin/TxOut.py :: TxOut.stream
def txout_stream(self, f):
    stream_struct('QS', f, self.coin_value, self.script)


# pycoin/coins/bitcoin/TxOut.py :: TxOut.parse
def txout_parse(cls, f):
    return cls(*parse_struct('QS', f))


# pycoin/coins/bitcoin/TxOut.py :: TxOut.__init__
def txout_init(self, coin_value, script):
    assert isinstance(script, bytes)
    self.coin_value = self.COIN_VALUE_CAST_F(coin_value)
    self.script = script


# pycoin/coins/bitcoin/Tx.py :: Tx.hash
def tx_hash(self, hash_type=None):
    s = io.BytesIO()
    self.stream(s, include_witness_data=False)
    if hash_type is not None:
        stream_struct('L', s, hash_type)
    return double_sha256(s.getvalue())


# pycoin/coins/bitcoin/Tx.py :: Tx.w_hash
def tx_w_hash(self):
    return double_sha256(self.as_bin())


# pycoin/coins/bitcoin/Tx.py :: Tx.w_id
def tx_w_id(self):
    return b2h_rev(self.w_hash())


# pycoin/coins/Tx.py :: Tx.as_bin
def btx_as_bin(self, *args, **kwargs):
    f = io.BytesIO()
    self.stream(f, *args, **kwargs)
    return f.getvalue()


# pycoin/coins/Tx.py :: Tx.id
def btx_id(self):
    return b2h_rev(self.hash())


# pycoin/coins/Tx.py :: Tx.from_bin
def btx_from_bin(class_, blob):
    f = io.BytesIO(blob)
    tx = class_.parse(f)
    try:
        tx.parse_unspents(f)
    except Exception:
        tx.unspents = []
    return tx


# pycoin/coins/Tx.py :: Tx.from_hex
def btx_from_hex(class_, hex_string):
    return class_.from_bin(h2b(hex_string))


# pycoin/coins/Tx.py :: Tx.as_hex
def btx_as_hex(self, *args, **kwargs):
    return b2h(self.as_bin(*args, **kwargs))


# pycoin/coins/Tx.py :: Tx.set_unspents
def btx_set_unspents(self, unspents):
    if len(unspents) != len(self.txs_in):
        raise ValueError()
    self.unspents = unspents


# pycoin/satoshi/satoshi_int.py :: stream_satoshi_int
def si_stream(f, v):
    if v < 253:
        f.write(struct.pack('<B', v))
    elif v <= 65535:
        f.write(b'\xfd' + struct.pack('<H', v))
    elif v <= 4294967295:
        f.write(b'\xfe' + struct.pack('<L', v))
    else:
        f.write(b'\xff' + struct.pack('<Q', v))


# pycoin/satoshi/satoshi_int.py :: parse_satoshi_int
def si_parse(f, v=None):
    if v is None:
        v = ord(f.read(1))
    if v == 253:
        v = struct.unpack('<H', f.read(2))[0]
    elif v == 254:
        v = struct.unpack('<L', f.read(4))[0]
    elif v == 255:
        v = struct.unpack('<Q', f.read(8))[0]
    return v


# pycoin/satoshi/satoshi_string.py :: stream_satoshi_string
def ss_stream(f, v):
    stream_satoshi_int(f, len(v))
    f.write(v)


# pycoin/satoshi/satoshi_string.py :: parse_satoshi_string
def ss_parse(f):
    size = parse_satoshi_int(f)
    return f.read(size)


# pycoin/coins/bitcoin/Spendable.py :: Spendable.stream
def sp_stream(self, f, as_spendable=False):
    super(Spendable, self).stream(f)
    if as_spendable:
        stream_struct('#LIbI', f, self.tx_hash, self.tx_out_index, self.block_index_available, bool(self.does_seem_spent), self.block_index_spent)


# pycoin/coins/bitcoin/Spendable.py :: Spendable.parse
def sp_parse(cls, f):
    return cls(*parse_struct('QS#LIbI', f))


# pycoin/coins/bitcoin/Spendable.py :: Spendable.as_text
def sp_as_text(self):
    return '/'.join([b2h_rev(self.tx_hash), str(self.tx_out_index), b2h(self.script), str(self.coin_value), str(self.block_index_available), '%d' % self.does_seem_spent, str(self.block_index_spent)])


# pycoin/coins/bitcoin/Spendable.py :: Spendable.from_text
def sp_from_text(cls, text):
    parts = (text.split('/') + ['0', '0', '0'])[:7]
    tx_hash_hex, tx_out_index_str, script_hex, coin_value, block_index_available, does_seem_spent, block_index_spent = parts
    tx_hash = h2b_rev(str(tx_hash_hex))
    tx_out_index = int(tx_out_index_str)
    script = h2b(str(script_hex))
    coin_value_int = int(coin_value)
    return cls(coin_value_int, script, tx_hash, tx_out_index, int(block_index_available), bool(int(does_seem_spent)), int(block_index_spent))


# pycoin/coins/bitcoin/Spendable.py :: Spendable.as_dict
def sp_as_dict(self):
    return dict(coin_value=self.coin_value, script_hex=b2h(self.script), tx_hash_hex=b2h_rev(self.tx_hash), tx_out_index=self.tx_out_index, block_index_available=self.block_index_available, does_seem_spent=int(self.does_seem_spent), block_index_spent=self.block_index_spent)


# pycoin/coins/bitcoin/Spendable.py :: Spendable.from_dict
def sp_from_dict(cls, d):
    return cls(d['coin_value'], h2b(d['script_hex']), h2b_rev(d['tx_hash_hex']), d['tx_out_index'], d.get('block_index_available', 0), d.get('does_seem_spent', 0), d.get('block_index_spent', 0))


# pycoin/coins/bitcoin/Spendable.py :: Spendable.tx_in
def sp_tx_in(self, script=b'', sequence=4294967295):
    return self.TxIn(self.tx_hash, self.tx_out_index, script, sequence)


# pycoin/coins/bitcoin/Spendable.py :: Spendable.__init__
def sp_init(self, coin_value, script, tx_hash, tx_out_index, block_index_available=0, does_seem_spent=False, block_index_spent=0):
    super(Spendable, self).__init__(coin_value, script)
    self.tx_hash = tx_hash
    self.tx_out_index = tx_out_index
    self.block_index_available = block_index_available
    self.does_seem_spent = int(does_seem_spent)
    self.block_index_spent = block_index_spent


# pycoin/coins/bitcoin/Tx.py :: Tx.stream_unspents
def tx_stream_unspents(self, f):
    self.check_unspents()
    for tx_out in self.unspents:
        if tx_out is None:
            tx_out = self.TxOut(0, b'')
        tx_out.stream(f)


# pycoin/coins/bitcoin/Tx.py :: Tx.parse_unspents
def tx_parse_unspents(self, f):
    unspents = []
    for i in enumerate(self.txs_in):
        tx_out_or_none = self.TxOut.parse(f)
        if tx_out_or_none.coin_value == 0:
            tx_out_or_none = None
        unspents.append(tx_out_or_none)
    self.set_unspents(unspents)


