"""C05 - signing: structural obligations (DESIGN.md section 4, C05)."""
from __future__ import annotations

import ast

from sa.core import Ob
from sa.pm import AnalysisError, norm, body_nodes
from sa import gi, df, ru
from sa.gi import GuardWalker
from sa.ef import writes_in, Fresh
from sa.cfg import stmt_paths, struct_dominates

SOLVER = "pycoin/coins/bitcoin/Solver.py"
SOME = "pycoin/solve/some_solvers.py"
UTILS = "pycoin/solve/utils.py"
KEYCHAIN = "pycoin/key/Keychain.py"


def _sat(f):
    from rules.C01 import can_be
    return can_be(f, "\0")


# ------------------------------------------------------------------ C05.1
def c05_1(ctx):
    f = ctx.func(SOLVER, "Solver.sign")
    ws = [w for w in writes_in(f) if not w.fresh]
    allowed = ("self.tx.txs_in[tx_in_idx].script = ...",)
    for w in ws:
        ctx.check(w.text in allowed, "sign-write:%s" % w.text, ctx.where(f, w.node),
                  "Solver.sign writes `%s`; signing may change only the unlocking script and the witness of the input being signed" % w.text, what="write:%s" % w.text, sample={"write": w.text})
    sw = [c for c in df.calls_in(f.node) if norm(c.func) == "self.tx.set_witness"]
    ctx.check(len(sw) == 1 and norm(sw[0].args[0]) == "tx_in_idx", "witness-write", ctx.where(f), "the witness is not written through set_witness(tx_in_idx, ...)")
    other_calls = [norm(c.func) for c in df.calls_in(f.node) if norm(c.func).startswith("self.tx.") and norm(c.func) not in ("self.tx.set_witness", "self.tx.check_unspents")]
    ctx.check(not other_calls, "no-other-tx-calls", ctx.where(f), "Solver.sign calls %s on the transaction" % other_calls)
    # the writes happen only after a failed validation of the same input
    loops = [n for n in body_nodes(f.node) if isinstance(n, ast.For) and "tx_in_idx" in norm(n.target)]
    if len(loops) != 1:
        raise AnalysisError("Solver.sign: input loop not found")
    lp = loops[0]
    tries = [st for st in lp.body if isinstance(st, ast.Try)]
    ok = len(tries) >= 2
    if ok:
        t0 = tries[0]
        ok = any("checker.check_solution(tx_context" in norm(s) for s in t0.body) and isinstance(t0.body[-1], ast.Continue) and \
            [norm(h.type) for h in t0.handlers] == ["ScriptError"] and all(isinstance(s, ast.Pass) for s in t0.handlers[0].body)
        wr_stmts = [w.node for w in ws] + sw
        later = tries[1]
        ok = ok and all(any(x is n for x in ast.walk(later)) for n in wr_stmts) and lp.body.index(t0) < lp.body.index(later)
    ctx.check(ok, "valid-inputs-skipped", ctx.where(f, lp), "Solver.sign does not skip inputs whose current solution validates (check_solution; continue) before writing a new one",
              sample={"loop": norm(lp.iter)})
    ctx.check(norm(lp.iter) == "sorted(tx_in_idx_set)", "requested-inputs-only", ctx.where(f, lp), "Solver.sign iterates %s, expected the requested index set" % norm(lp.iter))
    dflt = [n for n in body_nodes(f.node) if isinstance(n, ast.If) and any(isinstance(s, ast.Assign) and norm(s.targets[0]) == "tx_in_idx_set" for s in n.body)]
    ok = len(dflt) == 1 and isinstance(dflt[0].test, ast.Compare) and isinstance(dflt[0].test.ops[0], ast.Is) and norm(dflt[0].test.left) == "tx_in_idx_set" and isinstance(dflt[0].test.comparators[0], ast.Constant) and dflt[0].test.comparators[0].value is None
    ctx.check(ok, "all-inputs-only-by-default", ctx.where(f), "`all inputs` is selected by `%s`; an explicitly empty index set means `sign nothing`, so the test must be `tx_in_idx_set is None`" % [norm(d.test) for d in dflt],
              sample={"test": [norm(d.test) for d in dflt]})
    ctx.check("checker.check_solution(tx_context, flags=None)" in norm(f.node) and "tx_context = checker.tx_context_for_idx(tx_in_idx)" in norm(f.node), "validity-check", ctx.where(f), "the skip test is not the checker's verdict on the current input")
    # determine_constraints works on a fresh context
    dc = ctx.func(SOLVER, "Solver.determine_constraints")
    for w in writes_in(dc):
        if not w.fresh and not w.text.startswith("tx_context.") and not w.text.startswith("constraints."):
            ctx.bad("constraints-write:%s" % w.text, ctx.where(dc, w.node), "determine_constraints writes `%s` (%s)" % (w.text, w.why))
    ctx.check("tx_context = self.solution_checker.tx_context_for_idx(tx_in_idx)" in norm(dc.node), "constraints-context", ctx.where(dc), "determine_constraints does not work on a context created for this call")
    sv = ctx.func(SOLVER, "Solver.solve")
    for w in writes_in(sv):
        if not w.fresh and not w.text.startswith("kwargs["):
            ctx.bad("solve-write:%s" % w.text, ctx.where(sv, w.node), "Solver.solve writes `%s` (%s)" % (w.text, w.why))
    ctx.ok("solve-scanned")


# ------------------------------------------------------------------ C05.2
def c05_2(ctx):
    m = ctx.p.module(SOME)
    enc_sites = 0
    for fi in [f for q, f in ctx.p.functions.items() if q.startswith(m.name + ".")]:
        if isinstance(fi.node, ast.Lambda):
            continue
        encs = [c for c in df.calls_in(fi.node) if df.last_attr(c) == "sigencode_der"]
        if not encs:
            continue
        paths = stmt_paths(fi.node)
        for c in encs:
            enc_sites += 1
            st = _stmt_of(fi.node, c)
            sname = norm(c.args[1]) if len(c.args) == 2 else None
            norms = [n for n in body_nodes(fi.node) if isinstance(n, ast.If) and sname and norm(n.test) in ("%s + %s > order" % (sname, sname), "2 * %s > order" % sname, "%s > order - %s" % (sname, sname), "%s > order // 2" % sname)
                     and any(isinstance(b, ast.Assign) and norm(b) == "%s = order - %s" % (sname, sname) for b in n.body)]
            ok = any(struct_dominates(paths, n, st) for n in norms)
            ctx.check(ok, "low-s-before-encoding:%s" % fi.name, ctx.where(fi, c), "%s encodes a signature without first replacing s by order - s when s > order/2 (high-S signatures are non-standard and malleable)" % fi.name,
                      sample={"function": fi.qualname, "encode": norm(c)})
            od = [d for d in df.assignments(fi.node).get("order", []) if isinstance(d[0], ast.AST)]
            ctx.check(len(od) == 1 and norm(od[0][0]) == "generator.order()" and struct_dominates(paths, od[0][1], st), "low-s-modulus:%s" % fi.name, ctx.where(fi, c), "`order` is not generator.order() at the normalisation")
            pst = _stmt_of(fi.node, c)
            ctx.check("+ bytes([signature_type])" in norm(pst), "hash-type-byte:%s" % fi.name, ctx.where(fi, c), "the signature is not followed by the requested hash-type byte")
    if enc_sites == 0:
        ctx.bad("no-emission-site", SOME + ":1", "no DER signature emission found in the solver")
    f = ctx.p.functions.get(ctx.func(SOME, "signing_solver").qualname + ".f")
    t = norm(f.node)
    ctx.check("r, s = generator.sign(secret_exponent, sig_hash)" in t and "sig_hash = signature_for_hash_type_f(signature_type)" in t, "signs-requested-type", ctx.where(f), "the solver does not sign the digest of the requested hash type")
    ctx.check("existing_signatures.sort()" in t and "existing_signatures.append((signature_order, binary_signature))" in t and "reversed(list(enumerate(sec_keys)))" in t, "signature-order", ctx.where(f), "signatures are not ordered by the position of their key")
    ctx.check("if sec_key in secs_solved:" in t and "if len(existing_signatures) >= len(signature_variables):" in t, "reuse-existing", ctx.where(f), "existing valid signatures are not kept / the signature count is not capped")


def _stmt_of(func_node, node):
    best = None
    for st in body_nodes(func_node):
        if isinstance(st, ast.stmt) and any(x is node for x in ast.walk(st)):
            if best is None or any(x is st for x in ast.walk(best)):
                best = st
    return best


# ------------------------------------------------------------------ C05.3
def c05_3(ctx):
    bodies = {}
    for coin, cls in (("bcash", "BcashSolver"), ("bgold", "BgoldSolver")):
        rel = "pycoin/coins/%s/Solver.py" % coin
        f = ctx.func(rel, cls + ".solve")
        stores = []
        w = GuardWalker(ru.opaque)
        w.run(f.node.body)
        for st, r in w.visits:
            tg = st.targets[0] if isinstance(st, ast.Assign) else (st.target if isinstance(st, ast.AugAssign) else None)
            if tg is not None and norm(tg) == "kwargs['hash_type']":
                stores.append((st, r))
        ok = len(stores) == 2
        if ok:
            (a, ra), (b, rb) = stores
            ok = isinstance(a, ast.Assign) and norm(a.value) == "SIGHASH_ALL" and gi.f_equiv(ra, ("op", "kwargs.get('hash_type') is None")) and \
                isinstance(b, ast.AugAssign) and isinstance(b.op, ast.BitOr) and norm(b.value) == "SIGHASH_FORKID" and rb is True
        ctx.check(ok, "forkid-forced:%s" % cls, ctx.where(f),
                  "%s.solve changes the hash type by %s; it must default to ALL and then only OR in SIGHASH_FORKID (every other bit of the requested type, e.g. ANYONECANPAY, is kept)" % (cls, [norm(s) for s, r in stores]),
                  sample={"solver": cls, "hash_type_updates": [norm(s) for s, r in stores]})
        rets = df.returns_of(f.node)
        ctx.check(len(rets) == 1 and norm(rets[0].value) == "super(%s, self).solve(*args, **kwargs)" % cls, "forkid-delegates:%s" % cls, ctx.where(f), "%s.solve does not delegate to the generic solver with the forced type" % cls)
        bodies[cls] = "\n".join(norm(s) for s in f.node.body).replace(cls, "X")
        c = ctx.p.cls(rel, cls)
        v = c.attrs.get("SolutionChecker")
        ctx.check(v is not None and norm(v) == cls.replace("Solver", "SolutionChecker"), "forkid-checker:%s" % cls, "%s:%d" % (rel, c.node.lineno), "%s does not validate with its coin's checker" % cls)
    ctx.check(bodies["BcashSolver"] == bodies["BgoldSolver"], "forkid-siblings", "pycoin/coins/bgold/Solver.py:1", "the BCH and BTG solvers differ beyond their class names")
    it = ctx.interp
    fl = it.module("pycoin.satoshi.flags").ns
    ctx.check(fl.get("SIGHASH_FORKID") == 0x40 and fl.get("SIGHASH_ALL") == 1 and fl.get("SIGHASH_ANYONECANPAY") == 0x80, "sighash-constants", "pycoin/satoshi/flags.py:1", "SIGHASH constants are wrong")
    s = ctx.func(SOLVER, "Solver.solve")
    t = norm(s.node)
    ctx.check("if hash_type is None:" in t and "hash_type = SIGHASH_ALL" in t and "kwargs['signature_type'] = hash_type" in t, "hash-type-plumbing", ctx.where(s), "Solver.solve does not default to SIGHASH_ALL and hand the type to the signing solver")


# ------------------------------------------------------------------ C05.4
def c05_4(ctx):
    for name in ("build_hash160_lookup", "build_p2sh_lookup", "build_sec_lookup"):
        f = ctx.func(UTILS, name)
        for p in f.params():
            sites = []
            for n in body_nodes(f.node):
                if isinstance(n, (ast.For, ast.comprehension)) and any(isinstance(x, ast.Name) and x.id == p for x in ast.walk(n.iter)):
                    sites.append(n)
            mat = [d for d in df.assignments(f.node).values() for v, st in d if isinstance(v, ast.Call) and norm(v.func) in ("list", "tuple") and v.args and norm(v.args[0]) == p]
            inner = [s for s in sites if any(isinstance(o, (ast.For,)) and o is not s and any(x is s for x in ast.walk(o)) for o in body_nodes(f.node))]
            if name == "build_hash160_lookup":
                inner = []
            ctx.check(len(sites) <= 1 and not inner, "single-pass:%s:%s" % (name, p), ctx.where(f),
                      "%s iterates its argument `%s` %d times without materialising it: a generator is exhausted by the first pass and the later table stays empty (inputs needing it are silently left unsigned)" % (name, p, len(sites)),
                      what="iter:%s:%s" % (name, p), sample={"function": name, "parameter": p, "iteration_sites": len(sites)})
    f = ctx.func(UTILS, "build_p2sh_lookup")
    t = norm(f.node)
    ctx.check("hash160(s), s" in t and "hashlib.sha256(s).digest(), s" in t, "p2sh-lookup-keys", ctx.where(f), "build_p2sh_lookup does not key each script by hash160 (P2SH) and sha256 (P2WSH)")
    g = ctx.func(UTILS, "build_hash160_lookup")
    t = norm(g.node)
    ctx.check("for compressed in (True, False):" in t and "h160 = public_pair_to_hash160_sec(public_pair, compressed=compressed)" in t and "d[h160] = (secret_exponent, public_pair, compressed, generator)" in t, "hash160-lookup", ctx.where(g),
              "build_hash160_lookup does not store both compression forms keyed by hash160(sec)")
    k = ctx.func(KEYCHAIN, "Keychain.get")
    t = norm(k.node)
    ctx.check(t.index("v = self.p2s_for_hash(h160)") < t.index("if h160 not in self._secret_exponent_cache:") and "subkey = key.subkey_for_path(path)" in t and "return self._secret_exponent_cache.get(h160, default)" in t, "keychain-get", ctx.where(k),
              "Keychain.get does not consult the script table first and then the (lazily filled) key cache")
    a = ctx.func(KEYCHAIN, "Keychain._add_key_to_cache")
    ctx.check("for is_compressed in (True, False):" in norm(a.node) and "h160 = key.hash160(is_compressed=is_compressed)" in norm(a.node), "keychain-both-forms", ctx.where(a), "the keychain does not cache both compression forms")


# ------------------------------------------------------------------ C05.5
def c05_5(ctx):
    f = ctx.func(SOLVER, "Solver.solve_for_constraints")
    sorts = [c for c in df.calls_in(f.node) if isinstance(c.func, ast.Name) and c.func.id == "sorted"]
    ok = len(sorts) == 2
    for c in sorts:
        kw = {k.arg: k.value for k in c.keywords}
        key = kw.get("key")
        good = False
        if key is not None:
            tgt = key
            if isinstance(key, ast.Name):
                inner = ctx.p.functions.get("%s.%s" % (f.qualname, key.id))
                body = norm(inner.node.body[-1]) if inner is not None else ""
                good = "int(" in body and ".name" in body
            elif isinstance(key, ast.Lambda):
                good = "int(" in norm(key.body) and ".name" in norm(key.body)
        ctx.check(good and isinstance(kw.get("reverse"), ast.Constant) and kw["reverse"].value is True, "numeric-placeholder-order", ctx.where(f, c),
                  "solved placeholders are ordered by `%s`; their names are x_0, x_1, ... x_10: ordering them as strings puts x_10 before x_2, so unlocking stacks with more than ten items (15-of-15 multisig) come out permuted"
                  % (norm(key) if key is not None else "their string names"), sample={"sort": norm(c)[:120]})
    ctx.check(ok, "two-stacks", ctx.where(f), "solve_for_constraints does not order the script stack and the witness stack")
    ds = ctx.func(SOLVER, "DynamicStack._fill")
    ctx.check("self.insert(0, Atom(self.fill_template % self.total_item_count))" in norm(ds.node) and "self.total_item_count += 1" in norm(ds.node), "placeholder-naming", ctx.where(ds), "placeholders are not numbered by depth")


OBLIGATIONS = [
    Ob("C05.1", "effect set of signing = {script, witness} of requested inputs that failed validation", c05_1, floor=10, engines="EF,CFG", breaks_if="sign(..., tx_in_idx_set=set()); re-signing valid inputs"),
    Ob("C05.2", "low-S normalisation (with the group order) dominates every DER emission; hash-type byte", c05_2, floor=6, engines="CFG,MK", breaks_if="half of all signatures"),
    Ob("C05.3", "fork-id solvers default to ALL and only OR in SIGHASH_FORKID", c05_3, floor=9, engines="SIB,CFG", breaks_if="BCH with ANYONECANPAY hash types"),
    Ob("C05.4", "lookup tables: both compression forms, both script hashes, single pass over one-shot iterables", c05_4, floor=8, engines="DF", breaks_if="scripts supplied as a generator + P2WSH input"),
    Ob("C05.5", "solution stacks are ordered numerically", c05_5, floor=4, engines="DF", breaks_if="15-of-15 multisig"),
]
