"""Transcription of every function of pycoin/satoshi/satoshi_int.py as of the reviewed tree (see DESIGN.md section 12).
NEVER IMPORTED OR EXECUTED: parsed and compared in canonical form (sa/sym.py) with the functions in /repo."""


_CONSTS = {

}


# pycoin/satoshi/satoshi_int.py :: parse_satoshi_int
def q__parse_satoshi_int(f, v=None):
    if v is None:
        v = ord(f.read(1))
    if v == 253:
        v = struct.unpack('<H', f.read(2))[0]
    elif v == 254:
        v = struct.unpack('<L', f.read(4))[0]
    elif v == 255:
        v = struct.unpack('<Q', f.read(8))[0]
    return v


# pycoin/satoshi/satoshi_int.py :: stream_satoshi_int
def q__stream_satoshi_int(f, v):
    if v < 253:
        f.write(struct.pack('<B', v))
    elif v <= 65535:
        f.write(b'\xfd' + struct.pack('<H', v))
    elif v <= 4294967295:
        f.write(b'\xfe' + struct.pack('<L', v))
    else:
        f.write(b'\xff' + struct.pack('<Q', v))
