"""Transcription of every function of pycoin/vm/ScriptStreamer.py as of the reviewed tree (see DESIGN.md section 12).
NEVER IMPORTED OR EXECUTED: parsed and compared in canonical form (sa/sym.py) with the functions in /repo."""


_CONSTS = {

}


# pycoin/vm/ScriptStreamer.py :: make_const_handler
def q__make_const_handler(data):
    data = bytes_as_hex(data)

    def constant_data_opcode_handler(script, pc, verify_minimal_data=False):
        return (pc + 1, data)
    return constant_data_opcode_handler


# pycoin/vm/ScriptStreamer.py :: make_const_handler.constant_data_opcode_handler
def q__make_const_handler__constant_data_opcode_handler(script, pc, verify_minimal_data=False):
    return (pc + 1, data)


# pycoin/vm/ScriptStreamer.py :: make_sized_handler
def q__make_sized_handler(size, const_values, non_minimal_data_handler):
    const_values = list(const_values)

    def constant_size_opcode_handler(script, pc, verify_minimal_data=False):
        pc += 1
        data = bytes_as_hex(script[pc:pc + size])
        if len(data) < size:
            return (pc + 1, None)
        if verify_minimal_data and data in const_values:
            non_minimal_data_handler('not minimal push of %s' % repr(data))
        return (pc + size, data)
    return constant_size_opcode_handler


# pycoin/vm/ScriptStreamer.py :: make_sized_handler.constant_size_opcode_handler
def q__make_sized_handler__constant_size_opcode_handler(script, pc, verify_minimal_data=False):
    pc += 1
    data = bytes_as_hex(script[pc:pc + size])
    if len(data) < size:
        return (pc + 1, None)
    if verify_minimal_data and data in const_values:
        non_minimal_data_handler('not minimal push of %s' % repr(data))
    return (pc + size, data)


# pycoin/vm/ScriptStreamer.py :: make_variable_handler
def q__make_variable_handler(dec_f, sized_values, min_size, non_minimal_data_handler):
    sized_values = list(sized_values)

    def f(script, pc, verify_minimal_data=False):
        size, pc = dec_f(script, pc)
        if size is None:
            return (pc + 1, None)
        data = bytes_as_hex(script[pc:pc + size])
        if len(data) < size:
            return (pc + 1, None)
        if verify_minimal_data:
            if size in sized_values or size <= min_size:
                non_minimal_data_handler('not minimal push of data with size %d' % size)
        return (pc + size, data)
    return f


# pycoin/vm/ScriptStreamer.py :: make_variable_handler.f
def q__make_variable_handler__f(script, pc, verify_minimal_data=False):
    size, pc = dec_f(script, pc)
    if size is None:
        return (pc + 1, None)
    data = bytes_as_hex(script[pc:pc + size])
    if len(data) < size:
        return (pc + 1, None)
    if verify_minimal_data:
        if size in sized_values or size <= min_size:
            non_minimal_data_handler('not minimal push of data with size %d' % size)
    return (pc + size, data)


# pycoin/vm/ScriptStreamer.py :: make_sized_encoder
def q__make_sized_encoder(opcode_value):
    opcode_bin = bytes([opcode_value])

    def f(data):
        return opcode_bin + data
    return f


# pycoin/vm/ScriptStreamer.py :: make_sized_encoder.f
def q__make_sized_encoder__f(data):
    return opcode_bin + data


# pycoin/vm/ScriptStreamer.py :: ScriptStreamer.__init__
def q__ScriptStreamer____init__(self, opcode_const_list, opcode_sized_list, opcode_variable_list, opcode_lookup, non_minimal_data_handler):
    const_pairs = [(opcode_lookup.get(opcode), val) for opcode, val in opcode_const_list]
    self.const_encoder = {v: bytes([k]) for k, v in const_pairs if k is not None}
    sized_pairs = [(opcode_lookup.get(opcode), size) for opcode, size in opcode_sized_list]
    self.sized_encoder = {v: make_sized_encoder(k) for k, v in sized_pairs if k is not None}
    opcode_variable_list = sorted(opcode_variable_list, key=lambda o: o[0])
    self.variable_encoder = list(((max_size, opcode_lookup.get(opcode), enc_f) for opcode, max_size, enc_f, dec_f in opcode_variable_list))
    self.decoder = {}
    min_size = 0
    for o, max_size, enc_f, dec_f in opcode_variable_list:
        self.decoder[opcode_lookup.get(o)] = make_variable_handler(dec_f, self.sized_encoder.keys(), min_size, non_minimal_data_handler)
        min_size = max_size
    self.decoder.update({o: make_sized_handler(v, self.const_encoder.keys(), non_minimal_data_handler) for o, v in sized_pairs})
    self.decoder.update({o: make_const_handler(v) for o, v in const_pairs})
    self.data_opcodes = frozenset(self.decoder.keys())


# pycoin/vm/ScriptStreamer.py :: ScriptStreamer.get_opcode
def q__ScriptStreamer__get_opcode(self, script, pc, verify_minimal_data=False):
    opcode = script[pc]
    decoder = self.decoder.get(opcode)
    if decoder:
        pc, data = decoder(script, pc, verify_minimal_data=verify_minimal_data)
        is_ok = data is not None
    else:
        pc += 1
        data = None
        is_ok = True
    return (opcode, data, pc, is_ok)


# pycoin/vm/ScriptStreamer.py :: ScriptStreamer.compile_push_data
def q__ScriptStreamer__compile_push_data(self, data):
    if data in self.const_encoder:
        return self.const_encoder.get(data)
    size = len(data)
    if size in self.sized_encoder:
        return self.sized_encoder.get(size)(data)
    opcode = None
    enc_f = None
    for max_size, opcode, enc_f in self.variable_encoder:
        if size <= max_size:
            break
    return bytes([opcode]) + enc_f(len(data)) + data
