"""SYM - flow-sensitive symbolic store with canonical forms.

SymWalker walks a function like gi.GuardWalker, but additionally keeps a store `local name -> expression tree`
in which every expression is written over the function's inputs (parameters, attributes, call results) only:
temporaries are substituted away, joins of branches become conditional expressions, loop-modified names are
havoced.  All expressions handed to rules (exit values, guard atoms, effects) are *canonical*:

  * bound variables of comprehensions / lambdas are renamed positionally,
  * module-level integer / bytes / str constants are replaced by their values and constant arithmetic is folded,
  * `x // 2**k` -> `x >> k`, `x & (2**k - 1)` -> `x % 2**k`, `dict(a=b)` -> `{'a': b}`, `not not x` -> `bool(x)`,
  * comparisons are reduced to the atoms `a == b` (operands ordered) and `a < b`; `!=, >, >=, <=, not in` are
    negations / flips; `x in (a, b)` is a disjunction of equalities; `len(x) > 0`, `len(x) != 0`, `x` (as a
    condition) are the one atom truthy(x).

This makes the rules that consume it insensitive to renaming of locals, introduction or removal of temporaries,
early-return vs nested-if style, De Morgan rewrites, operator flips and named constants, while every value they
compare is still the value the code computes.  No solver and no execution is involved: this is abstract
interpretation over the term domain.
"""
from __future__ import annotations

import ast
import re
import os
import copy

from .pm import AnalysisError, Undecided, norm
from . import gi, df
from . import expand as _expand
from .gi import f_and, f_or, f_not, Exit

MAX_NODES = 8000


def _size(e):
    return sum(1 for _ in ast.walk(e))


_BOOL_FUNCS = ("bool", "isinstance", "issubclass", "any", "all", "callable", "hasattr")
_BOOL_METHODS = ("startswith", "endswith", "isdigit", "isalpha", "isalnum", "isspace", "islower", "isupper", "issubset", "issuperset", "isdisjoint")


def _is_bool_expr(e, callee_of=None, depth=0):
    """the expression is True or False whatever its operands are"""
    if isinstance(e, ast.Constant):
        return isinstance(e.value, bool)
    if isinstance(e, ast.Compare):
        return True
    if isinstance(e, ast.UnaryOp) and isinstance(e.op, ast.Not):
        return True
    if isinstance(e, ast.BoolOp):
        return all(_is_bool_expr(v, callee_of, depth) for v in e.values)
    if isinstance(e, ast.IfExp):
        return _is_bool_expr(e.body, callee_of, depth) and _is_bool_expr(e.orelse, callee_of, depth)
    if isinstance(e, ast.Call):
        if isinstance(e.func, ast.Name) and e.func.id in _BOOL_FUNCS:
            return True
        if isinstance(e.func, ast.Attribute) and (e.func.attr in _BOOL_METHODS or e.func.attr.startswith(("is_", "has_"))):
            return True         # predicates by name: is_coinbase(), has_witness_data() ... answer yes or no
        if callee_of is not None and depth < 2:
            fn = callee_of(e)
            if fn is not None:
                rets = [n for n in ast.walk(fn) if isinstance(n, ast.Return)]
                inner = [n for n in ast.walk(fn) if n is not fn and isinstance(n, (ast.FunctionDef, ast.Lambda))]
                if rets and not inner and all(r.value is not None and _is_bool_expr(r.value, None, depth + 1) for r in rets):
                    return True
    return False


def _is_access_path(e):
    """self.a.b / x.a: an attribute path from a name (no call, no subscript: those may build or select a new object)"""
    if not isinstance(e, ast.Attribute):
        return False
    while isinstance(e, ast.Attribute):
        e = e.value
    return isinstance(e, ast.Name)


def _beta(e):
    """(lambda a, b: E)(x, y)  ->  E with a, b replaced (no binder inside E may capture a name of x, y)"""
    class B(ast.NodeTransformer):
        def visit_Call(s, n):
            n = s.generic_visit(n)
            f = n.func
            if isinstance(f, ast.Lambda) and not n.keywords and not any(isinstance(a, ast.Starred) for a in n.args):
                a = f.args
                if not (a.vararg or a.kwarg or a.kwonlyargs or a.defaults or a.kw_defaults) and len(a.posonlyargs + a.args) == len(n.args):
                    params = [x.arg for x in a.posonlyargs + a.args]
                    free = {x.id for arg in n.args for x in ast.walk(arg) if isinstance(x, ast.Name)}
                    binders = set()
                    for x in ast.walk(f.body):
                        if isinstance(x, ast.Lambda):
                            binders |= {y.arg for y in x.args.args + x.args.posonlyargs + x.args.kwonlyargs}
                        elif isinstance(x, ast.comprehension):
                            binders |= {y.id for y in ast.walk(x.target) if isinstance(y, ast.Name)}
                        elif isinstance(x, ast.NamedExpr):
                            binders.add(x.target.id)
                    if not (binders & (free | set(params))):
                        bind = dict(zip(params, n.args))

                        class R(ast.NodeTransformer):
                            def visit_Name(r, m):
                                if isinstance(m.ctx, ast.Load) and m.id in bind:
                                    return copy.deepcopy(bind[m.id])
                                return m
                        return R().visit(copy.deepcopy(f.body))
            return n
    return B().visit(e)


_ITER_CONSUMERS = ("dict", "tuple", "list", "sorted", "set", "frozenset", "sum", "any", "all", "min", "max", "enumerate", "zip", "bytes", "bytearray", "reversed", "iter")
_STRUCT_FUNCS = ("struct.pack", "struct.unpack", "struct.calcsize", "struct.Struct", "struct.unpack_from", "struct.pack_into", "struct.iter_unpack")


class Canon:
    """canonical forms of expressions.  int_names: set of canonical texts (or predicate on the text) known to be
    integers; arithmetic is only re-associated / sorted where every operand is known to be an integer."""

    def __init__(self, const_of=None, int_names=None, inline=None):
        self.const_of = const_of      # callable(expr) -> python value or None, for module-level constants
        self.inline = inline          # callable(call node) -> FunctionDef of a single-expression helper, or None
        self._depth = 0
        self.callee_of = None         # callable(call node) -> FunctionDef the call resolves to (for default arguments), or None
        self.assign_of = None         # callable(Name node) -> the value expression of its single module-level assignment, or None
        self.lambda_of = None         # callable(Name node) -> Lambda equal to the one-expression helper (added since the review) it names, or None
        self.extra_ints = set()       # local names inferred to hold integers (see infer_int_locals)
        if int_names is None:
            self.int_name = lambda t: False
        elif callable(int_names):
            self.int_name = int_names
        else:
            self.int_name = set(int_names).__contains__

    # ------------------------------------------------------------- expressions
    def expr(self, e):
        e = copy.deepcopy(e)
        e = _beta(e)
        e = self._alpha(e, {}, [0])
        e = self._fold(e)
        return e

    def text(self, e):
        return norm(self.expr(e))

    def _alpha(self, e, ren, ctr):
        """bound variables are named by binder nesting depth (context independent: the same comprehension has
        the same text wherever it is substituted)"""
        depth = ctr[0]
        if isinstance(e, ast.Name):
            if e.id in ren:
                return ast.Name(ren[e.id], e.ctx)
            return e
        if isinstance(e, (ast.ListComp, ast.SetComp, ast.GeneratorExp, ast.DictComp)):
            ren = dict(ren)
            gens = []
            k = 0
            for g in e.generators:
                it = self._alpha(g.iter, ren, [depth + 1] if gens else ctr)
                for n in ast.walk(g.target):
                    if isinstance(n, ast.Name):
                        ren[n.id] = "_b%d" % depth if k == 0 else "_b%d_%d" % (depth, k)
                        k += 1
                tgt = self._alpha(g.target, ren, [depth + 1])
                ifs = [self._alpha(c, ren, [depth + 1]) for c in g.ifs]
                gens.append(ast.comprehension(tgt, it, ifs, g.is_async))
            if isinstance(e, ast.DictComp):
                return ast.DictComp(self._alpha(e.key, ren, [depth + 1]), self._alpha(e.value, ren, [depth + 1]), gens)
            return type(e)(self._alpha(e.elt, ren, [depth + 1]), gens)
        if isinstance(e, ast.Lambda):
            ren = dict(ren)
            args = copy.deepcopy(e.args)
            for k, a in enumerate(args.posonlyargs + args.args + args.kwonlyargs):
                ren[a.arg] = "_b%d" % depth if k == 0 else "_b%d_%d" % (depth, k)
                a.arg = ren[a.arg]
                a.annotation = None
            return ast.Lambda(args, self._alpha(e.body, ren, [depth + 1]))
        for fld, val in ast.iter_fields(e):
            if isinstance(val, ast.AST):
                setattr(e, fld, self._alpha(val, ren, ctr))
            elif isinstance(val, list):
                setattr(e, fld, [self._alpha(v, ren, ctr) if isinstance(v, ast.AST) else v for v in val])
        return e

    # ------------------------------------------------------------- integer typing
    INT_FUNCS = {"len", "int", "ord", "abs", "hash", "id"}
    INT_METHODS = {"bit_length", "from_bytes", "count", "index", "find", "tell"}

    def is_int(self, e):
        if isinstance(e, ast.Constant):
            return isinstance(e.value, int) and not isinstance(e.value, bool)
        if isinstance(e, ast.Name) and e.id in self.extra_ints:
            return True
        if isinstance(e, (ast.Name, ast.Attribute, ast.Subscript)):
            return self.int_name(norm(e))
        if isinstance(e, ast.Call):
            if isinstance(e.func, ast.Name) and e.func.id in self.INT_FUNCS:
                return True
            if isinstance(e.func, ast.Name) and e.func.id in ("min", "max", "pow") and e.args and all(self.is_int(a) for a in e.args):
                return True
            if isinstance(e.func, ast.Attribute) and e.func.attr in self.INT_METHODS:
                return True
            return self.int_name(norm(e))
        if isinstance(e, ast.UnaryOp):
            return isinstance(e.op, (ast.USub, ast.Invert, ast.UAdd)) and not isinstance(e.operand, (ast.Constant,)) or (isinstance(e.operand, ast.Constant) and self.is_int(e.operand))
        if isinstance(e, ast.IfExp):
            return self.is_int(e.body) and self.is_int(e.orelse)
        if isinstance(e, ast.BinOp):
            if isinstance(e.op, (ast.LShift, ast.RShift, ast.FloorDiv, ast.Pow)):
                return True
            a, b = self.is_int(e.left), self.is_int(e.right)
            if a and b:
                return not isinstance(e.op, ast.Div)
            if isinstance(e.op, (ast.Add, ast.Sub)):
                return a or b           # only a number can be added to a number
            if isinstance(e.op, (ast.BitAnd, ast.BitOr, ast.BitXor)):
                return (isinstance(e.left, ast.Constant) and a) or (isinstance(e.right, ast.Constant) and b)
            if isinstance(e.op, ast.Mod):
                return isinstance(e.right, ast.Constant) and b and not isinstance(e.left, (ast.Constant, ast.JoinedStr))
        return False

    @staticmethod
    def _has_seq_const(e):
        return any(isinstance(n, ast.JoinedStr) or (isinstance(n, ast.Constant) and isinstance(n.value, (str, bytes))) or isinstance(n, (ast.List, ast.Tuple))
                   for n in ast.walk(e))

    # ------------------------------------------------------------- linear normal form
    def _lin(self, e, force):
        """-> (dict text -> [coef, term]), const) or None if e is not integer arithmetic"""
        if isinstance(e, ast.Constant) and isinstance(e.value, int) and not isinstance(e.value, bool):
            return {}, e.value
        if isinstance(e, ast.BinOp) and isinstance(e.op, (ast.Add, ast.Sub)) and (force or self.is_int(e)):
            # x + 1 being a number makes x one: the operands of numeric addition are numbers themselves
            l, r = self._lin(e.left, True), self._lin(e.right, True)
            if l is None or r is None:
                return None
            sgn = 1 if isinstance(e.op, ast.Add) else -1
            terms = {k: list(v) for k, v in l[0].items()}
            for k, (c, t) in r[0].items():
                if k in terms:
                    terms[k][0] += sgn * c
                else:
                    terms[k] = [sgn * c, t]
            return {k: v for k, v in terms.items() if v[0] != 0}, l[1] + sgn * r[1]
        if isinstance(e, ast.UnaryOp) and isinstance(e.op, ast.USub):
            l = self._lin(e.operand, force)
            if l is None:
                return None
            return {k: [-c, t] for k, (c, t) in l[0].items()}, -l[1]
        if isinstance(e, ast.BinOp) and isinstance(e.op, ast.Mult):
            for a, b in ((e.left, e.right), (e.right, e.left)):
                if isinstance(a, ast.Constant) and isinstance(a.value, int) and not isinstance(a.value, bool) and (force or self.is_int(b)):
                    l = self._lin(b, force)
                    if l is None:
                        return None
                    return {k: [a.value * c, t] for k, (c, t) in l[0].items() if a.value * c != 0}, a.value * l[1]
        if isinstance(e, ast.BinOp) and isinstance(e.op, ast.LShift) and isinstance(e.right, ast.Constant) and isinstance(e.right.value, int) and 0 <= e.right.value <= 4096:
            l = self._lin(e.left, True)
            if l is None:
                return None
            k2 = 1 << e.right.value
            return {k: [k2 * c, t] for k, (c, t) in l[0].items()}, k2 * l[1]
        if force or self.is_int(e):
            return {norm(e): [1, e]}, 0
        return None

    def _unlin(self, terms, const):
        out = None
        for k in sorted(terms):
            c, t = terms[k]
            mag = abs(c)
            piece = t if mag == 1 else ast.BinOp(ast.Constant(mag), ast.Mult(), t)
            if out is None:
                out = piece if c > 0 else (ast.UnaryOp(ast.USub(), piece) if mag == 1 else ast.BinOp(ast.Constant(c), ast.Mult(), t))
            else:
                out = ast.BinOp(out, ast.Add() if c > 0 else ast.Sub(), piece)
        if out is None:
            return ast.Constant(const)
        if const:
            out = ast.BinOp(out, ast.Add() if const > 0 else ast.Sub(), ast.Constant(abs(const)))
        return out

    def linear(self, e, force=False):
        if e is None or (force and self._has_seq_const(e)):
            return e
        if not (isinstance(e, (ast.BinOp, ast.UnaryOp)) or force):
            return e
        l = self._lin(e, force)
        if l is None:
            return e
        return self._unlin(*l)

    def _flat(self, e, op):
        if isinstance(e, ast.BinOp) and isinstance(e.op, op):
            return self._flat(e.left, op) + self._flat(e.right, op)
        return [e]

    def _fold(self, e):
        if isinstance(e, ast.Call) and isinstance(e.func, ast.Name):
            e.func._is_callee = True
        if isinstance(e, (ast.ListComp, ast.SetComp, ast.GeneratorExp, ast.DictComp)):
            # the variable of `for i in range(..)` is an integer inside the comprehension
            for g_ in e.generators:
                if isinstance(g_.iter, ast.Call) and isinstance(g_.iter.func, ast.Name) and g_.iter.func.id == "range" and isinstance(g_.target, ast.Name):
                    self.extra_ints = set(self.extra_ints) | {g_.target.id}
        for fld, val in ast.iter_fields(e):
            if isinstance(val, ast.AST):
                setattr(e, fld, self._fold(val))
            elif isinstance(val, list):
                setattr(e, fld, [self._fold(v) if isinstance(v, ast.AST) else v for v in val])
        if isinstance(e, ast.Name) and isinstance(e.ctx, ast.Load) and self.lambda_of is not None and not getattr(e, "_is_callee", False):
            lam = self.lambda_of(e)
            if lam is not None:
                return self._fold(self._alpha(lam, {}, [0]))
        if isinstance(e, (ast.Name, ast.Attribute)) and self.const_of is not None and isinstance(getattr(e, "ctx", None), ast.Load):
            v = self.const_of(e)
            if isinstance(v, (int, bytes, str)) and not isinstance(v, bool):
                return ast.Constant(v)
            if isinstance(v, (tuple, list)) and 0 < len(v) <= 16 and all(isinstance(x, (int, bytes, str)) and not isinstance(x, bool) for x in v):
                return (ast.List if isinstance(v, list) else ast.Tuple)([ast.Constant(x) for x in v], ast.Load())
            if isinstance(v, range) and v.step == 1:
                return ast.Call(ast.Name("range", ast.Load()), [ast.Constant(v.start), ast.Constant(v.stop)] if v.start else [ast.Constant(v.stop)], [])
            if isinstance(v, (tuple, list)) and _plain_table(v):
                lit = lambda x: ast.Constant(x) if not isinstance(x, (tuple, list)) else (ast.List if isinstance(x, list) else ast.Tuple)([lit(y) for y in x], ast.Load())
                return lit(v)
        if isinstance(e, ast.Attribute) and e.attr == "size" and isinstance(e.value, ast.Name) and isinstance(getattr(e, "ctx", None), ast.Load) and self.assign_of is not None:
            # S = struct.Struct(fmt) at module level: S.size is struct.calcsize(fmt), a number
            a_ = self.assign_of(e.value)
            if isinstance(a_, ast.Call) and norm(a_.func) in ("struct.Struct", "Struct") and len(a_.args) == 1 and isinstance(a_.args[0], ast.Constant) and isinstance(a_.args[0].value, (str, bytes)) and not a_.keywords:
                import struct as _struct
                try:
                    return ast.Constant(_struct.calcsize(a_.args[0].value))
                except _struct.error:
                    pass
        if isinstance(e, ast.Subscript) and isinstance(e.slice, ast.Slice) and e.slice.lower is None and _is_minus_one(e.slice.step) and isinstance(e.value, ast.Call) \
                and norm(e.value.func) == "struct.pack" and len(e.value.args) == 2 and _single_field(e.value.args[0]) is not None:
            # struct.pack('>Q', v)[::-1] is struct.pack('<Q', v); [:u:-1] keeps the first n-1-u bytes of that
            fmt_, n_ = _single_field(e.value.args[0])
            flipped = ast.Call(e.value.func, [ast.Constant(_flip(fmt_)), e.value.args[1]], [])
            if e.slice.upper is None:
                return flipped
            if isinstance(e.slice.upper, ast.Constant) and isinstance(e.slice.upper.value, int) and 0 <= e.slice.upper.value < n_:
                return ast.Subscript(flipped, ast.Slice(None, ast.Constant(n_ - 1 - e.slice.upper.value), None), ast.Load())
        if isinstance(e, ast.Call) and norm(e.func) == "struct.unpack" and len(e.args) == 2 and not e.keywords and _single_field(e.args[0]) is not None \
                and any(isinstance(x, ast.Subscript) and isinstance(x.slice, ast.Slice) and _is_minus_one(x.slice.step) for x in ast.walk(e.args[1])):
            # struct.unpack('>Q', b'\0\0' + x[::-1]) is struct.unpack('<Q', x + b'\0\0'): one field read from the reversed bytes
            rv_ = _reversed_bytes(e.args[1])
            if rv_ is not None:
                return self._fold(ast.Call(e.func, [ast.Constant(_flip(_single_field(e.args[0])[0])), rv_], []))
        if isinstance(e, ast.JoinedStr):
            # f"{a}_x{b:02x}" is "%s_x%02x" % (a, b): one form for both spellings of string formatting
            fmt, vals, ok = "", [], True
            for part in e.values:
                if isinstance(part, ast.Constant) and isinstance(part.value, str):
                    fmt += part.value.replace("%", "%%")
                elif isinstance(part, ast.FormattedValue) and part.conversion in (-1, 115):
                    spec = ""
                    if part.format_spec is not None:
                        if isinstance(part.format_spec, ast.JoinedStr) and len(part.format_spec.values) == 1 and isinstance(part.format_spec.values[0], ast.Constant):
                            spec = part.format_spec.values[0].value
                        else:
                            ok = False
                    if spec == "":
                        fmt += "%s"
                    elif spec[-1:] in "dxXo" and (spec[:-1] == "" or spec[:-1].isdigit()):
                        fmt += "%" + spec
                    else:
                        ok = False
                    vals.append(part.value)
                else:
                    ok = False
            if ok and vals:
                return self._fold(ast.BinOp(ast.Constant(fmt), ast.Mod(), vals[0] if len(vals) == 1 else ast.Tuple(vals, ast.Load())))
            if ok and not vals:
                return ast.Constant(fmt.replace("%%", "%"))
        if isinstance(e, ast.Compare) and len(e.ops) > 1:
            # a <= b < c  is  a <= b and b < c  (the operands are values: impure calls keep their identity tag)
            parts = []
            left = e.left
            for op, right in zip(e.ops, e.comparators):
                parts.append(ast.Compare(copy.deepcopy(left), [op], [copy.deepcopy(right)]))
                left = right
            return ast.BoolOp(ast.And(), parts)
        if isinstance(e, ast.Slice):
            e.lower = self.linear(e.lower, True) if e.lower is not None else None
            e.upper = self.linear(e.upper, True) if e.upper is not None else None
            if isinstance(e.lower, ast.Constant) and e.lower.value == 0:
                e.lower = None
            return e
        if isinstance(e, ast.Call) and isinstance(e.func, ast.Name) and e.func.id in ("isinstance", "issubclass") and len(e.args) == 2 and isinstance(e.args[1], ast.Tuple) and not e.keywords:
            e.args[1].elts = sorted(e.args[1].elts, key=norm)        # the order of the classes does not matter
            return e
        if isinstance(e, ast.Call) and isinstance(e.func, ast.Name) and e.func.id == "range" and not e.keywords:
            e.args = [self.linear(a, True) for a in e.args]
            if len(e.args) == 2 and isinstance(e.args[0], ast.Constant) and e.args[0].value == 0:
                e.args = e.args[1:]
            return e
        if isinstance(e, ast.Call):
            ft = norm(e.func)
            # an iterable handed to something that only iterates it: the list() around it is no part of the value
            if (ft in _ITER_CONSUMERS or (isinstance(e.func, ast.Attribute) and e.func.attr == "join")) and not e.keywords and ft != "reversed" \
                    and (len(e.args) == 1 or ft == "zip"):
                for i_, a_ in enumerate(e.args):
                    if isinstance(a_, ast.Call) and isinstance(a_.func, ast.Name) and a_.func.id in ("list", "tuple") and len(a_.args) == 1 and not a_.keywords:
                        e.args[i_] = a_.args[0]
            if any(isinstance(a_, ast.Starred) and isinstance(a_.value, (ast.List, ast.Tuple)) for a_ in e.args):
                flat = []
                for a_ in e.args:
                    if isinstance(a_, ast.Starred) and isinstance(a_.value, (ast.List, ast.Tuple)) and not any(isinstance(x, ast.Starred) for x in a_.value.elts):
                        flat += a_.value.elts       # f(a, *[b, c]) is f(a, b, c)
                    else:
                        flat.append(a_)
                e.args = flat
            if ft == "super" and len(e.args) == 2 and not e.keywords and isinstance(e.args[0], ast.Name) and isinstance(e.args[1], ast.Name) and e.args[1].id in ("self", "cls"):
                e.args = []                         # super(Tx, self) inside Tx is super()
            if ft == "list" and len(e.args) == 1 and not e.keywords and isinstance(e.args[0], ast.Subscript) and isinstance(e.args[0].slice, ast.Slice):
                # list(X[a:b]) is list(X)[a:b] (X is a sequence, or X[a:b] would not work)
                inner = e.args[0]
                return self._fold(ast.Subscript(ast.Call(ast.Name("list", ast.Load()), [inner.value], []), inner.slice, ast.Load()))
            if ft == "getattr" and len(e.args) == 2 and not e.keywords and isinstance(e.args[1], ast.Constant) and isinstance(e.args[1].value, str) and e.args[1].value.isidentifier():
                return ast.Attribute(e.args[0], e.args[1].value, ast.Load())      # getattr(x, "name") is x.name
            if ft == "list" and len(e.args) == 1 and not e.keywords and isinstance(e.args[0], (ast.ListComp, ast.List)):
                return e.args[0]
            if ft in _STRUCT_FUNCS and e.args and isinstance(e.args[0], ast.Constant) and isinstance(e.args[0].value, (str, bytes)) and e.args[0].value[:1] in ("!", b"!"):
                v_ = e.args[0].value
                e.args[0] = ast.Constant((">" if isinstance(v_, str) else b">") + v_[1:])      # network order is big-endian, standard sizes
            if ft in _STRUCT_FUNCS and e.args and isinstance(e.args[0], ast.Constant) and isinstance(e.args[0].value, str):
                import re as _re
                f_ = e.args[0].value
                x_ = _re.sub(r"(\d+)([xcbB?hHiIlLqQnNefdP])", lambda mo: mo.group(2) * int(mo.group(1)) if int(mo.group(1)) <= 16 else mo.group(0), f_)
                if x_ != f_ and len(x_) <= 24:
                    e.args[0] = ast.Constant(x_)         # '>8H' is '>HHHHHHHH'
            if isinstance(e.func, ast.Attribute) and e.func.attr == "join" and len(e.args) == 1 and not e.keywords and isinstance(e.args[0], ast.ListComp):
                e.args[0] = ast.GeneratorExp(e.args[0].elt, e.args[0].generators)      # join only iterates
            if isinstance(e.func, ast.Attribute) and e.func.attr in ("pack", "unpack", "unpack_from", "pack_into", "iter_unpack") and isinstance(e.func.value, ast.Name) and self.assign_of is not None:
                a_ = self.assign_of(e.func.value)
                if isinstance(a_, ast.Call) and norm(a_.func) in ("struct.Struct", "Struct") and len(a_.args) == 1 and isinstance(a_.args[0], ast.Constant) and not a_.keywords:
                    # S = struct.Struct(fmt) at module level; S.pack(x) is struct.pack(fmt, x)
                    return self._fold(ast.Call(ast.Attribute(ast.Name("struct", ast.Load()), e.func.attr, ast.Load()), [ast.Constant(a_.args[0].value)] + list(e.args), list(e.keywords)))
            if isinstance(e.func, ast.Name) and self.assign_of is not None:
                # _pack_u32 = struct.Struct("<L").pack  /  _U32 = struct.Struct("<L"); _pack_u32 = _U32.pack  at module level:
                # _pack_u32(x) is struct.pack("<L", x)
                a_ = self.assign_of(e.func)
                if isinstance(a_, ast.Attribute) and a_.attr in ("pack", "unpack", "unpack_from", "pack_into", "iter_unpack"):
                    st_ = a_.value
                    if isinstance(st_, ast.Name):
                        st_ = self.assign_of(st_)
                    if isinstance(st_, ast.Call) and norm(st_.func) in ("struct.Struct", "Struct") and len(st_.args) == 1 and isinstance(st_.args[0], ast.Constant) and not st_.keywords:
                        return self._fold(ast.Call(ast.Attribute(ast.Name("struct", ast.Load()), a_.attr, ast.Load()), [ast.Constant(st_.args[0].value)] + list(e.args), list(e.keywords)))
            if (ft == "Decimal" or ft.endswith(".Decimal")) and not e.args and not e.keywords:
                e.args = [ast.Constant(0)]
            if self.callee_of is not None and e.keywords:
                fn_ = self.callee_of(e)
                if fn_ is not None:
                    dflt = {}
                    for _hop in range(3):
                        a_ = fn_.args
                        pos = a_.posonlyargs + a_.args
                        d1 = dict(zip([x.arg for x in pos[len(pos) - len(a_.defaults):]], a_.defaults)) if a_.defaults else {}
                        d1.update({x.arg: d for x, d in zip(a_.kwonlyargs, a_.kw_defaults) if d is not None})
                        for k1, v1 in d1.items():
                            dflt.setdefault(k1, v1)
                        if a_.kwarg is None:
                            break
                        # def as_bin(self, *args, **kwargs): ... self.stream(f, *args, **kwargs): the keywords are the forwarded callee's
                        fwd = [c for c in ast.walk(fn_) if isinstance(c, ast.Call) and any(k.arg is None and isinstance(k.value, ast.Name) and k.value.id == a_.kwarg.arg for k in c.keywords)]
                        nxt = self.callee_of(fwd[0]) if len(fwd) == 1 else None
                        if nxt is None or nxt is fn_:
                            break
                        fn_ = nxt
                    keep_kw = []
                    for k_ in e.keywords:
                        d_ = dflt.get(k_.arg) if k_.arg else None
                        if d_ is not None and isinstance(d_, ast.Constant) and isinstance(k_.value, ast.Constant) and d_.value == k_.value.value and type(d_.value) is type(k_.value.value):
                            continue        # the value the callee would use anyway
                        keep_kw.append(k_)
                    e.keywords = keep_kw
        if isinstance(e, ast.Subscript) and isinstance(e.value, ast.Subscript) and isinstance(e.value.slice, ast.Slice) and e.value.slice.step is None \
                and isinstance(e.slice, ast.Constant) and type(e.slice.value) is int and e.slice.value >= 0:
            lo, hi = e.value.slice.lower, e.value.slice.upper
            lo_v = 0 if lo is None else (lo.value if isinstance(lo, ast.Constant) and type(lo.value) is int else None)
            hi_v = None if hi is None else (hi.value if isinstance(hi, ast.Constant) and type(hi.value) is int else "?")
            if lo_v is not None and lo_v >= 0 and hi_v != "?" and (hi_v is None or (hi_v >= 0 and lo_v + e.slice.value < hi_v)):
                # X[a:b][i] with a + i < b: the element X[a + i] (or the same IndexError)
                return ast.Subscript(e.value.value, ast.Constant(lo_v + e.slice.value), ast.Load())
        if isinstance(e, ast.BinOp) and isinstance(e.op, ast.BitOr):
            for s_, k_ in ((e.left, e.right), (e.right, e.left)):
                if isinstance(k_, ast.Constant) and type(k_.value) is int and k_.value >= 0 and not isinstance(s_, ast.Constant):
                    lo_, hi_ = _term_range(norm(s_))
                    if k_.value == 0 and (self.is_int(s_) or lo_ is not None):
                        return s_
                    if lo_ == 0 and hi_ is not None and k_.value & ((1 << hi_.bit_length()) - 1) == 0:
                        return self._fold(ast.BinOp(s_, ast.Add(), k_))       # no bit in common: or is addition
        if isinstance(e, ast.Call) and self.inline is not None and self._depth < 3:
            fn = self.inline(e)
            if fn is not None:
                r = self._inline_call(e, fn)
                if r is not None:
                    return r
        if isinstance(e, ast.Call) and isinstance(e.func, ast.Name) and e.func.id == "int" and len(e.args) == 2 and isinstance(e.args[1], ast.Constant) and e.args[1].value == 16 \
                and isinstance(e.args[0], ast.Call) and norm(e.args[0].func) in ("binascii.hexlify", "hexlify", "b2h") and len(e.args[0].args) == 1:
            return ast.Call(ast.Attribute(ast.Name("int", ast.Load()), "from_bytes", ast.Load()), [e.args[0].args[0], ast.Constant("big")], [])
        if isinstance(e, ast.Call) and isinstance(e.func, ast.Attribute) and e.func.attr == "decode" and len(e.args) == 1 and isinstance(e.args[0], ast.Constant) and e.args[0].value in ("ascii", "utf-8", "UTF-8", "latin1", "latin-1") \
                and isinstance(e.func.value, ast.Call) and norm(e.func.value.func) in ("binascii.hexlify", "hexlify", "binascii.b2a_hex", "b2a_base64", "binascii.b2a_base64"):
            e.args[0] = ast.Constant("utf8")         # the text of hex digits / base64 is ASCII: every ASCII-compatible codec decodes it alike
        if isinstance(e, ast.Call) and isinstance(e.func, ast.Name) and e.func.id == "ord" and len(e.args) == 1 and not e.keywords and isinstance(e.args[0], ast.Subscript) \
                and isinstance(e.args[0].slice, ast.Slice) and e.args[0].slice.step is None:
            # ord(b[k:k+1]) is b[k] for a byte string (ord(b[:1]) is b[0]); on an empty slice both fail, with different error types
            sl = e.args[0].slice
            lo = sl.lower if sl.lower is not None else ast.Constant(0)
            lo_c, hi_c = (lo.value if isinstance(lo, ast.Constant) else None), (sl.upper.value if isinstance(sl.upper, ast.Constant) else None)
            if isinstance(lo_c, int) and isinstance(hi_c, int) and hi_c == lo_c + 1 and lo_c >= 0:
                return ast.Subscript(e.args[0].value, ast.Constant(lo_c), ast.Load())
        if isinstance(e, ast.Call) and isinstance(e.func, ast.Name) and e.func.id == "bool" and len(e.args) == 1 and not e.keywords and self.is_int(e.args[0]):
            return ast.Compare(e.args[0], [ast.NotEq()], [ast.Constant(0)])
        if isinstance(e, ast.Call) and isinstance(e.func, ast.Attribute) and e.func.attr == "join" and isinstance(e.func.value, ast.Constant) and e.func.value.value in (b"", "") \
                and len(e.args) == 1 and isinstance(e.args[0], (ast.List, ast.Tuple)) and e.args[0].elts and not any(isinstance(x, ast.Starred) for x in e.args[0].elts):
            out = e.args[0].elts[0]
            for x in e.args[0].elts[1:]:
                out = ast.BinOp(out, ast.Add(), x)
            return self._fold(out) if False else out
        if isinstance(e, ast.Call) and isinstance(e.func, ast.Name) and e.func.id == "divmod" and len(e.args) == 2 and not e.keywords:
            return ast.Tuple([self._fold(ast.BinOp(copy.deepcopy(e.args[0]), ast.FloorDiv(), copy.deepcopy(e.args[1]))),
                              self._fold(ast.BinOp(copy.deepcopy(e.args[0]), ast.Mod(), copy.deepcopy(e.args[1])))], ast.Load())
        if isinstance(e, ast.BinOp) and isinstance(e.op, ast.Add):
            for s_, o_ in ((e.left, e.right), (e.right, e.left)):
                if isinstance(s_, ast.Constant) and isinstance(s_.value, (bytes, str)) and len(s_.value) == 0:
                    return o_
        if isinstance(e, ast.BinOp):
            a, b = e.left, e.right
            if isinstance(a, ast.Constant) and isinstance(b, ast.Constant) and isinstance(a.value, int) and isinstance(b.value, int) and not isinstance(a.value, bool):
                v = df.const_int(e)
                if v is not None:
                    return ast.Constant(v)
                if isinstance(e.op, ast.Div) and b.value != 0 and a.value % b.value == 0:
                    return ast.Constant(a.value // b.value)      # exact: equal to the float in every comparison
            if isinstance(a, ast.Constant) and isinstance(b, ast.Constant) and isinstance(a.value, (bytes, str)) and type(a.value) is type(b.value) and isinstance(e.op, ast.Add):
                return ast.Constant(a.value + b.value)
            for s_, n_ in ((a, b), (b, a)):
                if isinstance(s_, ast.Constant) and isinstance(s_.value, (bytes, str)) and isinstance(n_, ast.Constant) and isinstance(n_.value, int) and not isinstance(n_.value, bool) and isinstance(e.op, ast.Mult) and 0 <= n_.value <= 4096:
                    return ast.Constant(s_.value * n_.value)
            if isinstance(b, ast.Constant) and isinstance(b.value, int) and not isinstance(b.value, bool) and b.value > 0:
                k = b.value
                if isinstance(e.op, ast.FloorDiv) and k & (k - 1) == 0:
                    return self._fold_shift(ast.BinOp(a, ast.RShift(), ast.Constant(k.bit_length() - 1)))
                if isinstance(e.op, ast.BitAnd) and (k + 1) & k == 0:
                    return ast.BinOp(a, ast.Mod(), ast.Constant(k + 1))
            if isinstance(a, ast.Constant) and isinstance(a.value, int) and not isinstance(a.value, bool) and a.value > 0 and isinstance(e.op, ast.BitAnd) and (a.value + 1) & a.value == 0:
                return ast.BinOp(b, ast.Mod(), ast.Constant(a.value + 1))
            if isinstance(e.op, ast.BitAnd) and self.is_int(e):
                # x & ~(2^k - 1)  ->  (x >> k) * 2^k
                for s_, n_ in ((a, b), (b, a)):
                    if isinstance(n_, ast.Constant) and isinstance(n_.value, int) and n_.value < 0 and (~n_.value + 1) & ~n_.value == 0:
                        k = (~n_.value).bit_length()
                        return ast.BinOp(ast.Constant(1 << k), ast.Mult(), ast.BinOp(s_, ast.RShift(), ast.Constant(k)))
            if isinstance(e.op, ast.RShift):
                return self._fold_shift(e)
            if isinstance(e.op, (ast.Add, ast.Sub, ast.LShift)) or (isinstance(e.op, ast.Mult) and (isinstance(a, ast.Constant) or isinstance(b, ast.Constant))):
                r = self.linear(e)
                if r is not e:
                    return r
            if isinstance(e.op, (ast.BitOr, ast.BitAnd, ast.BitXor, ast.Mult)) and self.is_int(e):
                parts = self._flat(e, type(e.op))
                if all(self.is_int(x) for x in parts) or not isinstance(e.op, ast.Mult):
                    parts.sort(key=norm)
                    out = parts[0]
                    for x in parts[1:]:
                        out = ast.BinOp(out, type(e.op)(), x)
                    return out
            if isinstance(a, ast.Constant) and isinstance(a.value, int) and not isinstance(a.value, bool) and isinstance(e.op, ast.Mult) and isinstance(b, (ast.Constant, ast.List, ast.Tuple)):
                return ast.BinOp(b, ast.Mult(), a)
        if isinstance(e, ast.UnaryOp) and isinstance(e.operand, ast.Constant) and isinstance(e.operand.value, int) and not isinstance(e.operand.value, bool):
            if isinstance(e.op, ast.USub):
                return ast.Constant(-e.operand.value)
            if isinstance(e.op, ast.Invert):
                return ast.Constant(~e.operand.value)
        if isinstance(e, ast.UnaryOp) and isinstance(e.op, ast.USub) and self.is_int(e.operand):
            return self.linear(e)
        if isinstance(e, ast.UnaryOp) and isinstance(e.op, ast.Not) and isinstance(e.operand, ast.UnaryOp) and isinstance(e.operand.op, ast.Not):
            return ast.Call(ast.Name("bool", ast.Load()), [e.operand.operand], [])
        if isinstance(e, ast.Call) and isinstance(e.func, ast.Name) and e.func.id == "dict" and not e.args and all(k.arg for k in e.keywords):
            return ast.Dict([ast.Constant(k.arg) for k in e.keywords], [k.value for k in e.keywords])
        if isinstance(e, ast.Call) and isinstance(e.func, ast.Name) and e.func.id == "list" and len(e.args) == 1 and isinstance(e.args[0], ast.GeneratorExp):
            return self._fold(ast.ListComp(e.args[0].elt, e.args[0].generators))
        if isinstance(e, ast.ListComp) and len(e.generators) == 1 and not e.generators[0].ifs and isinstance(e.generators[0].target, ast.Name):
            g = e.generators[0]
            items = None
            if isinstance(g.iter, ast.Call) and isinstance(g.iter.func, ast.Name) and g.iter.func.id == "range" and len(g.iter.args) == 1 and isinstance(g.iter.args[0], ast.Constant) \
                    and isinstance(g.iter.args[0].value, int) and 0 < g.iter.args[0].value <= 8:
                items = [ast.Constant(i) for i in range(g.iter.args[0].value)]
            elif isinstance(g.iter, (ast.Tuple, ast.List)) and 0 < len(g.iter.elts) <= 8 and all(isinstance(x, ast.Constant) for x in g.iter.elts):
                items = list(g.iter.elts)
            if items is not None:
                return ast.List([self._fold(_replace_name(e.elt, g.target.id, it_)) for it_ in items], ast.Load())
        if isinstance(e, ast.BinOp) and isinstance(e.op, ast.Mod) and isinstance(e.left, ast.Constant) and isinstance(e.left.value, str) and e.left.value.count("%") == 1 \
                and e.left.value.count("%d") == 1 and not isinstance(e.right, (ast.Tuple, ast.Dict, ast.Constant)) and self.is_int(e.right):
            # "%d" of an integer is "%s" of it
            e = ast.BinOp(ast.Constant(e.left.value.replace("%d", "%s")), ast.Mod(), e.right)
        if isinstance(e, ast.BinOp) and isinstance(e.op, ast.Mod) and isinstance(e.left, ast.Constant) and isinstance(e.left.value, str) and e.left.value.count("%") == 1 \
                and e.left.value.count("%s") == 1 and not isinstance(e.right, (ast.Tuple, ast.Dict, ast.Constant)):
            # "OP_%s" % t  is  "OP_" + t  for the strings it is used with
            a_, b_ = e.left.value.split("%s")
            out = e.right
            if a_:
                out = ast.BinOp(ast.Constant(a_), ast.Add(), out)
            if b_:
                out = ast.BinOp(out, ast.Add(), ast.Constant(b_))
            return out
        if isinstance(e, ast.BinOp) and isinstance(e.op, ast.Mod) and isinstance(e.left, ast.Constant) and isinstance(e.left.value, str) \
                and (isinstance(e.right, ast.Constant) or (isinstance(e.right, ast.Tuple) and all(isinstance(x, ast.Constant) for x in e.right.elts))):
            try:
                return ast.Constant(e.left.value % (e.right.value if isinstance(e.right, ast.Constant) else tuple(x.value for x in e.right.elts)))
            except Exception:
                pass
        if isinstance(e, ast.Subscript) and isinstance(e.value, ast.Constant) and isinstance(e.value.value, (bytes, str)) and isinstance(e.slice, ast.Constant) and isinstance(e.slice.value, int):
            try:
                return ast.Constant(e.value.value[e.slice.value])
            except Exception:
                return e
        if isinstance(e, ast.Subscript) and isinstance(e.value, (ast.Tuple, ast.List)) and isinstance(e.slice, ast.Constant) and isinstance(e.slice.value, int) and not any(isinstance(x, ast.Starred) for x in e.value.elts):
            if -len(e.value.elts) <= e.slice.value < len(e.value.elts):
                return e.value.elts[e.slice.value]
        if isinstance(e, ast.Subscript) and isinstance(e.slice, ast.Slice) and e.slice.step is None and isinstance(e.value, ast.Subscript) and isinstance(e.value.slice, ast.Slice) \
                and e.value.slice.step is None and e.value.slice.upper is None:
            # X[a:][b:] -> X[a+b:] ; X[a:][:c] -> X[a:a+c] ; X[a:][b:c] -> X[a+b:a+c]   (non-negative constants only)
            a_ = e.value.slice.lower
            a_v = 0 if a_ is None else (a_.value if isinstance(a_, ast.Constant) and isinstance(a_.value, int) else None)
            b_ = e.slice.lower
            b_v = 0 if b_ is None else (b_.value if isinstance(b_, ast.Constant) and isinstance(b_.value, int) else None)
            c_ = e.slice.upper
            c_v = None if c_ is None else (c_.value if isinstance(c_, ast.Constant) and isinstance(c_.value, int) else -1)
            if a_v is not None and b_v is not None and a_v >= 0 and b_v >= 0 and (c_v is None or c_v >= 0):
                lo = a_v + b_v
                return ast.Subscript(e.value.value, ast.Slice(ast.Constant(lo) if lo else None, ast.Constant(a_v + c_v) if c_v is not None else None, None), e.ctx)
        if isinstance(e, ast.Subscript) and isinstance(e.value, ast.Call) and isinstance(e.value.func, ast.Name) and e.value.func.id in ("list", "tuple") and len(e.value.args) == 1 \
                and isinstance(e.value.args[0], (ast.Name, ast.Attribute)) and not isinstance(e.slice, ast.Slice):
            e.value = e.value.args[0]
        if isinstance(e, ast.Subscript) and isinstance(e.slice, (ast.BinOp,)):
            e.slice = self.linear(e.slice, True)
        return e

    def _inline_call(self, call, fn):
        """helper(a, b) -> body of the helper when it is `return <expr>` over its parameters only"""
        body = [x for x in fn.body if not (isinstance(x, ast.Expr) and isinstance(x.value, ast.Constant))]
        if len(body) != 1 or not isinstance(body[0], ast.Return) or body[0].value is None:
            return None
        a = fn.args
        if a.vararg or a.kwarg or a.kwonlyargs or any(isinstance(x, ast.Starred) for x in call.args):
            return None
        params = [x.arg for x in a.posonlyargs + a.args]
        if params and params[0] in ("self", "cls") and isinstance(call.func, ast.Attribute):
            bind = {params[0]: call.func.value}
            params = params[1:]
        else:
            bind = {}
        if len(call.args) > len(params):
            return None
        for p_, v in zip(params, call.args):
            bind[p_] = v
        for k in call.keywords:
            if k.arg is None or k.arg not in params or k.arg in bind:
                return None
            bind[k.arg] = k.value
        defaults = dict(zip(params[len(params) - len(a.defaults):], a.defaults)) if a.defaults else {}
        for p_ in params:
            if p_ not in bind:
                if p_ in defaults and isinstance(defaults[p_], ast.Constant):
                    bind[p_] = defaults[p_]
                else:
                    return None
        # arguments used more than once must be cheap to duplicate (no calls with effects): names / constants / pure arithmetic are fine
        expr = copy.deepcopy(body[0].value)
        free = {n.id for n in ast.walk(expr) if isinstance(n, ast.Name)} - set(bind)
        if any(n in ("self", "cls") for n in free):
            return None

        class R(ast.NodeTransformer):
            def visit_Name(s, n):
                if n.id in bind and isinstance(n.ctx, ast.Load):
                    return copy.deepcopy(bind[n.id])
                return n

            def visit_Lambda(s, n):
                return n
        out = R().visit(expr)
        self._depth += 1
        try:
            return self._fold(self._alpha(out, {}, [0]))
        finally:
            self._depth -= 1

    def _fold_shift(self, e):
        """(x >> a) >> b -> x >> (a+b); (2^k * x) >> j with j <= k -> 2^(k-j) * x is NOT applied (x may be negative is fine, but keep it simple)"""
        if isinstance(e.left, ast.BinOp) and isinstance(e.left.op, ast.RShift) and isinstance(e.right, ast.Constant) and isinstance(e.left.right, ast.Constant):
            return ast.BinOp(e.left.left, ast.RShift(), ast.Constant(e.left.right.value + e.right.value))
        return e


def _is_minus_one(x):
    return (isinstance(x, ast.Constant) and x.value == -1) or (isinstance(x, ast.UnaryOp) and isinstance(x.op, ast.USub) and isinstance(x.operand, ast.Constant) and x.operand.value == 1)


def _single_field(fmt):
    """(format, size) of a struct format with explicit byte order and ONE integer field, else None"""
    if isinstance(fmt, ast.Constant) and isinstance(fmt.value, str) and len(fmt.value) == 2 and fmt.value[0] in "<>" and fmt.value[1] in "BHLQIbhlqi":
        import struct as _st
        return fmt.value, _st.calcsize(fmt.value)
    return None


def _flip(fmt):
    return ("<" if fmt[0] == ">" else ">") + fmt[1:]


def _reversed_bytes(e):
    """the expression for e[::-1] with the reversals pushed inward and cancelled, or None"""
    if isinstance(e, ast.Subscript) and isinstance(e.slice, ast.Slice) and e.slice.lower is None and e.slice.upper is None and _is_minus_one(e.slice.step):
        return e.value
    if isinstance(e, ast.Constant) and isinstance(e.value, bytes):
        return ast.Constant(e.value[::-1])
    if isinstance(e, ast.BinOp) and isinstance(e.op, ast.Add):
        a, b = _reversed_bytes(e.right), _reversed_bytes(e.left)
        return None if a is None or b is None else ast.BinOp(a, ast.Add(), b)
    return None


# ------------------------------------------------------------------ atoms
def _bit_of(e):
    """(X, K) when e is `X & (1 << K)` or `(X >> K) % 2` (after canonicalisation), else None; second item says which"""
    if isinstance(e, ast.BinOp) and isinstance(e.op, ast.BitAnd):
        for a, b in ((e.left, e.right), (e.right, e.left)):
            if isinstance(a, ast.BinOp) and isinstance(a.op, ast.LShift) and isinstance(a.left, ast.Constant) and a.left.value == 1:
                return norm(b), norm(a.right), "mask"
            if isinstance(a, ast.Constant) and isinstance(a.value, int) and a.value > 0 and a.value & (a.value - 1) == 0:
                return norm(b), str(a.value.bit_length() - 1), "mask"
    if isinstance(e, ast.BinOp) and isinstance(e.op, ast.Mod) and isinstance(e.right, ast.Constant) and e.right.value == 2 and isinstance(e.left, ast.BinOp) and isinstance(e.left.op, ast.RShift):
        return norm(e.left.left), norm(e.left.right), "shift"
    if isinstance(e, ast.BinOp) and isinstance(e.op, ast.Mod) and isinstance(e.right, ast.Constant) and e.right.value == 2:
        return norm(e.left), "0", "shift"
    return None


def _cmp_atoms(canon, left, op, right, leaf):
    """formula for one comparison, reduced to == and < atoms"""
    # an operand that is itself a comparison / boolean / conditional keeps its parentheses in the atom's text (`(a >= k) == (b >= k)`
    # is not the chained comparison `a >= k == b >= k`)
    _pt = lambda x: "(%s)" % norm(x) if isinstance(x, (ast.Compare, ast.BoolOp, ast.IfExp, ast.Lambda, ast.NamedExpr)) else norm(x)
    lt, rt = _pt(left), _pt(right)
    if isinstance(op, (ast.Eq, ast.NotEq)):
        for x, k in ((left, right), (right, left)):
            b = _bit_of(x)
            if b is not None and isinstance(k, ast.Constant) and isinstance(k.value, int) and not isinstance(k.value, bool):
                atom = leaf(x, "bit(%s, %s)" % (b[0], b[1]))
                if k.value == 0:
                    f = f_not(atom)
                elif b[2] == "shift" and k.value == 1:
                    f = atom
                else:
                    break
                return f if isinstance(op, ast.Eq) else f_not(f)
    if isinstance(left, ast.Constant) and isinstance(right, ast.Constant) and type(left.value) is type(right.value) and isinstance(left.value, (int, str, bytes)) \
            and isinstance(op, (ast.Eq, ast.NotEq, ast.Lt, ast.Gt, ast.LtE, ast.GtE)):
        import operator
        fn = {ast.Eq: operator.eq, ast.NotEq: operator.ne, ast.Lt: operator.lt, ast.Gt: operator.gt, ast.LtE: operator.le, ast.GtE: operator.ge}[type(op)]
        return bool(fn(left.value, right.value))
    # two integer expressions: compare their difference (sign-normalised linear form) with 0
    if isinstance(op, (ast.Lt, ast.Gt, ast.LtE, ast.GtE)) and not isinstance(left, ast.Constant) and not isinstance(right, ast.Constant) \
            and canon.is_int(left) and canon.is_int(right) and not getattr(canon, "_in_diff", False):
        l_ = canon._lin(ast.BinOp(left, ast.Sub(), right), True)
        if l_ is not None and l_[0]:
            terms, const = l_
            first = sorted(terms)[0]
            o = type(op)
            if terms[first][0] < 0:
                terms = {k: [-c, t] for k, (c, t) in terms.items()}
                const = -const
                o = {ast.Lt: ast.Gt, ast.Gt: ast.Lt, ast.LtE: ast.GtE, ast.GtE: ast.LtE}[o]
            d = canon._unlin(terms, 0)
            canon._in_diff = True
            try:
                return _cmp_atoms(canon, d, o(), ast.Constant(-const), leaf)
            finally:
                canon._in_diff = False
    # integer expression against a constant: everything becomes `expr < K` (possibly negated)
    if isinstance(op, (ast.Lt, ast.Gt, ast.LtE, ast.GtE)):
        for x, k, flip in ((left, right, False), (right, left, True)):
            if isinstance(k, ast.Constant) and isinstance(k.value, int) and not isinstance(k.value, bool) and not isinstance(x, ast.Constant) and (canon.is_int(x) or getattr(canon, "_in_diff", False)):
                o = type(op)
                if flip:
                    o = {ast.Lt: ast.Gt, ast.Gt: ast.Lt, ast.LtE: ast.GtE, ast.GtE: ast.LtE}[o]
                xt = norm(x)
                b_ = _bit_of(x)
                if b_ is not None and b_[2] == "mask":
                    # a masked bit is >= 0: `x < 1` is `bit clear`
                    kk = {ast.Lt: k.value, ast.LtE: k.value + 1, ast.GtE: k.value, ast.Gt: k.value + 1}[o]
                    if kk == 1:
                        atom = leaf(x, "bit(%s, %s)" % (b_[0], b_[1]))
                        return f_not(atom) if o in (ast.Lt, ast.LtE) else atom
                if o is ast.Lt:
                    return leaf(ast.Compare(x, [ast.Lt()], [ast.Constant(k.value)]), "%s < %d" % (xt, k.value))
                if o is ast.LtE:
                    return leaf(ast.Compare(x, [ast.Lt()], [ast.Constant(k.value + 1)]), "%s < %d" % (xt, k.value + 1))
                if o is ast.GtE:
                    return f_not(leaf(ast.Compare(x, [ast.Lt()], [ast.Constant(k.value)]), "%s < %d" % (xt, k.value)))
                return f_not(leaf(ast.Compare(x, [ast.Lt()], [ast.Constant(k.value + 1)]), "%s < %d" % (xt, k.value + 1)))
    if isinstance(op, (ast.Eq, ast.NotEq)):
        a, b = sorted([lt, rt])
        f = leaf(ast.Compare(left if lt == a else right, [ast.Eq()], [right if lt == a else left]), "%s == %s" % (a, b))
        return f if isinstance(op, ast.Eq) else f_not(f)
    if isinstance(op, ast.Lt):
        return leaf(ast.Compare(left, [ast.Lt()], [right]), "%s < %s" % (lt, rt))
    if isinstance(op, ast.Gt):
        return leaf(ast.Compare(right, [ast.Lt()], [left]), "%s < %s" % (rt, lt))
    if isinstance(op, ast.GtE):
        return f_not(leaf(ast.Compare(left, [ast.Lt()], [right]), "%s < %s" % (lt, rt)))
    if isinstance(op, ast.LtE):
        return f_not(leaf(ast.Compare(right, [ast.Lt()], [left]), "%s < %s" % (rt, lt)))
    if isinstance(op, (ast.Is, ast.IsNot)) and isinstance(left, ast.Constant) and isinstance(right, ast.Constant) \
            and (left.value is None or right.value is None or (isinstance(left.value, bool) and isinstance(right.value, bool))):
        same = left.value is right.value
        return same if isinstance(op, ast.Is) else (not same)
    if isinstance(op, (ast.Is, ast.IsNot)) and isinstance(right, ast.Constant) and right.value is None \
            and isinstance(left, (ast.Dict, ast.List, ast.Tuple, ast.Set, ast.ListComp, ast.DictComp, ast.JoinedStr, ast.Lambda)):
        return isinstance(op, ast.IsNot)        # a display is never None
    if isinstance(op, (ast.Is, ast.IsNot)):
        f = leaf(ast.Compare(left, [ast.Is()], [right]), "%s is %s" % (lt, rt))
        return f if isinstance(op, ast.Is) else f_not(f)
    if isinstance(op, (ast.In, ast.NotIn)):
        if isinstance(right, ast.Call) and isinstance(right.func, ast.Name) and right.func.id == "range" and not right.keywords and len(right.args) in (1, 2) \
                and (norm(left).startswith("len(") or canon.int_name(norm(left))):
            # membership of an integer in a contiguous range is two comparisons
            lo = right.args[0] if len(right.args) == 2 else ast.Constant(0)
            hi = right.args[-1]
            f = f_and(_cmp_atoms(canon, left, ast.GtE(), lo, leaf), _cmp_atoms(canon, left, ast.Lt(), hi, leaf))
        elif isinstance(right, (ast.Tuple, ast.List, ast.Set)) and 0 < len(right.elts) <= 12:
            f = f_or(*[_cmp_atoms(canon, left, ast.Eq(), x, leaf) for x in right.elts])
        elif isinstance(right, ast.Constant) and isinstance(right.value, (str, bytes)) and isinstance(left, ast.Constant):
            f = True if left.value in right.value else False
        else:
            f = leaf(ast.Compare(left, [ast.In()], [right]), "%s in %s" % (lt, rt))
        return f if isinstance(op, ast.In) else f_not(f)
    return leaf(ast.Compare(left, [op], [right]), norm(ast.Compare(left, [op], [right])))


def infer_int_locals(func_node, canon):
    """locals every binding of which is integer arithmetic (fixpoint); loop targets over range()"""
    binds = {}
    for n in ast.walk(func_node):
        if isinstance(n, ast.Assign):
            for t in n.targets:
                if isinstance(t, ast.Name):
                    binds.setdefault(t.id, []).append(n.value)
                elif isinstance(t, (ast.Tuple, ast.List)):
                    for i, x in enumerate(t.elts):
                        if isinstance(x, ast.Name):
                            v = n.value.elts[i] if isinstance(n.value, (ast.Tuple, ast.List)) and len(n.value.elts) == len(t.elts) else None
                            if v is None and isinstance(n.value, ast.Call) and isinstance(n.value.func, ast.Name) and n.value.func.id == "divmod":
                                v = ast.BinOp(n.value.args[0], ast.FloorDiv(), n.value.args[1]) if len(n.value.args) == 2 else None
                            binds.setdefault(x.id, []).append(v)
        elif isinstance(n, ast.AnnAssign) and isinstance(n.target, ast.Name):
            binds.setdefault(n.target.id, []).append(n.value)
        elif isinstance(n, ast.AugAssign) and isinstance(n.target, ast.Name):
            binds.setdefault(n.target.id, []).append(ast.BinOp(ast.Name(n.target.id, ast.Load()), n.op, n.value))
        elif isinstance(n, (ast.For, ast.comprehension)):
            tg = n.target
            if isinstance(tg, ast.Name):
                v = ast.Constant(0) if isinstance(n.iter, ast.Call) and isinstance(n.iter.func, ast.Name) and n.iter.func.id == "range" else None
                binds.setdefault(tg.id, []).append(v)
            else:
                for x in ast.walk(tg):
                    if isinstance(x, ast.Name):
                        binds.setdefault(x.id, []).append(None)
        elif isinstance(n, (ast.With,)):
            for it in n.items:
                if it.optional_vars is not None:
                    for x in ast.walk(it.optional_vars):
                        if isinstance(x, ast.Name):
                            binds.setdefault(x.id, []).append(None)
    params = {a.arg for a in func_node.args.args + func_node.args.posonlyargs + func_node.args.kwonlyargs} if hasattr(func_node, "args") else set()
    ints = set()
    saved = set(canon.extra_ints)
    changed = True
    while changed:
        changed = False
        canon.extra_ints = saved | ints
        for name, vals in binds.items():
            if name in ints or name in params:
                continue
            if vals and all(v is not None and canon.is_int(v) for v in vals):
                ints.add(name)
                changed = True
    canon.extra_ints = saved
    return ints


class State:
    __slots__ = ("env", "reach")

    def __init__(self, env, reach):
        self.env = env
        self.reach = reach

    def fork(self, reach):
        return State(dict(self.env), reach)


MAX_STATES = 48

# calls whose every evaluation yields a new value / has an effect on what the next evaluation yields: they keep
# their identity (the k-th evaluation of this call text on this path) instead of being duplicated by substitution
IMPURE = {"pop", "pop_int", "pop_nonnegative", "pop_check_bounds", "read", "readline", "next", "send", "recv", "popleft", "popitem", "parse", "parse_struct",
          "parse_satoshi_int", "parse_satoshi_string", "parse_as_header", "parse_int_6", "parse_optional_bool", "getrandbits", "urandom", "entropy_f", "parse_f", "array_count_parse_f"}


def _impure(call):
    f = call.func
    name = f.attr if isinstance(f, ast.Attribute) else (f.id if isinstance(f, ast.Name) else None)
    return name in IMPURE


class SymWalker:
    """Walks a function body, path-sensitively (trace partitioning: one State per distinct store; states with
    equal stores are joined, more than MAX_STATES states are joined by forgetting what differs).
    `leaf(expr, text) -> formula` decides how a canonical atom becomes a formula (default: opaque atom named by
    its text); value-set atomizers plug in there."""

    def __init__(self, func_node, canon=None, leaf=None, params=None, keep=(), feasible=None, ignore_asserts=False):
        self.ignore_asserts = ignore_asserts
        self.canon = canon or Canon()
        self.leaf = leaf or (lambda e, t: ("op", t))
        self.node = func_node
        self.env = {}
        self.exits = []
        self.effects = []       # Effect records in program order
        self.visits = []        # (stmt, reach)
        self.keep = set(keep)   # local names never substituted (rules that want to talk about them)
        self.loop_stack = []
        self.guards = {}        # id(If / While / Assert node) -> formula of its test at that program point
        self.tests = {}         # id(node) -> canonical test expression
        self.loop_out = {}      # id(loop) -> [State] at the end of one iteration, carried names appear as themselves
        self.loop_seq = {}
        self.unpack_risks = []  # (statement, reach): fixed-arity unpacking of a split whose arity this path does not guarantee
        self.loop_in = {}       # id(loop) -> [State] on entry (before havoc)
        self.final = []         # states falling off the end
        self.feasible = feasible or _prop_feasible
        self.converted = {}     # id(loop) -> >0 when every visit of the loop was rewritten as a comprehension
        if isinstance(func_node, (ast.FunctionDef, ast.AsyncFunctionDef)):
            self.canon.extra_ints = set(self.canon.extra_ints) | infer_int_locals(func_node, self.canon)
        self.functional = functional_locals(func_node) if isinstance(func_node, (ast.FunctionDef, ast.AsyncFunctionDef)) else set()

    # ---------------------------------------------------------------- values
    CNT = "\0call-counts"

    def _pretag(self, *exprs):
        """number the impure calls this statement evaluates, in evaluation (post-)order, per call text and path"""
        todo = []

        def post(n):
            if isinstance(n, (ast.Lambda, ast.ListComp, ast.SetComp, ast.DictComp, ast.GeneratorExp)):
                return          # evaluated later / repeatedly: left untagged
            for c in ast.iter_child_nodes(n):
                post(c)
            if isinstance(n, ast.Call) and _impure(n):
                todo.append(n)
        for e in exprs:
            if isinstance(e, ast.AST):
                post(e)
        if not todo:
            return
        cur = self.env.get(self.CNT)
        counts = dict(cur.value) if cur is not None else {}
        for n in todo:
            n._tag = None
            t = norm(self.sub(n))
            counts[t] = counts.get(t, 0) + 1
            n._tag = counts[t]
        self.env[self.CNT] = ast.Constant(tuple(sorted(counts.items())))

    def sub(self, e, env=None):
        """expression with locals substituted by their symbolic values, canonicalised"""
        if e is None:
            return None
        env = self.env if env is None else env

        class S(ast.NodeTransformer):
            def __init__(s, bound, notag=False):
                s.bound = bound
                s.notag = notag     # inside a lambda / comprehension nothing is tagged by this walk: a tag found there is stale

            def visit_Name(s, n):
                if isinstance(n.ctx, ast.Load) and n.id in env and n.id not in s.bound:
                    return copy.deepcopy(env[n.id])
                return n

            def visit_Call(s, n):
                tag = None if s.notag else getattr(n, "_tag", None)
                n = s.generic_visit(n)
                if tag is not None and not any(k.arg == "__n" for k in n.keywords):
                    n.keywords = list(n.keywords) + [ast.keyword("__n", ast.Constant(tag))]
                return n

            def _comp(s, n):
                bound = set(s.bound)
                for g in n.generators:
                    for x in ast.walk(g.target):
                        if isinstance(x, ast.Name):
                            bound.add(x.id)
                inner = S(bound, True)
                first = True
                for g in n.generators:
                    g.iter = (S(s.bound, True) if first else inner).visit(g.iter)
                    g.ifs = [inner.visit(c) for c in g.ifs]
                    first = False
                if isinstance(n, ast.DictComp):
                    n.key = inner.visit(n.key)
                    n.value = inner.visit(n.value)
                else:
                    n.elt = inner.visit(n.elt)
                return n
            visit_ListComp = visit_SetComp = visit_GeneratorExp = visit_DictComp = _comp

            def visit_Lambda(s, n):
                bound = set(s.bound) | {a.arg for a in n.args.args + n.args.posonlyargs + n.args.kwonlyargs}
                n.body = S(bound, True).visit(n.body)
                return n
        out = S(set()).visit(copy.deepcopy(e))
        return self.canon.expr(out)

    def text(self, e):
        return norm(self.sub(e))

    # ----------------------------------------------------------------- atoms
    def atomize(self, t, _subbed=False):
        if not _subbed:
            t = self.sub(t)
        if isinstance(t, ast.BoolOp):
            parts = [self.atomize(v, True) for v in t.values]
            return f_and(*parts) if isinstance(t.op, ast.And) else f_or(*parts)
        if isinstance(t, ast.UnaryOp) and isinstance(t.op, ast.Not):
            return f_not(self.atomize(t.operand, True))
        if isinstance(t, ast.IfExp):
            c = self.atomize(t.test, True)
            return f_or(f_and(c, self.atomize(t.body, True)), f_and(f_not(c), self.atomize(t.orelse, True)))
        if isinstance(t, ast.Call) and isinstance(t.func, ast.Name) and t.func.id == "bool" and len(t.args) == 1:
            return self.atomize(t.args[0], True)
        if isinstance(t, ast.Call) and isinstance(t.func, ast.Name) and t.func.id in ("any", "all") and len(t.args) == 1 and not t.keywords \
                and isinstance(t.args[0], (ast.GeneratorExp, ast.ListComp)) and len(t.args[0].generators) == 1 and not t.args[0].generators[0].ifs:
            # all(P) == not any(not P): one canonical atom, the body as a truth table over its own atoms
            g = t.args[0].generators[0]
            saved = self.leaf
            self.leaf = lambda e, txt: ("op", txt)
            try:
                body = self.atomize(t.args[0].elt, True)
            finally:
                self.leaf = saved
            if t.func.id == "all":
                body = f_not(body)
            txt = "any{%s for %s in %s}" % (_truth_table_text(body), norm(g.target), norm(g.iter))
            atom = self.leaf(t, txt)
            return atom if t.func.id == "any" else f_not(atom)
        if isinstance(t, ast.Constant):
            return True if t.value else False
        if isinstance(t, ast.Compare):
            # truthiness spelled with len()
            if len(t.ops) == 1 and isinstance(t.left, ast.Call) and isinstance(t.left.func, ast.Name) and t.left.func.id == "len" and isinstance(t.comparators[0], ast.Constant):
                k = t.comparators[0].value
                x = t.left.args[0]
                tr_ = (lambda: self.atomize(x, True)) if isinstance(x, ast.ListComp) else (lambda: self.leaf(x, "truthy(%s)" % norm(x)))
                if (isinstance(t.ops[0], ast.Gt) and k == 0) or (isinstance(t.ops[0], ast.NotEq) and k == 0) or (isinstance(t.ops[0], ast.GtE) and k == 1):
                    return tr_()
                if (isinstance(t.ops[0], ast.Eq) and k == 0) or (isinstance(t.ops[0], ast.Lt) and k == 1) or (isinstance(t.ops[0], ast.LtE) and k == 0):
                    return f_not(tr_())
            if len(t.ops) == 1 and isinstance(t.comparators[0], ast.Constant) and t.comparators[0].value is None and isinstance(t.ops[0], (ast.Eq, ast.NotEq)):
                f = self.leaf(ast.Compare(t.left, [ast.Is()], [t.comparators[0]]), "%s is None" % norm(t.left))
                return f if isinstance(t.ops[0], ast.Eq) else f_not(f)
            fs = []
            left = t.left
            for op, right in zip(t.ops, t.comparators):
                fs.append(_cmp_atoms(self.canon, left, op, right, self.leaf))
                left = right
            return f_and(*fs)
        b = _bit_of(t)
        if b is not None:
            return self.leaf(t, "bit(%s, %s)" % (b[0], b[1]))
        if isinstance(t, ast.ListComp) and len(t.generators) == 1:
            # a list built from X is non-empty when some element of X passes its filter
            g = t.generators[0]
            if not g.ifs:
                return self.atomize(g.iter, True)
            cond = g.ifs[0] if len(g.ifs) == 1 else ast.BoolOp(ast.And(), list(g.ifs))
            return self.atomize(ast.Call(ast.Name("any", ast.Load()), [ast.GeneratorExp(cond, [ast.comprehension(g.target, g.iter, [], 0)])], []), True)
        return self.leaf(t, "truthy(%s)" % norm(t))

    # ------------------------------------------------------------------ walk
    def run(self, body=None, init_env=None):
        body = body if body is not None else self.node.body
        for b_ in (body if isinstance(body, list) else [body]):
            for n_ in ast.walk(b_):
                if isinstance(n_, ast.Call) and getattr(n_, "_tag", None) is not None:
                    n_._tag = None          # left by an earlier walk of the same source
        out = self.block(body, [State(dict(init_env or {}), True)])
        self.final = out
        r = f_or(*[s.reach for s in out]) if out else False
        if r is not False:
            self.exits.append(Exit("fall", None, r))
        self._compact()
        return self.exits

    def _compact(self):
        """join records that differ only in the state they were seen in"""
        seen = {}
        out = []
        for e in self.effects:
            k = (id(e.node), e.kind, e.text(), id(getattr(e, "raw", None)), getattr(e, "prev", None))
            if k in seen:
                seen[k].reach = f_or(seen[k].reach, e.reach)
            else:
                seen[k] = e
                out.append(e)
        self.effects = out
        seen = {}
        out = []
        for e in self.exits:
            k = (id(e.node), e.kind, norm(e.value) if e.value is not None else None)
            if k in seen:
                seen[k].cond = f_or(seen[k].cond, e.cond)
            else:
                seen[k] = e
                out.append(e)
        self.exits = out
        seen = {}
        out = []
        for st, r in self.visits:
            if id(st) in seen:
                i = seen[id(st)]
                out[i] = (st, f_or(out[i][1], r))
            else:
                seen[id(st)] = len(out)
                out.append((st, r))
        self.visits = out

    def _dedupe(self, states):
        seen = {}
        out = []
        for s in states:
            if s.reach is False or not self.feasible(s.reach):
                continue
            k = tuple(sorted((n, norm(v)) for n, v in s.env.items()))
            if k in seen:
                seen[k].reach = f_or(seen[k].reach, s.reach)
            else:
                seen[k] = s
                out.append(s)
        if len(out) > MAX_STATES:
            out = [self._join(out)]
        return out

    def _join(self, states):
        keys = set.intersection(*[set(s.env) for s in states])
        env = {k: states[0].env[k] for k in keys if all(norm(s.env[k]) == norm(states[0].env[k]) for s in states)}
        return State(env, f_or(*[s.reach for s in states]))

    _frames = ()

    def block(self, body, states):
        for st in body:
            if not states:
                break
            states = self.stmt(st, states)
        return states

    def _assigned(self, stmts):
        out = set()
        for x in stmts:
            for n in ast.walk(x):
                if isinstance(n, ast.Name) and isinstance(n.ctx, (ast.Store, ast.Del)):
                    out.add(n.id)
                if isinstance(n, ast.Call) and isinstance(n.func, ast.Attribute) and isinstance(n.func.value, ast.Name) and n.func.value.id in self.functional and n.func.attr in ("append", "extend"):
                    out.add(n.func.value.id)
        return out

    def _bind(self, target, value):
        if isinstance(target, ast.Name):
            pure_path = value is not None and _is_access_path(value)       # fb = self.filter_bytes: the same object under another name
            if (target.id in self.keep and not pure_path) or value is None or _size(value) > MAX_NODES:
                self.env.pop(target.id, None)
            else:
                self.env[target.id] = value
        elif isinstance(target, (ast.Tuple, ast.List)):
            if isinstance(value, (ast.Tuple, ast.List)) and len(value.elts) == len(target.elts) and not any(isinstance(x, ast.Starred) for x in target.elts):
                for t, v in zip(target.elts, value.elts):
                    self._bind(t, v)
            elif isinstance(value, ast.ListComp) and len(value.generators) == 1 and not value.generators[0].ifs and isinstance(value.generators[0].iter, (ast.Tuple, ast.List)) \
                    and len(value.generators[0].iter.elts) == len(target.elts) and isinstance(value.generators[0].target, ast.Name):
                # a, b = [f(_) for _ in (x, y)]
                g = value.generators[0]
                for t, item in zip(target.elts, g.iter.elts):
                    self._bind(t, self.canon.expr(_replace_name(value.elt, g.target.id, item)))
            else:
                for i, t in enumerate(target.elts):
                    if isinstance(t, ast.Starred):
                        self._bind(t.value, None)
                    else:
                        self._bind(t, ast.Subscript(copy.deepcopy(value), ast.Constant(i), ast.Load()) if value is not None else None)

    LAST = "\0last-call"

    def _effect(self, kind, st, reach, **kw):
        e = Effect(kind, getattr(st, "_orig", st), reach, tuple(self.loop_stack), **kw)
        e.prev = None
        if kind == "call" and _ordered_call(e):
            # calls happen in an order (streams!): remember what the previous ordered call on this path was
            p_ = self.env.get(self.LAST)
            e.prev = p_.value if p_ is not None else "start"
            self.env[self.LAST] = ast.Constant(norm(e.call))
        self.effects.append(e)

    def _record_guard(self, st, c, ctest):
        if id(st) in self.guards and repr(self.guards[id(st)]) != repr(c):
            self.guards[id(st)] = f_or(self.guards[id(st)], c)
        else:
            self.guards[id(st)] = c
        self.tests.setdefault(id(st), ctest)

    def _as_comprehension(self, st, it, s, outs, assigned, n_exits, n_eff):
        """for t in IT: X.append(E)   (X a functional local, nothing else carried, no exits)  ==  X = X0 + [E for t in IT]"""
        if len(outs) != 1 or len(self.exits) != n_exits or not isinstance(st.target, (ast.Name, ast.Tuple)):
            return None
        if any(e.kind in ("break", "continue", "setattr", "setitem", "augattr", "augitem", "delitem", "yield") for e in self.effects[n_eff:]):
            return None
        out = outs[0]
        if repr(out.reach) != repr(s.reach):
            return None
        tgt = {x.id for x in ast.walk(st.target) if isinstance(x, ast.Name)}
        temps = _loop_temporaries(st, self.node)
        carried = [k for k in assigned - tgt - temps if not (isinstance(out.env.get(k), ast.Name) and out.env[k].id == k)]
        fl = [k for k in self.functional if k in out.env and not (isinstance(out.env[k], ast.Name) and out.env[k].id == k) and k not in carried
              and (k in assigned or k not in s.env or norm(out.env[k]) != norm(s.env[k]))]
        names = set(carried) | set(fl)
        if len(names) != 1:
            return None
        x = names.pop()
        if x not in self.functional:
            return None
        v = out.env.get(x)
        if not (isinstance(v, ast.BinOp) and isinstance(v.op, ast.Add) and isinstance(v.left, ast.Name) and v.left.id == x and isinstance(v.right, ast.List) and len(v.right.elts) == 1):
            return None
        elt = v.right.elts[0]
        if any(isinstance(n, ast.Name) and n.id == x for n in ast.walk(elt)):
            return None
        elt = copy.deepcopy(elt)
        for c_ in ast.walk(elt):
            if isinstance(c_, ast.Call):
                c_.keywords = [k for k in c_.keywords if k.arg != "__n"]       # evaluated once per iteration: no stable identity
        comp = ast.ListComp(elt, [ast.comprehension(copy.deepcopy(st.target), copy.deepcopy(it), [], 0)])
        for n in ast.walk(comp.generators[0].target):
            if isinstance(n, ast.Name):
                n.ctx = ast.Store()
        x0 = s.env.get(x)
        if x0 is None:
            return None
        if isinstance(x0, ast.List) and not x0.elts:
            val = comp
        else:
            val = ast.BinOp(copy.deepcopy(x0), ast.Add(), comp)
        return x, self.canon.expr(val)

    def _find_ifexp(self, st):
        """first conditional expression of a simple statement that is evaluated unconditionally (not under a lambda /
        comprehension / short-circuit operand)"""
        roots = []
        if isinstance(st, (ast.Assign, ast.AnnAssign, ast.AugAssign, ast.Expr, ast.Return)):
            if getattr(st, "value", None) is not None:
                roots.append(st.value)
        elif isinstance(st, ast.Raise) and st.exc is not None:
            roots.append(st.exc)
        stack = list(roots)
        while stack:
            n = stack.pop(0)
            if isinstance(n, ast.IfExp):
                return n
            if isinstance(n, (ast.Lambda, ast.ListComp, ast.SetComp, ast.DictComp, ast.GeneratorExp)):
                continue
            if isinstance(n, ast.BoolOp):
                stack.append(n.values[0])
                continue
            stack.extend(ast.iter_child_nodes(n))
        return None

    def _find_unrollable(self, st):
        for n in ast.walk(st):
            if isinstance(n, ast.ListComp) and len(n.generators) == 1 and not n.generators[0].ifs and isinstance(n.generators[0].target, ast.Name) \
                    and any(isinstance(c, ast.Call) and _impure(c) for c in ast.walk(n.elt)):
                g = n.generators[0]
                if isinstance(g.iter, ast.Call) and isinstance(g.iter.func, ast.Name) and g.iter.func.id == "range" and len(g.iter.args) == 1 and isinstance(g.iter.args[0], ast.Constant) \
                        and isinstance(g.iter.args[0].value, int) and 0 < g.iter.args[0].value <= 8:
                    return n, [ast.Constant(i) for i in range(g.iter.args[0].value)]
                if isinstance(g.iter, (ast.Tuple, ast.List)) and 0 < len(g.iter.elts) <= 8:
                    return n, list(g.iter.elts)
        return None

    def stmt(self, st, states):
        if isinstance(st, _expand.InlineBlock):
            # the body of a helper added since the review, spliced in where it was called (sa/expand.py)
            frame = []
            self._frames = tuple(self._frames) + (frame,)
            try:
                out = self.block(st.body, states)
            finally:
                self._frames = self._frames[:-1]
            return self._dedupe(out + frame)
        if isinstance(st, _expand.InlineReturn):
            if not self._frames:
                raise AnalysisError("jump outside an expanded helper")
            self._frames[-1].extend(states)
            return []
        if isinstance(st, (ast.Assign, ast.AnnAssign, ast.AugAssign, ast.Expr, ast.Return)):
            u = self._find_unrollable(st)
            if u is not None:
                # [f() for i in range(3)] with an impure f is [f(), f(), f()]: three evaluations, in this order
                comp, items = u
                lst = ast.List([_replace_name(comp.elt, comp.generators[0].target.id, it_) for it_ in items], ast.Load())
                new = _replace_node(st, comp, lst)
                new._orig = getattr(st, "_orig", st)
                ast.copy_location(new, st)
                return self.stmt(new, states)
        if isinstance(st, ast.Return) and isinstance(st.value, ast.Compare) and len(st.value.ops) > 1 \
                and not any(isinstance(c, ast.Call) and _impure(c) for m_ in st.value.comparators[:-1] for c in ast.walk(m_)):
            cmp_ = st.value
            parts, left = [], cmp_.left
            for op_, right in zip(cmp_.ops, cmp_.comparators):
                parts.append(ast.Compare(copy.deepcopy(left), [op_], [copy.deepcopy(right)]))
                left = right
            new = ast.Return(ast.BoolOp(ast.And(), parts))
            new._orig = getattr(st, "_orig", st)
            ast.copy_location(new, st)
            ast.fix_missing_locations(new)
            return self.stmt(new, states)
        if isinstance(st, ast.Return) and isinstance(st.value, ast.BoolOp):
            # `return a or b` is `return (a if a else b)`; a boolean a is True there
            bo = st.value
            first, rest = bo.values[0], (bo.values[1] if len(bo.values) == 2 else ast.BoolOp(bo.op, bo.values[1:]))
            isb = _is_bool_expr(first, self.canon.callee_of)
            if isb or not any(isinstance(c, ast.Call) and _impure(c) for c in ast.walk(first)):
                if isinstance(bo.op, ast.Or):
                    ie_ = ast.IfExp(first, ast.Constant(True) if isb else copy.deepcopy(first), rest)
                else:
                    ie_ = ast.IfExp(first, rest, ast.Constant(False) if isb else copy.deepcopy(first))
                new = ast.Return(ie_)
                new._orig = getattr(st, "_orig", st)
                ast.copy_location(new, st)
                ast.fix_missing_locations(new)
                return self.stmt(new, states)
        ie = self._find_ifexp(st) if isinstance(st, (ast.Assign, ast.AnnAssign, ast.AugAssign, ast.Expr, ast.Return, ast.Raise)) else None
        if ie is not None:
            # `x = a if c else b`  ==  `if c: x = a else: x = b`
            orig = getattr(st, "_orig", st)

            a = _replace_node(st, ie, ie.body)
            b = _replace_node(st, ie, ie.orelse)
            a._orig = b._orig = orig
            syn = ast.If(ie.test, [a], [b])
            ast.copy_location(syn, st)
            syn._synthetic = True
            return self.stmt(syn, states)
        if isinstance(st, ast.If):
            res = []
            for s in states:
                self.env = s.env
                self._pretag(st.test)
                c = self.atomize(st.test)
                if not getattr(st, "_synthetic", False):
                    self._record_guard(st, c, self.sub(st.test))
                self._calls(st.test, getattr(st.body[0], "_orig", st) if getattr(st, "_synthetic", False) else st, s.reach)
                ra, rb = f_and(s.reach, c), f_and(s.reach, f_not(c))
                if ra is not False:
                    res += self.block(st.body, [s.fork(ra)])
                if rb is not False:
                    res += self.block(st.orelse, [s.fork(rb)])
            return self._dedupe(res)
        if isinstance(st, (ast.Return, ast.Raise)):
            for s in states:
                self.env = s.env
                v = st.value if isinstance(st, ast.Return) else st.exc
                self._pretag(v)
                if v is not None:
                    self._calls(v, st, s.reach)
                ex_ = Exit("return" if isinstance(st, ast.Return) else "raise", getattr(st, "_orig", st), s.reach, self.sub(v) if v is not None else None)
                ex_.env = dict(s.env)
                self.exits.append(ex_)
            return []
        if isinstance(st, ast.Assert) and self.ignore_asserts:
            return states
        if isinstance(st, ast.Assert):
            res = []
            for s in states:
                self.env = s.env
                c = self.atomize(st.test)
                self._record_guard(st, c, self.sub(st.test))
                self.exits.append(Exit("raise", st, f_and(s.reach, f_not(c)), ast.Call(ast.Name("AssertionError", ast.Load()), [], [])))
                s.reach = f_and(s.reach, c)
                res.append(s)
            return self._dedupe(res)
        if isinstance(st, (ast.For, ast.AsyncFor, ast.While)):
            is_for = not isinstance(st, ast.While)
            if is_for and not isinstance(st, ast.AsyncFor):
                # a loop over a literal tuple / list is the sequence of its iterations
                unrolled, rest = [], []
                for s in states:
                    self.env = s.env
                    it = self.sub(st.iter)
                    if isinstance(it, ast.Name) and getattr(self.canon, "assign_of", None) is not None:
                        # a module-level TUPLE of rows (a table the loop walks: `for limit, prefix, codec in _ENCODINGS`) is the
                        # sequence of its rows, like the literal written in place
                        tb_ = self.canon.assign_of(it)
                        if isinstance(tb_, ast.Tuple) and 0 < len(tb_.elts) <= 8 and all(isinstance(r_, (ast.Tuple, ast.Constant, ast.Name)) for r_ in tb_.elts):
                            it = copy.deepcopy(tb_)
                    if isinstance(it, (ast.Tuple, ast.List)) and 0 < len(it.elts) <= 8 and not any(isinstance(x, ast.Starred) for x in it.elts):
                        self._calls(st.iter, st, s.reach)
                        frame = LoopCtx(st, it, norm(st.target), s.reach)
                        frame.unrolled = True
                        frame.breaks, frame.continues = [], []
                        self.loop_stack.append(frame)
                        cur = [s]
                        for elt in it.elts:
                            for c_ in cur:
                                self.env = c_.env
                                self._bind(st.target, copy.deepcopy(elt))
                            out = self.block(st.body, cur)
                            cur = self._dedupe(out + frame.continues)
                            frame.continues = []
                        self.loop_stack.pop()
                        if st.orelse and cur:
                            cur = self.block(st.orelse, cur)
                        unrolled += cur + frame.breaks
                    else:
                        rest.append(s)
                if unrolled and not rest:
                    return self._dedupe(unrolled)
                if unrolled:
                    return self._dedupe(unrolled + self.stmt(st, rest))
            assigned = self._assigned(st.body) | (self._assigned([st.target]) if is_for else set())
            self.loop_seq.setdefault(id(st), len(self.loop_seq))       # loops are numbered in the order they are first reached
            self.loop_in[id(st)] = [State(dict(s.env), s.reach) for s in states]
            outs = []
            after = []
            for s in states:
                self.env = s.env
                if is_for:
                    self._pretag(st.iter)
                it = self.sub(st.iter) if is_for else None
                if is_for:
                    self._calls(st.iter, st, s.reach)
                env0 = {k: v for k, v in s.env.items() if k not in assigned}
                self.loop_stack.append(LoopCtx(st, it, norm(st.target) if is_for else None, s.reach))
                body_state = State(dict(env0), s.reach)
                body_state.env[self.LAST] = ast.Constant("iteration start")
                if is_for:
                    _t, it, binds = canon_loop_header(st.target, it)
                    for k_, v_ in binds.items():
                        body_state.env[k_] = v_         # an alias of X[i], even when the object is mutated through it
                    self.loop_stack[-1].iter = it
                    self.loop_stack[-1].target = norm(_t)
                if not is_for:
                    self.env = body_state.env
                    cond = self.atomize(st.test)
                    self._record_guard(st, cond, self.sub(st.test))
                    body_state.reach = f_and(s.reach, cond)
                n_exits, n_eff = len(self.exits), len(self.effects)
                these = self.block(st.body, [body_state]) if body_state.reach is not False else []
                these = these + getattr(self.loop_stack[-1], "continued", [])
                outs += these
                self.loop_stack.pop()
                post = State(env0, s.reach)
                if any(x.prev is not None for x in self.effects[n_eff:]):
                    post.env = dict(env0)
                    post.env[self.LAST] = ast.Constant("loop over %s" % (norm(it) if it is not None else "while"))
                comp = self._as_comprehension(st, it, s, these, assigned, n_exits, n_eff) if is_for else None
                if comp is not None:
                    post.env = dict(env0)
                    post.env[comp[0]] = comp[1]
                    self.converted.setdefault(id(st), 0)
                    self.converted[id(st)] += 1
                else:
                    self.converted[id(st)] = -10 ** 6
                after.append(post)
            self.loop_out.setdefault(id(st), [])
            self.loop_out[id(st)] += outs
            after = self._dedupe(after)
            if st.orelse:
                after = self.block(st.orelse, after)
            return after
        if isinstance(st, (ast.Break, ast.Continue)):
            top = self.loop_stack[-1] if self.loop_stack else None
            if top is not None and getattr(top, "unrolled", False):
                (top.breaks if isinstance(st, ast.Break) else top.continues).extend(states)
                return []
            for s in states:
                self._effect("break" if isinstance(st, ast.Break) else "continue", st, s.reach)
            if isinstance(st, ast.Continue) and top is not None:
                top.continued = getattr(top, "continued", []) + list(states)      # they reach the end of the iteration
            return []
        if isinstance(st, ast.Try):
            assigned = self._assigned(st.body)
            starts = [State(dict(s.env), s.reach) for s in states]
            body_out = self.block(st.body, [s.fork(s.reach) for s in states])
            if st.orelse and body_out:
                body_out = self.block(st.orelse, body_out)
            res = list(body_out)
            for h in st.handlers:
                hc = ("op", "exc@%s" % _handler_label(h))
                hs = [State({k: v for k, v in s.env.items() if k not in assigned}, f_and(s.reach, hc)) for s in starts]
                if h.name:
                    for x in hs:
                        x.env.pop(h.name, None)
                res += self.block(h.body, hs)
            res = self._dedupe(res)
            if st.finalbody:
                res = self.block(st.finalbody, res if res else [State({k: v for k, v in s.env.items() if k not in assigned}, s.reach) for s in starts])
            return res
        if isinstance(st, ast.With):
            for s in states:
                self.env = s.env
                for it in st.items:
                    self._calls(it.context_expr, st, s.reach)
                    if it.optional_vars is not None:
                        self._bind(it.optional_vars, None)
            return self.block(st.body, states)
        if isinstance(st, (ast.FunctionDef, ast.AsyncFunctionDef, ast.ClassDef)):
            body = [x for x in st.body if not (isinstance(x, ast.Expr) and isinstance(x.value, ast.Constant))] if isinstance(st, ast.FunctionDef) else []
            for s in states:
                s.env.pop(st.name, None)
                if len(body) == 1 and isinstance(body[0], ast.Return) and body[0].value is not None and not st.decorator_list and st.name not in self.keep:
                    # a one-expression local function is the lambda of that expression (closure values as of here)
                    args = copy.deepcopy(st.args)
                    for a in args.posonlyargs + args.args + args.kwonlyargs + ([args.vararg] if args.vararg else []) + ([args.kwarg] if args.kwarg else []):
                        a.annotation = None
                    self.env = s.env
                    s.env[st.name] = self.sub(ast.Lambda(args, copy.deepcopy(body[0].value)))
            return states
        for s in states:
            self.env = s.env
            self.visits.append((getattr(st, "_orig", st), s.reach))
            self._pretag(getattr(st, "value", None), *([t for t in getattr(st, "targets", [])] + ([st.target] if hasattr(st, "target") else [])))
            self._simple(st, s.reach)
        return self._dedupe(states) if len(states) > 1 else states

    def _simple(self, st, reach):
        if isinstance(st, (ast.Assign, ast.AnnAssign)):
            if getattr(st, "value", None) is None:
                return
            v = self.sub(st.value)
            self._calls(st.value, st, reach)
            tg = st.targets if isinstance(st, ast.Assign) else [st.target]
            if len(tg) == 1 and isinstance(tg[0], (ast.Tuple, ast.List)) and isinstance(v, ast.Call) and isinstance(v.func, ast.Attribute) and v.func.attr in ("split", "rsplit") and v.args:
                # a, b = s.split(sep, 1) has exactly two parts when sep is in s -- on this path, is it?
                n_t = len(tg[0].elts)
                bounded = len(v.args) == 2 and isinstance(v.args[1], ast.Constant) and v.args[1].value == n_t - 1
                inside = self.atomize(ast.Compare(copy.deepcopy(v.args[0]), [ast.In()], [copy.deepcopy(v.func.value)]), True)
                if not (bounded and n_t == 2 and entails(reach, inside)):
                    self.unpack_risks.append((getattr(st, "_orig", st), reach))
            for t in tg:
                if isinstance(t, (ast.Name, ast.Tuple, ast.List)):
                    self._bind(t, v)
                elif isinstance(t, ast.Attribute):
                    self._effect("setattr", st, reach, target=self.sub(t.value), attr=t.attr, value=v)
                elif isinstance(t, ast.Subscript):
                    self._effect("setitem", st, reach, target=self.sub(t.value), key=self.sub(t.slice), value=v)
                    if isinstance(t.value, ast.Name):
                        self.env.pop(t.value.id, None)
            return
        if isinstance(st, ast.AugAssign):
            v = self.sub(st.value)
            self._calls(st.value, st, reach)
            if isinstance(st.target, ast.Name):
                cur = self.env.get(st.target.id, ast.Name(st.target.id, ast.Load()))
                self._effect("aug", st, reach, target=ast.Name(st.target.id, ast.Load()), op=st.op, value=v, before=copy.deepcopy(cur))
                self._bind(st.target, self.canon.expr(ast.BinOp(copy.deepcopy(cur), st.op, v)))
            elif isinstance(st.target, ast.Attribute):
                # T.a |= v  is  T.a = T.a | v
                tv = self.sub(st.target.value)
                self._effect("setattr", st, reach, target=tv, attr=st.target.attr, value=self.canon.expr(ast.BinOp(ast.Attribute(copy.deepcopy(tv), st.target.attr, ast.Load()), st.op, v)), aug=True)
            elif isinstance(st.target, ast.Subscript):
                tv, kv = self.sub(st.target.value), self.sub(st.target.slice)
                self._effect("setitem", st, reach, target=tv, key=kv, value=self.canon.expr(ast.BinOp(ast.Subscript(copy.deepcopy(tv), copy.deepcopy(kv), ast.Load()), st.op, v)), aug=True)
            return
        if isinstance(st, ast.Delete):
            for t in st.targets:
                if isinstance(t, ast.Subscript):
                    self._effect("delitem", st, reach, target=self.sub(t.value), key=self.sub(t.slice))
                elif isinstance(t, ast.Attribute):
                    self._effect("delattr", st, reach, target=self.sub(t.value), attr=t.attr)
                elif isinstance(t, ast.Name):
                    self.env.pop(t.id, None)
            return
        if isinstance(st, ast.Expr):
            self._calls(st.value, st, reach, top=True)

    def _calls(self, e, st, reach, top=False):
        """record calls (outermost first) as effects; mutator calls on locals havoc the local"""
        if isinstance(e, (ast.Yield, ast.YieldFrom)) and top:
            self._effect("yield", st, reach, value=self.sub(e.value) if e.value is not None else None)
            if e.value is not None:
                self._calls(e.value, st, reach)
            return
        for n in ast.walk(e):
            if isinstance(n, ast.Call):
                f0 = n.func
                if isinstance(f0, ast.Attribute) and isinstance(f0.value, ast.Name) and f0.value.id in self.functional and f0.attr in ("append", "extend") and len(n.args) == 1 and not n.keywords:
                    cur = self.env.get(f0.value.id, ast.Name(f0.value.id, ast.Load()))
                    arg = self.sub(n.args[0])
                    add = ast.List([arg], ast.Load()) if f0.attr == "append" else (arg if isinstance(arg, (ast.List, ast.ListComp)) else ast.Call(ast.Name("list", ast.Load()), [arg], []))
                    self.env[f0.value.id] = self.canon.expr(ast.BinOp(copy.deepcopy(cur), ast.Add(), add))
                    continue
                subbed = self.sub(n)
                if not isinstance(subbed, ast.Call):
                    continue        # canonicalised away (bool(int), divmod, inlined helper ...)
                fn_t = norm(subbed.func)
                if (fn_t == "stream_struct" or fn_t.endswith(".stream_struct")) and top and n is e and len(subbed.args) >= 3 and isinstance(subbed.args[0], ast.Constant) \
                        and isinstance(subbed.args[0].value, str) and "[" not in subbed.args[0].value and len(subbed.args[0].value) == len(subbed.args) - 2 > 1 and not subbed.keywords \
                        and not any(isinstance(a_, ast.Starred) for a_ in subbed.args):
                    # stream_struct("QL", f, a, b) is stream_struct("Q", f, a) followed by stream_struct("L", f, b)
                    for ch, a_ in zip(subbed.args[0].value, subbed.args[2:]):
                        one = ast.Call(subbed.func, [ast.Constant(ch), subbed.args[1], a_], [])
                        self._effect("call", st, reach, call=one, raw=n, top=True)
                    continue
                self._effect("call", st, reach, call=subbed, raw=n, top=(top and n is e))
                f = n.func
                if isinstance(f, ast.Attribute) and f.attr in MUTATORS and isinstance(f.value, (ast.Name, ast.Attribute)):
                    self._stale(f.value)
                if isinstance(f, ast.Attribute) and isinstance(f.value, ast.Name) and f.attr in MUTATORS and f.value.id in self.env:
                    self.env.pop(f.value.id, None)

    def _stale(self, recv):
        """the receiver is changed in place: what the store holds ABOUT it (a length taken before, an element read before) keeps
        describing the object as it was -- those values now name `recv@k`, so that `len(X)` read after `X.add(..)` is not the
        term that was stored before it"""
        t = norm(recv)

        def tagged_receivers(val):
            # the receiver of a call that carries its own evaluation tag (vm.pop(__n=2)) is part of that call's identity
            return {id(c.func.value) for c in ast.walk(val) if isinstance(c, ast.Call) and isinstance(c.func, ast.Attribute) and any(k.arg == "__n" for k in c.keywords)}

        def observes(val):
            skip = tagged_receivers(val)
            return any(isinstance(x, (ast.Name, ast.Attribute)) and isinstance(getattr(x, "ctx", None), ast.Load) and id(x) not in skip and norm(x) == t for x in ast.walk(val))
        users = [name for name, val in self.env.items() if isinstance(name, str) and not name.startswith("\0") and isinstance(val, ast.AST) and name != t and observes(val)]
        if not users:
            return
        key = "\0mut:" + t
        prev = self.env.get(key)
        k = (prev.value if isinstance(prev, ast.Constant) and isinstance(prev.value, int) else 0) + 1
        self.env[key] = ast.Constant(k)
        tag = ast.Name("%s@%d" % (t, k), ast.Load())

        class R(ast.NodeTransformer):
            def __init__(s_, skip):
                s_.skip = skip

            def visit_Name(s_, x):
                return copy.deepcopy(tag) if isinstance(x.ctx, ast.Load) and id(x) not in s_.skip and norm(x) == t else x

            def visit_Attribute(s_, x):
                if isinstance(x.ctx, ast.Load) and id(x) not in s_.skip and norm(x) == t:
                    return copy.deepcopy(tag)
                return s_.generic_visit(x)
        for name in users:
            val = copy.deepcopy(self.env[name])
            self.env[name] = R(tagged_receivers(val)).visit(val)


def canon_loop_header(target, it):
    """for i, x in enumerate(X)  ==  for i in range(len(X)) with x = X[i]  ->  (target, iter, {name: value})"""
    if isinstance(it, ast.Call) and isinstance(it.func, ast.Name) and it.func.id == "enumerate" and len(it.args) == 1 and not it.keywords \
            and isinstance(target, (ast.Tuple, ast.List)) and len(target.elts) == 2 and all(isinstance(x, ast.Name) for x in target.elts):
        i, x = target.elts
        new_it = ast.Call(ast.Name("range", ast.Load()), [ast.Call(ast.Name("len", ast.Load()), [it.args[0]], [])], [])
        return ast.Name(i.id, ast.Store()), new_it, {x.id: ast.Subscript(copy.deepcopy(it.args[0]), ast.Name(i.id, ast.Load()), ast.Load())}
    if isinstance(it, ast.Call) and isinstance(it.func, ast.Name) and it.func.id == "range" and len(it.args) == 2 and not it.keywords and isinstance(target, ast.Name) \
            and isinstance(it.args[0], ast.Constant) and type(it.args[0].value) is int and it.args[0].value != 0:
        # for d in range(a, b)  ==  for d0 in range(b - a) with d = d0 + a
        a = it.args[0].value
        n_ = Canon(None, lambda t: True).linear(ast.BinOp(copy.deepcopy(it.args[1]), ast.Sub(), ast.Constant(a)), True)
        new_it = ast.Call(ast.Name("range", ast.Load()), [n_], [])
        return target, new_it, {target.id: ast.BinOp(ast.Name(target.id, ast.Load()), ast.Add(), ast.Constant(a))}
    return target, it, {}


def _replace_node(root, target, by):
    """copy of root with the node `target` (by identity) replaced by a copy of `by`"""
    def rec(n):
        if n is target:
            return copy.deepcopy(by)
        if isinstance(n, ast.AST):
            new = type(n)()
            for fld, val in ast.iter_fields(n):
                if isinstance(val, list):
                    setattr(new, fld, [rec(v) for v in val])
                else:
                    setattr(new, fld, rec(val))
            for a in ("lineno", "col_offset", "end_lineno", "end_col_offset"):
                if hasattr(n, a):
                    setattr(new, a, getattr(n, a))
            return new
        return n
    return rec(root)


def _replace_name(e, name, by):
    class R(ast.NodeTransformer):
        def visit_Name(s, n):
            if n.id == name and isinstance(n.ctx, ast.Load):
                return copy.deepcopy(by)
            return n
    return R().visit(copy.deepcopy(e))


def _prop_feasible(f):
    """propositional feasibility of a reach formula (truth table over at most 12 atoms; value-set atoms are
    treated as integer sets)"""
    if f is True:
        return True
    if f is False:
        return False
    try:
        if "'set'" not in repr(f):
            r = _bitparallel([f])
            return True if r is None else r[0][0] != 0
        ops = gi.f_opaques(f)
        if len(ops) > 12:
            return True
        import itertools
        U, E = gi.IntSet.all(), gi.IntSet.empty()
        for bits in itertools.product((False, True), repeat=len(ops)):
            if not gi.f_eval(f, dict(zip(ops, bits)), U, E).is_empty():
                return True
        return False
    except Exception:
        return True


def _ordered_call(e):
    f = e.raw.func
    t = norm(f)
    if t.startswith(("logger.", "logging.", "log.", "warnings.")) or t == "print":
        return False
    return bool(getattr(e, "top", False)) or (isinstance(f, ast.Attribute) and f.attr in MUTATORS and isinstance(f.value, ast.Name))


MUTATORS = {"append", "extend", "insert", "pop", "remove", "sort", "reverse", "clear", "update", "setdefault", "popitem", "add", "discard", "write"}


def _handler_label(h):
    if h.type is None:
        return "BaseException"
    ts = h.type.elts if isinstance(h.type, ast.Tuple) else [h.type]
    return "|".join(sorted((df.dotted(t) or "?").split(".")[-1] for t in ts))


class LoopCtx:
    def __init__(self, node, iter_expr, target, reach=True):
        self.reach = reach
        self.unrolled = False
        self.node = node
        self.iter = iter_expr
        self.target = target

    def __repr__(self):
        return "for %s in %s" % (self.target, norm(self.iter)) if self.iter is not None else "while"


class Effect:
    def __init__(self, kind, node, reach, loops, **kw):
        self.kind = kind
        self.node = node
        self.reach = reach
        self.loops = loops
        self.__dict__.update(kw)

    def text(self):
        k = self.kind
        if k == "call":
            return norm(self.call)
        if k == "setattr":
            return "%s.%s = %s" % (norm(self.target), self.attr, norm(self.value))
        if k == "setitem":
            return "%s[%s] = %s" % (norm(self.target), norm(self.key), norm(self.value))
        if k == "aug":
            return "%s %s= %s" % (norm(self.target), _OPTXT.get(type(self.op), "?"), norm(self.value))
        if k == "augattr":
            return "%s.%s %s= %s" % (norm(self.target), self.attr, _OPTXT.get(type(self.op), "?"), norm(self.value))
        if k == "augitem":
            return "%s[%s] %s= %s" % (norm(self.target), norm(self.key), _OPTXT.get(type(self.op), "?"), norm(self.value))
        if k == "delitem":
            return "del %s[%s]" % (norm(self.target), norm(self.key))
        if k == "yield":
            return "yield %s" % (norm(self.value) if self.value is not None else "")
        return k

    def parts(self):
        """the text as a list of AST / str pieces (so that locals can be renamed on the AST, never on keyword names)"""
        k = self.kind
        if k == "call":
            return [self.call]
        if k == "setattr":
            return [self.target, ".%s = " % self.attr, self.value]
        if k == "setitem":
            return [self.target, "[", self.key, "] = ", self.value]
        if k == "delitem":
            return ["del ", self.target, "[", self.key, "]"]
        if k == "delattr":
            return ["del ", self.target, ".%s" % self.attr]
        if k == "yield":
            return ["yield ", self.value if self.value is not None else ""]
        return [k]

    def __repr__(self):
        return "<%s %s>" % (self.kind, self.text()[:80])


_OPTXT = {ast.Add: "+", ast.Sub: "-", ast.Mult: "*", ast.BitOr: "|", ast.BitAnd: "&", ast.BitXor: "^", ast.LShift: "<<", ast.RShift: ">>", ast.Mod: "%", ast.FloorDiv: "//"}


def _plain_table(val, depth=0):
    """a small tuple / list of ints, bytes, strings (one level of nesting): a table a loop may run over"""
    if isinstance(val, (int, bytes, str)) and not isinstance(val, bool):
        return True
    if isinstance(val, (tuple, list)) and depth < 2 and 0 < len(val) <= 16:
        return all(_plain_table(x, depth + 1) for x in val)
    return False


def make_const_of(ctx, fi, tables=False):
    """resolver of module-level constants for Canon: Names/Attributes that are not parameters or locals of fi"""
    locals_ = set(fi.params()) | set(df.assignments(fi.node))
    p = fi
    while p.parent is not None:
        p = p.parent
        locals_ |= set(p.params()) | set(df.assignments(p.node))
    it = ctx.interp
    cache = {}

    def const_of(e):
        t = norm(e)
        if t in cache:
            return cache[t]
        v = None
        root = e
        while isinstance(root, ast.Attribute):
            root = root.value
        if isinstance(root, ast.Name) and root.id in ("self", "cls", "class_") and isinstance(e, ast.Attribute) and e.value is root and fi.cls is not None and e.attr.isupper() | e.attr.strip("_").isupper():
            try:
                for c in ctx.p.mro(fi.cls):
                    a = c.attrs.get(e.attr)
                    if a is not None:
                        v = ast.literal_eval(a)
                        break
            except Exception:
                v = None
        elif isinstance(root, ast.Name) and root.id not in locals_ and root.id not in ("self", "cls", "class_"):
            r = ctx.p.resolve_expr_static(fi.module, e)
            if isinstance(r, tuple) and r[0] == "const":
                try:
                    val = it.get(r[1].name, r[2])
                    if isinstance(val, (int, bytes, str)) and not isinstance(val, bool):
                        v = val
                    elif isinstance(val, (tuple, list)) and 0 < len(val) <= 16 and all(isinstance(x, str) for x in val):       # tables of names
                        v = val
                    elif tables and isinstance(val, (tuple, list)) and _plain_table(val):
                        v = val         # only for rules that read one function (the reference files do not carry such tables)
                    elif tables and isinstance(val, range) and val.step == 1:
                        v = val
                except Exception:
                    v = None
        cache[t] = v
        return v
    return const_of


def make_inliner(ctx, fi):
    """resolver for Canon.inline: plain-name calls to functions of fi's module (or imported from a repo module)"""
    locals_ = set(fi.params()) | set(df.assignments(fi.node))

    def resolve(call):
        f = call.func
        if isinstance(f, ast.Name) and f.id not in locals_:
            r = ctx.p.resolve_global(fi.module, f.id)
            node = getattr(r, "node", None)
            if isinstance(node, ast.FunctionDef) and node is not fi.node:
                return node
        return None
    return resolve


def _owner_class(fi):
    while fi is not None:
        if fi.cls is not None:
            return fi.cls
        fi = fi.parent
    return None


def make_stmt_resolver(ctx, root=None):
    """(call, FuncInfo of the scope it is in) -> (FunctionDef, FuncInfo) for helpers ADDED SINCE THE REVIEW (absent from
    the transcription of their module, spec/mod): those are expanded in place; reviewed functions stay calls -- unless the
    reviewed transcription of the function being looked at (`root`) never called them: then the code now delegates to an
    existing function what it used to do itself, and is read with that function spliced in as well"""
    from . import modref
    ref_calls = None
    if root is not None:
        try:
            tree = modref._tree(root.module.name)
            rn = modref.ref_name(root)
            node = next((n for n in tree.body if isinstance(n, ast.FunctionDef) and n.name == rn), None) if tree is not None else None
            if node is not None:
                ref_calls = set()
                for c in ast.walk(node):
                    if isinstance(c, ast.Call):
                        if isinstance(c.func, ast.Name):
                            ref_calls.add(c.func.id)
                        elif isinstance(c.func, ast.Attribute):
                            ref_calls.add(c.func.attr)
        except Exception:
            ref_calls = None

    def resolve(call, fi):
        if fi is None:
            return None
        f = call.func
        callee = None
        try:
            if isinstance(f, ast.Name):
                callee = ctx.p.functions.get("%s.%s" % (fi.qualname, f.id))
                scope = fi
                while callee is None and scope.parent is not None:
                    scope = scope.parent
                    callee = ctx.p.functions.get("%s.%s" % (scope.qualname, f.id))
                if callee is None:
                    top = fi
                    while top.parent is not None:
                        top = top.parent
                    if f.id in set(top.params()) | set(df.assignments(top.node)):
                        return None
                    r = ctx.p.resolve_global(fi.module, f.id)
                    callee = r if hasattr(r, "node") and isinstance(getattr(r, "node", None), ast.FunctionDef) else None
            elif isinstance(f, ast.Attribute) and isinstance(f.value, ast.Name) and f.value.id in ("self", "cls"):
                c = _owner_class(fi)
                if c is not None:
                    callee = ctx.p.lookup_method(c, f.attr)
        except Exception:
            return None
        if callee is None or not isinstance(getattr(callee, "node", None), ast.FunctionDef) or callee.node is fi.node:
            return None
        if modref.is_reviewed(callee):
            called_as = f.id if isinstance(f, ast.Name) else f.attr
            if ref_calls is None or called_as in ref_calls or callee.node.name in ref_calls:
                return None
        return callee.node, callee
    return resolve


def expanded(ctx, fi):
    """fi's FunctionDef with the helpers added since the review spliced in (fi.node itself when there are none)"""
    cache = ctx.cache.setdefault("expanded", {})
    if fi.qualname not in cache:
        try:
            cache[fi.qualname] = _expand.expand_function(fi.node, make_stmt_resolver(ctx, getattr(fi, "original", fi)), fi)
        except RecursionError:
            cache[fi.qualname] = (fi.node, [])
    return cache[fi.qualname][0]


def make_assign_resolver(ctx, fi):
    """Name -> value expression of the module-level constant it names (single assignment, not a local of fi)"""
    locals_ = set(fi.params()) | set(df.assignments(fi.node))

    def resolve(name):
        if name.id in locals_:
            return None
        try:
            r = ctx.p.resolve_global(fi.module, name.id)
        except Exception:
            return None
        if isinstance(r, tuple) and r[0] == "const":
            vals = r[1].assigns.get(r[2], [])
            if len(vals) == 1:
                return vals[0]
        return None
    return resolve


def make_lambda_resolver(ctx, fi):
    """Name -> ast.Lambda for a module-level function ADDED SINCE THE REVIEW whose body is one return expression
    (a named stand-in for a lambda the reviewed code wrote in place)"""
    from . import modref
    locals_ = set(fi.params()) | set(df.assignments(fi.node))

    def resolve(name):
        if name.id in locals_:
            return None
        try:
            r = ctx.p.resolve_global(fi.module, name.id)
        except Exception:
            return None
        node = getattr(r, "node", None)
        if not isinstance(node, ast.FunctionDef) or modref.is_reviewed(r) or node.decorator_list:
            return None
        body = [x for x in node.body if not (isinstance(x, ast.Expr) and isinstance(x.value, ast.Constant))]
        if len(body) != 1 or not isinstance(body[0], ast.Return):
            return None
        args = copy.deepcopy(node.args)
        for a in args.args + args.posonlyargs + args.kwonlyargs + ([args.vararg] if args.vararg else []) + ([args.kwarg] if args.kwarg else []):
            a.annotation = None
        return ast.Lambda(args, copy.deepcopy(body[0].value) if body[0].value is not None else ast.Constant(None))
    return resolve


def make_callee_resolver(ctx, fi):
    """call -> FunctionDef it resolves to: plain names (module / imports), self.m and cls.m through fi's class and bases"""
    locals_ = set(fi.params()) | set(df.assignments(fi.node))

    def resolve(call):
        f = call.func
        try:
            if isinstance(f, ast.Name) and f.id not in locals_:
                r = ctx.p.resolve_global(fi.module, f.id)
                node = getattr(r, "node", None)
                return node if isinstance(node, ast.FunctionDef) else None
            if isinstance(f, ast.Attribute) and isinstance(f.value, ast.Name) and f.value.id in ("self", "cls") and fi.cls is not None:
                m = ctx.p.lookup_method(fi.cls, f.attr)
                node = getattr(m, "node", None)
                return node if isinstance(node, ast.FunctionDef) else None
        except Exception:
            return None
        return None
    return resolve


def _mutation_sites(func_node):
    sites = {}
    for n in ast.walk(func_node):
        if isinstance(n, ast.Call) and isinstance(n.func, ast.Attribute) and isinstance(n.func.value, ast.Name) and n.func.attr in MUTATORS:
            sites.setdefault(n.func.value.id, []).append(n.func.attr)
        if isinstance(n, (ast.Subscript, ast.Attribute)) and isinstance(n.ctx, (ast.Store, ast.Del)) and isinstance(n.value, ast.Name):
            sites.setdefault(n.value.id, []).append("store")
    return sites


def functional_locals(func_node):
    """locals that are only ever grown with .append / .extend after being bound to a fresh list: modelled as values
    (X.append(e) is X = X + [e]), so an append loop and the comprehension it spells have one canonical form"""
    params = {a.arg for a in func_node.args.args + func_node.args.posonlyargs + func_node.args.kwonlyargs}
    if func_node.args.vararg:
        params.add(func_node.args.vararg.arg)
    if func_node.args.kwarg:
        params.add(func_node.args.kwarg.arg)
    out = set()
    inner = set()
    for n in ast.walk(func_node):
        if n is not func_node and isinstance(n, (ast.FunctionDef, ast.AsyncFunctionDef, ast.Lambda)):
            for x in ast.walk(n):
                if isinstance(x, ast.Name):
                    inner.add(x.id)        # captured by a closure: identity matters
    def dominated_by_fresh_binding(name, fresh):
        """every append site of a PARAMETER is preceded, in its own or an enclosing block, by `name = <fresh list>`"""
        def visit(block, have):
            ok = True
            for st in block:
                here = have
                if isinstance(st, (ast.Assign, ast.AnnAssign)) and any(isinstance(t, ast.Name) and t.id == name for t in (st.targets if isinstance(st, ast.Assign) else [st.target])):
                    have = here = getattr(st, "value", None) is not None and fresh(st.value)
                    continue
                subs = [getattr(st, f) for f in ("body", "orelse", "finalbody") if isinstance(getattr(st, f, None), list)]
                subs += [h.body for h in getattr(st, "handlers", [])]
                if subs:
                    for b in subs:
                        ok = visit(b, have) and ok
                    if isinstance(st, (ast.For, ast.While)):
                        pass
                    continue
                for n in ast.walk(st):
                    if isinstance(n, ast.Call) and isinstance(n.func, ast.Attribute) and isinstance(n.func.value, ast.Name) and n.func.value.id == name and n.func.attr in ("append", "extend"):
                        ok = ok and have
            return ok
        return visit(func_node.body, False)

    fresh = lambda v: isinstance(v, (ast.List, ast.ListComp)) or (isinstance(v, ast.Call) and isinstance(v.func, ast.Name) and v.func.id in ("list", "sorted")) or (isinstance(v, ast.BinOp) and isinstance(v.op, ast.Add) and (fresh(v.left) or fresh(v.right)))
    for name, kinds in _mutation_sites(func_node).items():
        if name in inner or not all(k in ("append", "extend") for k in kinds):
            continue
        if name in params:
            if dominated_by_fresh_binding(name, fresh):
                out.add(name)
            continue
        binds = [n for n in ast.walk(func_node) if isinstance(n, (ast.Assign, ast.AnnAssign)) and any(isinstance(t, ast.Name) and t.id == name for t in (n.targets if isinstance(n, ast.Assign) else [n.target]))]
        if binds and all(getattr(b, "value", None) is not None and fresh(b.value) for b in binds):
            out.add(name)
    return out


def mutated_locals(func_node):
    """locals used as receivers of mutator calls / item stores / augmented item stores: never substituted
    (except the functional ones, see functional_locals)"""
    return set(_mutation_sites(func_node)) - functional_locals(func_node)


def walk(ctx, fi, leaf=None, keep=(), body=None, int_names=None, inline=False, feasible=None):
    """convenience: canonical walker of a function with module constants resolved"""
    node = expanded(ctx, fi) if body is None else fi.node
    keep = set(keep) | (mutated_locals(node) - set(fi.params()))
    canon = Canon(make_const_of(ctx, fi, tables=True), int_names, make_inliner(ctx, fi) if inline else None)
    canon.assign_of = make_assign_resolver(ctx, fi)
    # assertions are not behaviour a property may rest on (python -O removes them): a rule reads the function without them, so
    # that a defensive `assert` that can never fire does not split the paths a rule measures (VERIF_KEEP_ASSERTS=1 keeps them)
    w = SymWalker(node, canon, leaf, keep=keep, feasible=feasible, ignore_asserts=os.environ.get("VERIF_KEEP_ASSERTS") != "1")
    w.run(body)
    return w


def value_leaf(is_subject, const, truthy_is_nonzero=True):
    """leaf function turning canonical == / < atoms about an integer subject into interval sets
    (same meaning as gi.SymbolicAtomizer.compare)"""
    def pt(c):
        return (1, c[1]) if isinstance(c, tuple) else (0, c)

    def shift(e):
        """subject +/- k -> (True, k)"""
        if is_subject(e):
            return 0
        if isinstance(e, ast.BinOp) and isinstance(e.op, (ast.Add, ast.Sub)) and is_subject(e.left):
            k = df.const_int(e.right)
            if k is not None:
                return k if isinstance(e.op, ast.Add) else -k
        return None

    def leaf(e, text):
        if isinstance(e, ast.Compare) and len(e.ops) == 1:
            l, r, op = e.left, e.comparators[0], e.ops[0]
            for a, b, flip in ((l, r, False), (r, l, True)):
                k = shift(a)
                if k is not None:
                    c = const(b)
                    if c is not None:
                        t, v = pt(c)
                        p = (t, v - k)
                        if isinstance(op, ast.Eq):
                            return ("set", gi.IntSet.cmp("==", p))
                        if isinstance(op, ast.Lt):
                            return ("set", gi.IntSet.cmp(">" if flip else "<", p))
        if text.startswith("truthy(") and is_subject(e) and truthy_is_nonzero:
            return ("set", gi.IntSet.cmp("!=", (0, 0)))
        return ("op", text)
    return leaf


def enclosing_if(root, stmt):
    """innermost `if` whose BODY (not orelse) contains stmt; for asserts the assert itself"""
    if isinstance(stmt, ast.Assert):
        return stmt
    best = None
    root = _expand.EXPANDED.get(id(root), root)
    for n in ast.walk(root):
        if isinstance(n, ast.If):
            for s in n.body:
                if any(x is stmt for x in ast.walk(s)):
                    best = n
    return best


def guard_reject_set(w, root, pred, univ, empty, pure=False, allow=()):
    """Union, over exits satisfying pred, of the subject values their innermost guard rejects on its own:
    for every truth assignment of the guard's other atoms under which the subject is decisive, the subject values
    that make the guard true.  pure=True keeps only guards whose other atoms are all in `allow`."""
    import itertools
    s = empty
    n = 0
    for e in w.exits:
        if not pred(e) or e.node is None:
            continue
        g = enclosing_if(root, e.node)
        if g is None or id(g) not in w.guards:
            continue
        f = w.guards[id(g)]
        if isinstance(g, ast.Assert):
            f = f_not(f)
        if not gi.involves_subject(f):
            continue
        ops = gi.f_opaques(f)
        if pure and any(o not in allow for o in ops):
            continue
        n += 1
        for bits in itertools.product((False, True), repeat=len(ops)):
            sa = gi.f_eval(f, dict(zip(ops, bits)), univ, empty)
            if not (sa == univ):
                s = s | sa
    return s, n


def finite_leaf(domain, evalf):
    """leaf for a finite subject domain: an atom whose truth evalf(expr, value) can compute for every domain value
    becomes an explicit subset; everything else stays opaque"""
    dom = frozenset(domain)
    cache = {}

    def leaf(e, text):
        if text in cache:
            return cache[text]
        try:
            r = ("set", gi.FinSet([v for v in dom if evalf(e, v)], dom))
        except Exception:
            r = ("op", text)
        cache[text] = r
        return r
    leaf.univ = gi.FinSet(dom, dom)
    leaf.empty = gi.FinSet((), dom)
    leaf.cache = cache
    return leaf


def int_walk(ctx, fi, subject_texts, sym_texts=(), extra_const=None, keep=(), truthy=True):
    """walker whose atoms about the integer subject (given by canonical texts) are interval sets;
    sym_texts are canonical texts standing for the single symbolic endpoint"""
    subject_texts = set(subject_texts)
    sym_texts = set(sym_texts)

    def is_subject(e):
        return norm(e) in subject_texts

    def const(e):
        t = norm(e)
        if t in sym_texts:
            return ("s", 0)
        if isinstance(e, ast.BinOp) and isinstance(e.op, (ast.Add, ast.Sub)) and norm(e.left) in sym_texts:
            k = df.const_int(e.right)
            if k is not None:
                return ("s", k if isinstance(e.op, ast.Add) else -k)
        v = df.const_int(e)
        if v is not None:
            return v
        if extra_const is not None:
            return extra_const(e)
        return None
    return walk(ctx, fi, value_leaf(is_subject, const, truthy), keep=keep)


# ====================================================================== canonical summaries / reference comparison
def _first_store_pos(func_node):
    pos = {}
    for n in ast.walk(func_node):
        if isinstance(n, ast.Name) and isinstance(n.ctx, ast.Store):
            p = (n.lineno, n.col_offset)
            if n.id not in pos or p < pos[n.id]:
                pos[n.id] = p
    return pos


def _loop_temporaries(loop, func_node):
    """names assigned unconditionally at the top of every iteration before any read, and not read after the loop"""
    out = set()
    assigned = set()
    for x in loop.body:
        for n in ast.walk(x):
            if isinstance(n, ast.Name) and isinstance(n.ctx, ast.Store):
                assigned.add(n.id)
    end = (loop.end_lineno, loop.end_col_offset)
    for name in assigned:
        first = None
        for st in loop.body:
            occ = sorted(((n.lineno, n.col_offset), isinstance(n.ctx, ast.Store)) for n in ast.walk(st) if isinstance(n, ast.Name) and n.id == name)
            if occ:
                # in an assignment the value is evaluated before the target is bound
                if isinstance(st, (ast.Assign, ast.AnnAssign)) and not any(not o[1] for o in occ):
                    first = "store"
                elif isinstance(st, (ast.Assign, ast.AnnAssign)) and getattr(st, "value", None) is not None and not any(isinstance(n, ast.Name) and n.id == name for n in ast.walk(st.value)):
                    first = "store"
                else:
                    first = "read"
                break
        later = any(isinstance(n, ast.Name) and n.id == name and isinstance(n.ctx, ast.Load) and (n.lineno, n.col_offset) > end for n in ast.walk(func_node))
        if first == "store" and not later:
            out.add(name)
    return out


def _observable_carried(w, loop, func_node, assigned):
    """names whose value at the START of an iteration (or after the loop) is observable: read before being
    (re)assigned on some path of the body, in the loop test, or after the loop.  Everything else assigned in the
    body is a per-iteration temporary, however it is spelled."""
    seen = set()

    def scan(x):
        if isinstance(x, ast.AST):
            for y in ast.walk(x):
                if isinstance(y, ast.Name) and y.id in assigned:
                    seen.add(y.id)
    for st in w.loop_out.get(id(loop), []):
        for k, v in st.env.items():
            if isinstance(k, str) and not k.startswith("\0"):
                if isinstance(v, ast.Name) and v.id == k:
                    continue
                scan(v)
        seen.update(_formula_names(st.reach) & assigned)
    for e in w.exits:
        if e.node is not None and any(z is e.node for z in ast.walk(loop)):
            scan(e.value)
            seen.update(_formula_names(e.cond) & assigned)
    for e in w.effects:
        if any(l.node is loop for l in e.loops):
            for p_ in e.parts():
                scan(p_)
            seen.update(_formula_names(e.reach) & assigned)
    if isinstance(loop, ast.While):
        scan(w.tests.get(id(loop)))
    end = (loop.end_lineno, loop.end_col_offset)
    for n in ast.walk(func_node):
        if isinstance(n, ast.Name) and isinstance(n.ctx, ast.Load) and n.id in assigned and (n.lineno, n.col_offset) > end:
            seen.add(n.id)
    return seen


class Item:
    def __init__(self, kind, head, cond):
        self.kind = kind
        self.head = head
        self.cond = cond        # formula over renamed atoms

    def __repr__(self):
        from .ct import fmt_formula
        return "%s | %s | when %s" % (self.kind, self.head, fmt_formula(self.cond) if self.cond not in (True, False) else self.cond)


class Summary:
    """canonical, name-independent description of what a function computes: loop transformers, exits, effects"""

    def __init__(self, items, walker):
        self.items = items
        self.w = walker

    def grouped(self):
        g = {}
        order = []
        for it in self.items:
            k = (it.kind, it.head)
            if k in g:
                g[k] = f_or(g[k], it.cond)
            else:
                g[k] = it.cond
                order.append(k)
        return g, order

    def texts(self):
        return [repr(i) for i in self.items]


def _rename_text(t, ren):
    import re
    if not ren:
        return t
    return re.sub(r"(?<![A-Za-z_0-9.'\"])(%s)(?![A-Za-z_0-9'\"])(?!=[^=])" % "|".join(sorted(map(re.escape, ren), key=len, reverse=True)), lambda m: ren[m.group(1)], t)


def _resort_atom(t, canon):
    """after renaming, operand orders chosen by text may have changed: re-canonicalise the atom"""
    if canon is None or t.startswith("exc@"):
        return t
    try:
        e = ast.parse(t, mode="eval").body
    except SyntaxError:
        return t
    e = canon.expr(e)
    if isinstance(e, ast.Compare) and len(e.ops) == 1 and isinstance(e.ops[0], ast.Eq):
        a, b = sorted([norm(e.left), norm(e.comparators[0])])
        return "%s == %s" % (a, b)
    return norm(e)


def _rename_formula(f, ren, canon=None):
    if f in (True, False) or f[0] == "set":
        return f
    if f[0] == "op":
        if not ren:
            return f
        t = _resort_atom(_rename_text(f[1], ren), canon)
        flipped = _sign_normalise_lt(t, canon)
        return flipped if flipped is not None else ("op", t)
    if f[0] == "not":
        return ("not", _rename_formula(f[1], ren, canon))
    return (f[0], tuple(_rename_formula(g, ren, canon) for g in f[1]))


def _sign_normalise_lt(t, canon):
    """`-a + b < K` with a sorting first: the integer atom not(`a - b < 1 - K`) -- the sign convention of difference
    atoms depends on which term sorts first, and renaming locals can change that"""
    import re
    m = re.fullmatch(r"(.+) < (-?\d+)", t)
    if m is None or canon is None:
        return None
    try:
        left = ast.parse(m.group(1), mode="eval").body
    except SyntaxError:
        return None
    k = int(m.group(2))
    lin = canon._lin(left, True)
    if lin is None or not lin[0] or len(lin[0]) < 2:
        return None
    terms, const = lin
    first = sorted(terms)[0]
    if terms[first][0] >= 0:
        return None
    neg = {kk: [-c, tt] for kk, (c, tt) in terms.items()}
    d = canon._unlin(neg, 0)
    return ("not", ("op", "%s < %d" % (norm(d), -(k - const) + 1)))


def _rename_formula_old(f, ren):
    if f in (True, False) or f[0] == "set":
        return f
    if f[0] == "op":
        return ("op", _rename_text(f[1], ren))
    if f[0] == "not":
        return ("not", _rename_formula(f[1], ren))
    return (f[0], tuple(_rename_formula(g, ren) for g in f[1]))


def _formula_names(f):
    import re
    out = set()

    def rec(g):
        if g in (True, False):
            return
        if g[0] == "op":
            out.update(re.findall(r"(?<![A-Za-z_0-9.])[A-Za-z_][A-Za-z_0-9]*", g[1]))
        elif g[0] == "not":
            rec(g[1])
        elif g[0] in ("and", "or"):
            for h in g[1]:
                rec(h)
    rec(f)
    return out


def _canon_test_ast(t):
    """a loop test as the truth value it is used for: `x`, `len(x) > 0`, `len(x) != 0`, `len(x) >= 1` -> truthy(x)"""
    tr = lambda x: ast.Call(ast.Name("truthy", ast.Load()), [x], [])
    if isinstance(t, ast.Constant):
        return ast.Constant(bool(t.value))
    if isinstance(t, ast.BoolOp):
        return ast.BoolOp(t.op, [_canon_test_ast(v) for v in t.values])
    if isinstance(t, ast.UnaryOp) and isinstance(t.op, ast.Not):
        return ast.UnaryOp(ast.Not(), _canon_test_ast(t.operand))
    if isinstance(t, ast.Compare) and len(t.ops) == 1:
        l_, o, r_ = t.left, t.ops[0], t.comparators[0]
        la, ra = _len_arg(l_), _len_arg(r_)
        if la is not None and isinstance(r_, ast.Constant) and type(r_.value) is int:
            k = r_.value
            if (isinstance(o, (ast.Gt, ast.NotEq)) and k == 0) or (isinstance(o, ast.GtE) and k == 1):
                return tr(l_.args[0])
            if (isinstance(o, (ast.Eq, ast.LtE)) and k == 0) or (isinstance(o, ast.Lt) and k == 1):
                return ast.UnaryOp(ast.Not(), tr(l_.args[0]))
        if ra is not None and isinstance(l_, ast.Constant) and type(l_.value) is int:
            k = l_.value
            if (isinstance(o, (ast.Lt, ast.NotEq)) and k == 0) or (isinstance(o, ast.LtE) and k == 1):
                return tr(r_.args[0])
            if (isinstance(o, (ast.Eq, ast.GtE)) and k == 0) or (isinstance(o, ast.Gt) and k == 1):
                return ast.UnaryOp(ast.Not(), tr(r_.args[0]))
        return t
    if isinstance(t, (ast.Name, ast.Attribute, ast.Subscript)):
        return tr(t)
    return t


def _split_loop_targets(func_node):
    """a name used as the target of several for-loops and read nowhere else is one local per loop:
    `for t in a: ...; for t in b: ...` and `for x in a: ...; for y in b: ...` are the same function"""
    if not isinstance(func_node, (ast.FunctionDef, ast.AsyncFunctionDef)):
        return func_node
    loops_of = {}
    for n in ast.walk(func_node):
        if isinstance(n, ast.For) and isinstance(n.target, ast.Name):
            loops_of.setdefault(n.target.id, []).append(n)
    cand = {nm: ls for nm, ls in loops_of.items() if len(ls) > 1}
    if not cand:
        return func_node
    params = {a.arg for a in func_node.args.args + func_node.args.posonlyargs + func_node.args.kwonlyargs}
    ok = {}
    for nm, ls in cand.items():
        if nm in params:
            continue
        inside = set()
        nested = False
        for l in ls:
            for x in ast.walk(l):
                if x is not l and isinstance(x, ast.For) and isinstance(x.target, ast.Name) and x.target.id == nm:
                    nested = True
                if isinstance(x, ast.Name) and x.id == nm:
                    inside.add(id(x))
        total = [x for x in ast.walk(func_node) if isinstance(x, ast.Name) and x.id == nm]
        stores = [x for x in total if isinstance(x.ctx, ast.Store) and not any(x is l.target for l in ls)]
        if nested or stores or any(id(x) not in inside for x in total):
            continue
        ok[nm] = ls
    if not ok:
        return func_node
    new = copy.deepcopy(func_node)
    for nm in ok:
        k = 0
        for n in ast.walk(new):
            if isinstance(n, ast.For) and isinstance(n.target, ast.Name) and n.target.id == nm:
                k += 1
                if k == 1:
                    continue
                fresh = "%s__loop%d" % (nm, k)
                for x in ast.walk(n):
                    if isinstance(x, ast.Name) and x.id == nm:
                        x.id = fresh
    return new


def closure_env(outer_node, canon, inner_name):
    """what the free variables of the closure `inner_name` hold when `outer_node` hands it out: for every local of the
    outer function, the one symbolic value it has at every exit that returns (or registers) the closure"""
    if not isinstance(outer_node, (ast.FunctionDef, ast.AsyncFunctionDef)):
        return {}
    try:
        w = SymWalker(outer_node, canon, None, keep=mutated_locals(outer_node), ignore_asserts=True)
        w.run()
    except Exception:
        return {}
    envs = [getattr(e, "env", None) for e in w.exits if e.kind == "return"] + [st.env for st in w.final]
    envs = [e for e in envs if e is not None]
    if not envs:
        return {}
    params = {a.arg for a in outer_node.args.args + outer_node.args.posonlyargs + outer_node.args.kwonlyargs}
    out = {}
    for name in set.intersection(*[set(e) for e in envs]):
        if name.startswith("\0"):
            continue
        vals = {norm(e[name]) for e in envs}
        if len(vals) == 1:
            v = envs[0][name]
            if isinstance(v, ast.Name) and v.id == inner_name:
                continue
            # the value is written in terms of the OUTER function's inputs; mark parameters of the outer function so that
            # they cannot be confused with names of the closure
            out[name] = v
    return out


def summarize(func_node, canon, leaf=None, keep=(), init_env=None):
    func_node = _split_loop_targets(func_node)
    params = {a.arg for a in func_node.args.args + func_node.args.posonlyargs + func_node.args.kwonlyargs}
    keep = set(keep) | (mutated_locals(func_node) - params)
    if init_env:
        own = params | {n.id for n in ast.walk(func_node) if isinstance(n, ast.Name) and isinstance(n.ctx, (ast.Store, ast.Del))}
        init_env = {k: v for k, v in init_env.items() if k not in own}
    w = SymWalker(func_node, canon, leaf, keep=keep, ignore_asserts=True)     # assertions are not behaviour a property may rest on (python -O removes them)
    w.run(init_env=init_env)
    raw = []     # (kind, [parts], cond formula)
    loops = sorted([n for n in ast.walk(func_node) if isinstance(n, (ast.For, ast.While)) and id(n) in w.loop_out and w.converted.get(id(n), 0) <= 0],
                   key=lambda n: (w.loop_seq.get(id(n), 10 ** 6), n.lineno, n.col_offset))
    loop_no = {id(n): i for i, n in enumerate(loops)}
    locals_ = set(_first_store_pos(func_node)) - params

    def in_loop(e):
        return [" in loop%d" % loop_no[id(e.loops[-1].node)]] if e.loops and id(e.loops[-1].node) in loop_no else []
    for n in loops:
        temps = _loop_temporaries(n, func_node)
        tgt = {x.id for x in ast.walk(n.target) if isinstance(x, ast.Name)} if isinstance(n, ast.For) else set()
        hdr = "loop%d" % loop_no[id(n)]
        if isinstance(n, ast.For):
            for s in w.loop_in.get(id(n), []):
                w.env = s.env
                t_, i_, _b = canon_loop_header(n.target, w.sub(n.iter))
                raw.append(("loop-iter", [hdr, " for ", t_, " in ", i_], s.reach))
        else:
            t_ = _canon_test_ast(w.tests.get(id(n)) or n.test)
            raw.append(("loop-iter", [hdr, " while ", t_], True))
        assigned = w._assigned(n.body)
        temps = (assigned - _observable_carried(w, n, func_node, assigned)) | (temps & set())
        for s in w.loop_out.get(id(n), []):
            for name in sorted(assigned - temps - tgt):
                v = s.env.get(name)
                if v is None or (isinstance(v, ast.Name) and v.id == name):
                    continue
                raw.append(("loop-carry", [hdr, " ", ast.Name(name, ast.Load()), " := ", v], s.reach))
        for s in w.loop_in.get(id(n), []):
            for name in sorted(assigned - temps - tgt):
                v = s.env.get(name)
                if v is not None:
                    raw.append(("loop-init", [hdr, " ", ast.Name(name, ast.Load()), " starts as ", v], s.reach))
    for e in w.exits:
        if e.kind == "fall" or (e.kind == "return" and (e.value is None or (isinstance(e.value, ast.Constant) and e.value.value is None)) and not in_loop_exit(e, func_node, loop_no)):
            raw.append(("exit", ["return None"], e.cond))
        else:
            v = e.value
            if e.kind == "raise" and isinstance(v, ast.Call):
                v = v.func          # the exception type, not its message
            raw.append(("exit", [e.kind, " ", v if v is not None else "None"] + (in_loop_exit(e, func_node, loop_no)), e.cond))
    for e in w.effects:
        if e.kind in ("break", "continue"):
            raw.append(("effect", [e.kind] + in_loop(e), e.reach))
        elif e.kind == "call":
            if norm(e.raw.func).startswith(("logger.", "logging.", "log.", "warnings.")) or norm(e.raw.func) == "print":
                continue        # diagnostics are not behaviour any property talks about
            if e.top or (isinstance(e.raw.func, ast.Attribute) and e.raw.func.attr in MUTATORS and isinstance(e.raw.func.value, ast.Name)):
                raw.append(("effect", ["call ", e.call] + in_loop(e) + ([" after ", e.prev] if getattr(e, "prev", None) else []), e.reach))
        elif e.kind == "aug":
            continue        # augmented assignment of a local: the value is in the store, not an effect
        else:
            raw.append(("effect", e.parts() + in_loop(e), e.reach))
    # rename surviving locals positionally
    pos = _first_store_pos(func_node)
    surviving = set()
    for k, parts, cond in raw:
        for p_ in parts:
            if isinstance(p_, ast.AST):
                for x in ast.walk(p_):
                    if isinstance(x, ast.Name) and x.id in locals_:
                        surviving.add(x.id)
            else:
                surviving |= (_formula_names(p_) & locals_) if not isinstance(p_, str) else set()
        surviving |= _formula_names(cond) & locals_
    for k, parts, cond in raw:
        for p_ in parts:
            if isinstance(p_, str):
                import re
                surviving |= set(re.findall(r"(?<![A-Za-z_0-9.])[A-Za-z_][A-Za-z_0-9]*", p_)) & locals_ if k == "effect" else set()
    # name-independent order: a local is identified by the contexts it occurs in (itself written @, other locals _)
    def signature(nm):
        anon = {o: "_" for o in surviving}
        anon[nm] = "@"
        sig = []
        for k, parts, cond in raw:
            txt = k + ":"
            hit = False
            for p_ in parts:
                if isinstance(p_, ast.AST):
                    if any(isinstance(x, ast.Name) and x.id == nm for x in ast.walk(p_)):
                        hit = True
                    txt += norm(_rename(p_, anon))
                else:
                    txt += p_ if k != "effect" else _rename_text(p_, anon)
            if nm in _formula_names(cond):
                hit = True
            if hit:
                sig.append(txt + repr(_sort_formula(_rename_formula(cond, anon))))
        return sorted(sig)
    sigs = {nm: signature(nm) for nm in surviving}
    order = sorted(surviving, key=lambda nm: (sigs[nm], pos[nm]))
    ren = {nm: "_v%d" % i for i, nm in enumerate(order)}
    canon.extra_ints = set(canon.extra_ints) | {ren[nm] for nm in ren if nm in canon.extra_ints or canon.int_name(nm)}
    items = []
    for k, parts, cond in raw:
        txt = ""
        for p_ in parts:
            if isinstance(p_, ast.AST):
                txt += norm(canon.expr(_rename(p_, ren))) if ren else norm(p_)
            else:
                txt += _rename_text(p_, ren) if k == "effect" else p_
        items.append(Item(k, txt, _rename_formula(cond, ren, canon)))
    a_ = getattr(func_node, "args", None)
    if a_ is not None:
        pos_ = a_.posonlyargs + a_.args
        for x_, d_ in list(zip(pos_[len(pos_) - len(a_.defaults):], a_.defaults)) + [(x_, d_) for x_, d_ in zip(a_.kwonlyargs, a_.kw_defaults) if d_ is not None]:
            items.append(Item("signature", "default %s = %s" % (x_.arg, norm(canon.expr(d_))), True))
    return Summary(items, w)


def in_loop_exit(e, func_node, loop_no):
    if e.node is None:
        return []
    best = None
    for n in ast.walk(func_node):
        if isinstance(n, (ast.For, ast.While)) and id(n) in loop_no and any(x is e.node for x in ast.walk(n)):
            best = n       # innermost wins because ast.walk is breadth-first from the outside
    return [" in loop%d" % loop_no[id(best)]] if best is not None else []


def _rename(e, ren):
    class R(ast.NodeTransformer):
        def visit_Name(s, n):
            if n.id in ren:
                return ast.Name(ren[n.id], n.ctx)
            return n
    return R().visit(copy.deepcopy(e))


def _tokens(t):
    import re
    return re.findall(r"[A-Za-z_][A-Za-z_0-9]*|\d+|[^\sA-Za-z_0-9]", t)


def _truth_table_text(f):
    """canonical text of a propositional formula: its atoms in sorted order and its truth table"""
    if f is True or f is False:
        return str(f)
    ops = sorted(set(gi.f_opaques(f)))
    if len(ops) > 8:
        from .ct import fmt_formula
        return fmt_formula(_sort_formula(f))
    import itertools
    bits = 0
    for i, vals in enumerate(itertools.product((False, True), repeat=len(ops))):
        if not gi.f_eval(f, dict(zip(ops, vals)), gi.IntSet.all(), gi.IntSet.empty()).is_empty():
            bits |= 1 << i
    return "%s#%x" % ("; ".join(ops), bits)


def _set_atoms(fs):
    out = []

    def collect(f):
        if f in (True, False):
            return
        if f[0] == "set":
            out.append(f[1])
        elif f[0] == "not":
            collect(f[1])
        elif f[0] in ("and", "or"):
            for g in f[1]:
                collect(g)
    for f in fs:
        collect(f)
    return out


def _world(fs):
    """finite set of subject values that decides every value-set atom of the formulas: the domain of explicit
    sets, or one representative per region between the interval endpoints; None when the atoms cannot be put on
    one line (numeric and symbolic endpoints mixed)"""
    sets = _set_atoms(fs)
    if not sets:
        return [None]
    if all(isinstance(x, gi.FinSet) for x in sets):
        dom = set()
        for x in sets:
            dom |= set(x.domain)
        try:
            return sorted(dom)
        except TypeError:
            return sorted(dom, key=repr)
    if all(isinstance(x, gi.IntSet) for x in sets):
        pts = set()
        kinds = set()
        for x in sets:
            for lo, hi in x.ivs:
                for p_ in (lo, hi):
                    if p_ is None or p_[1] is None:
                        continue
                    kinds.add(p_[0])
                    pts.add(p_[1])
        if len(kinds) > 1:
            return None
        k = kinds.pop() if kinds else 0
        reps = set()
        for v in pts:
            reps |= {v - 1, v, v + 1}
        if not reps:
            reps = {0}
        return [(k, v) for v in sorted(reps)]
    return None


def _member(setv, w):
    if isinstance(setv, gi.FinSet):
        return w in setv.m
    k, v = w
    for lo, hi in setv.ivs:
        if (lo is None or lo[1] is None or lo[1] <= v) and (hi is None or hi[1] is None or v <= hi[1]):
            return True
    return False


_ATOM_SHAPES = {}


def _atom_shape(a):
    """('eq', term, K) | ('lt', term, K) | ('none', term) | ('truthy', term) | None for the text of an opaque atom"""
    if not isinstance(a, str):
        return None
    if a in _ATOM_SHAPES:
        return _ATOM_SHAPES[a]
    r = None
    try:
        e = ast.parse(a, mode="eval").body
    except Exception:
        e = None
    simple = lambda c: isinstance(c, ast.Constant) and isinstance(c.value, (int, str, bytes, bool, type(None))) \
        or isinstance(c, ast.UnaryOp) and isinstance(c.op, ast.USub) and isinstance(c.operand, ast.Constant) and type(c.operand.value) is int
    cval = lambda c: c.value if isinstance(c, ast.Constant) else -c.operand.value
    if isinstance(e, ast.Compare) and len(e.ops) == 1:
        l_, o, r_ = e.left, e.ops[0], e.comparators[0]
        if isinstance(o, ast.Eq) and simple(l_) != simple(r_):
            k, t = (l_, r_) if simple(l_) else (r_, l_)
            r = ("eq", norm(t), cval(k))
        elif isinstance(o, ast.Lt) and simple(r_) and not simple(l_) and type(cval(r_)) is int:
            r = ("lt", norm(l_), cval(r_))
        elif isinstance(o, ast.Is) and isinstance(r_, ast.Constant) and r_.value is None:
            r = ("none", norm(l_))
    elif isinstance(e, ast.Call) and isinstance(e.func, ast.Name) and e.func.id == "truthy" and len(e.args) == 1:
        r = ("truthy", norm(e.args[0]))
    _ATOM_SHAPES[a] = r
    return r


def _len_arg(e):
    if isinstance(e, str):
        try:
            e = ast.parse(e, mode="eval").body
        except Exception:
            return None
    if isinstance(e, ast.Call) and isinstance(e.func, ast.Name) and e.func.id == "len" and len(e.args) == 1 and not e.keywords:
        return norm(e.args[0])
    return None


def _term_range(t):
    """(lo, hi) bounds every value of the term text obeys: len(..) >= 0, x % m in [0, m)"""
    try:
        e = ast.parse(t, mode="eval").body
    except Exception:
        return None, None
    if _len_arg(e) is not None:
        return 0, None
    if isinstance(e, ast.BinOp) and isinstance(e.op, ast.Mod) and isinstance(e.right, ast.Constant) and type(e.right.value) is int and e.right.value > 0:
        return 0, e.right.value - 1
    if isinstance(e, ast.BinOp) and isinstance(e.op, ast.BitAnd) and isinstance(e.right, ast.Constant) and type(e.right.value) is int and e.right.value >= 0:
        return 0, e.right.value
    return None, None


def _theory(atoms):
    """facts every assignment of these atoms obeys because of what their texts say: x == 2 excludes x == 3,
    x < 3 gives x < 5, None is falsy, a length is not negative.  As formulas over the atoms."""
    by = {}
    for a in atoms:
        sh = _atom_shape(a)
        if sh is not None:
            by.setdefault(sh[1], []).append((a, sh))
    ax = []
    A = lambda a: ("op", a)
    imp = lambda x, y: f_or(f_not(x), y)
    for t, lst in by.items():
        lo, hi = _term_range(t)
        for a, sh in lst:
            if sh[0] == "eq" and type(sh[2]) is int and not isinstance(sh[2], bool) and ((lo is not None and sh[2] < lo) or (hi is not None and sh[2] > hi)):
                ax.append(f_not(A(a)))
            if sh[0] == "lt":
                if lo is not None and sh[2] <= lo:
                    ax.append(f_not(A(a)))
                if hi is not None and sh[2] > hi:
                    ax.append(A(a))
        for i in range(len(lst)):
            for j in range(i + 1, len(lst)):
                (a, x), (b, y) = lst[i], lst[j]
                if x[0] > y[0]:
                    (a, x), (b, y) = (b, y), (a, x)
                kinds = (x[0], y[0])
                try:
                    if kinds == ("eq", "eq"):
                        if x[2] != y[2] or type(x[2]) is not type(y[2]) and not (isinstance(x[2], int) and isinstance(y[2], int)):
                            ax.append(f_not(f_and(A(a), A(b))))
                    elif kinds == ("lt", "lt"):
                        ax.append(imp(A(a), A(b)) if x[2] <= y[2] else imp(A(b), A(a)))
                    elif kinds == ("eq", "lt"):
                        if type(x[2]) is int or isinstance(x[2], bool):
                            ax.append(imp(A(a), A(b)) if x[2] < y[2] else imp(A(a), f_not(A(b))))
                    elif kinds == ("none", "truthy"):
                        ax.append(f_not(f_and(A(a), A(b))))
                    elif kinds == ("eq", "none"):
                        if x[2] is not None:
                            ax.append(f_not(f_and(A(a), A(b))))
                    elif kinds == ("eq", "truthy"):
                        ax.append(imp(A(a), A(b)) if x[2] else imp(A(a), f_not(A(b))))
                except TypeError:
                    pass
    # len(x) against truthy(x)
    for t, lst in by.items():
        inner = _len_arg(t)
        if inner is not None:
            for b, y in by.get(inner, []):
                if y[0] != "truthy":
                    continue
                for a, x in lst:
                    if x[0] == "eq" and type(x[2]) is int:
                        ax.append(imp(A(a), f_not(A(b))) if x[2] == 0 else imp(A(a), A(b)))
                        if x[2] == 0:
                            ax.append(imp(f_not(A(a)), A(b)))
                    if x[0] == "lt":
                        if x[2] <= 1:
                            ax.append(imp(A(a), f_not(A(b))))
                        if x[2] == 1:
                            ax.append(imp(f_not(A(a)), A(b)))
    return ax


def _bitparallel(fs):
    """truth tables of several formulas over their joint opaque atoms x the world of subject values, as big
    integers (one bit per (assignment, subject value)), restricted to the assignments the atoms' own texts allow"""
    atoms = []

    def collect(f):
        if f in (True, False):
            return
        if f[0] == "op":
            if f[1] not in atoms:
                atoms.append(f[1])
        elif f[0] == "not":
            collect(f[1])
        elif f[0] in ("and", "or"):
            for g in f[1]:
                collect(g)
    for f in fs:
        collect(f)
    world = _world(fs)
    if world is None:
        return None
    n = len(atoms)
    D = len(world)
    if n > 22 or (1 << n) * D > (1 << 24):
        return None
    size = 1 << n
    full_a = (1 << size) - 1
    block = (1 << D) - 1
    total = size * D
    full = (1 << total) - 1
    rep = full // block if D > 1 else full          # 1 at the start of every block
    masks = {}
    for i, a in enumerate(atoms):
        pat = (((1 << (1 << i)) - 1) << (1 << i)) * (full_a // ((1 << (1 << (i + 1))) - 1))
        if D == 1:
            masks[a] = pat
        else:
            m = 0
            j = 0
            p2 = pat
            while p2:
                if p2 & 1:
                    m |= block << (j * D)
                p2 >>= 1
                j += 1
            masks[a] = m
    set_masks = {}

    def set_mask(sv):
        k = id(sv)
        if k not in set_masks:
            bits = 0
            for j, wv in enumerate(world):
                if _member(sv, wv):
                    bits |= 1 << j
            set_masks[k] = bits * rep
        return set_masks[k]

    def ev(f):
        if f is True:
            return full
        if f is False:
            return 0
        if f[0] == "op":
            return masks[f[1]]
        if f[0] == "set":
            return set_mask(f[1])
        if f[0] == "not":
            return full ^ ev(f[1])
        if f[0] == "and":
            r = full
            for g in f[1]:
                r &= ev(g)
            return r
        r = 0
        for g in f[1]:
            r |= ev(g)
        return r
    T = full
    for axiom in _theory(atoms):
        T &= ev(axiom)
    return [ev(f) & T for f in fs], T


SET_UNIVERSE = None      # a rule whose value-set subject has a known range (x % 4) sets it for the comparison it makes


def _equiv(f1, f2):
    if repr(_sort_formula(f1)) == repr(_sort_formula(f2)):
        return True
    if SET_UNIVERSE is not None and ("'set'" in repr(f1) or "'set'" in repr(f2)):
        f1, f2 = gi.f_and(f1, ("set", SET_UNIVERSE)), gi.f_and(f2, ("set", SET_UNIVERSE))
    try:
        r = _bitparallel([f1, f2])
        if r is not None:
            (a, b), full = r
            return a == b
        ops = set(gi.f_opaques(f1) if f1 not in (True, False) else []) | set(gi.f_opaques(f2) if f2 not in (True, False) else [])
        if len(ops) > 12:
            return False
        return gi.f_equiv(f1, f2, gi.IntSet.all(), gi.IntSet.empty())
    except Exception:
        return False


def _sort_formula(f):
    if f in (True, False) or f[0] in ("op", "set"):
        return f
    if f[0] == "not":
        return ("not", _sort_formula(f[1]))
    parts = sorted((_sort_formula(g) for g in f[1]), key=repr)
    return (f[0], tuple(parts))


POLICY = os.environ.get("VERIF_DIFF_POLICY", "medium")
LAST_EXTRA = []


def _vname_mapping(details):
    """when every `differs` pair differs only in the numbering of locals (_v3 where the reference has _v2), the
    consistent one-to-one renaming of the code's locals that makes them agree; else None"""
    import difflib
    import re
    m = {}
    seen = False
    for d in details:
        if d[0] not in ("differs", "order"):
            continue
        ta, tb = _tokens(d[2] or ""), _tokens(d[3] or "")
        if len(ta) != len(tb):
            return None
        for x, y in zip(ta, tb):
            if x == y:
                continue
            if not ((re.fullmatch(r"_v\d+", x) and re.fullmatch(r"_v\d+", y)) or (re.fullmatch(r"loop\d+", x) and re.fullmatch(r"loop\d+", y))):
                return None
            if m.setdefault(y, x) != x:
                return None
            seen = True
    if not seen or len(set(m.values())) != len(m):
        return None
    # complete to a permutation
    for pre in ("_v", "loop"):
        missing_src = [v for v in m.values() if v not in m and v.startswith(pre)]
        missing_dst = [k for k in m if k not in m.values() and k.startswith(pre)]
        for a_, b_ in zip(sorted(missing_src), sorted(missing_dst)):
            m[a_] = b_
    return m


def _rename_summary(sm, m):
    import re
    pat = re.compile(r"(?<![A-Za-z0-9_])(?:_v|loop)\d+(?![A-Za-z0-9_])")
    ren = lambda t: pat.sub(lambda mo: m.get(mo.group(0), mo.group(0)), t)

    def rf(f):
        if f in (True, False):
            return f
        if f[0] == "op":
            return ("op", ren(f[1])) if isinstance(f[1], str) else f
        if f[0] == "set":
            return f
        if f[0] == "not":
            return ("not", rf(f[1]))
        return (f[0], [rf(g) for g in f[1]]) if isinstance(f[1], list) else (f[0], tuple(rf(g) for g in f[1]))
    return Summary([Item(i.kind, ren(i.head), rf(i.cond)) for i in sm.items], sm.w)


def _written_locations(sm):
    """attribute / item locations a function writes that outlive the call: `self.a`, `self.a[]`, `cls.a`, `param.a[]`,
    `GLOBAL[]` -- not locals (numbered _vN) and not the values"""
    import re
    out = set()
    for it in sm.items:
        if it.kind == "effect" and it.head.startswith("call "):
            # an in-place addition to a container the object holds: self._seen.add(x), self._memo.update(..)
            m = re.match(r"^call ((?:self|cls|class_)(?:\.[A-Za-z_][A-Za-z_0-9]*)+)\.(add|update|setdefault|append|extend|insert)\(", it.head)
            if m:
                out.add(m.group(1) + "[]")
            continue
        if it.kind != "effect":
            continue
        head = it.head.split(" in loop")[0].split(" after ")[0]
        m = re.match(r"^([A-Za-z_][A-Za-z_0-9]*(?:\.[A-Za-z_][A-Za-z_0-9]*)*)(\[.*?\])? = ", head)
        if not m:
            continue
        path, sub = m.group(1), m.group(2)
        root = path.split(".")[0]
        if re.fullmatch(r"_v\d+", root) or "__" in root and re.search(r"__\d+__", root):
            continue            # a local (or the local of a spliced helper)
        if "." not in path and not sub:
            continue
        out.add(path + ("[]" if sub else ""))
    return out


_KNOWN_ATTRS = {}


def _attrs_written_in(tree):
    """names of every attribute some function of the reviewed module stores to, item-stores into or mutates"""
    k = id(tree)
    if k not in _KNOWN_ATTRS:
        out = set()
        for n in ast.walk(tree):
            t = None
            if isinstance(n, ast.Attribute) and isinstance(n.ctx, (ast.Store, ast.Del)):
                t = n
            elif isinstance(n, ast.Subscript) and isinstance(n.ctx, (ast.Store, ast.Del)) and isinstance(n.value, ast.Attribute):
                t = n.value
            elif isinstance(n, ast.Call) and isinstance(n.func, ast.Attribute) and n.func.attr in MUTATORS and isinstance(n.func.value, ast.Attribute):
                t = n.func.value
            if t is not None:
                out.add(t.attr)
        _KNOWN_ATTRS[k] = out
    return _KNOWN_ATTRS[k]


def new_state(code, ref, func_name="", ref_tree=None):
    """locations written by the code that the reference never writes (a memo, a cache, a flag): state that makes a later
    call depend on an earlier one.  Constructors are exempt (they define the object's attributes), and so is an attribute
    that some other reviewed function of the module already maintains (the write may have moved here with its code)."""
    if func_name in ("__init__", "__new__", "__post_init__", "__setstate__"):
        return []
    new = _written_locations(code) - _written_locations(ref)
    if ref_tree is not None and new:
        known = _attrs_written_in(ref_tree)
        new = {loc for loc in new if loc.replace("[]", "").rsplit(".", 1)[-1] not in known}
    return sorted(new)


def _sat_formula(f):
    try:
        return not _equiv(f, False)
    except Exception:
        return True


MEMO_INVALIDATION = None # callable(attribute name) -> state-changing methods of the function's class that never refer to the attribute (set per function by reference_status)
INIT_ONLY_ATTRS = None   # attributes of repo classes assigned in constructors only (set by reference_status)
WEAK_EQ_ATTRS = None     # attribute names of repo classes that define __eq__ (set by reference_status from the program model)



def _memo_invalidation_for(ctx, fi):
    """-> callable(attr) listing the methods of fi's class (other than fi, constructors excluded) that change the object's state --
    store to / mutate an attribute of self, or run SQL that writes -- and refer to `attr` neither themselves nor through the methods
    of the class they call; None for a function that is no method"""
    import re
    cls = getattr(fi, "cls", None)
    if cls is None:
        return None
    meths = {}
    for k in reversed(ctx.p.mro(cls)):
        for n, m in k.methods.items():
            if isinstance(m.node, (ast.FunctionDef, ast.AsyncFunctionDef)):
                meths[n] = m

    def self_calls(m):
        return {c.func.attr for c in ast.walk(m.node) if isinstance(c, ast.Call) and isinstance(c.func, ast.Attribute) and isinstance(c.func.value, ast.Name) and c.func.value.id == "self" and c.func.attr in meths}

    def writes_state(m, seen=()):
        for n in ast.walk(m.node):
            base = None
            if isinstance(n, (ast.Attribute, ast.Subscript)) and isinstance(n.ctx, (ast.Store, ast.Del)):
                base = n.value if isinstance(n, ast.Subscript) else n
            elif isinstance(n, ast.Call) and isinstance(n.func, ast.Attribute) and n.func.attr in MUTATORS:
                base = n.func.value
            while isinstance(base, ast.Subscript):
                base = base.value
            if isinstance(base, ast.Attribute) and isinstance(base.value, ast.Name) and base.value.id == "self":
                return True
            if isinstance(n, ast.Constant) and isinstance(n.value, str) and re.search(r"\b(insert|update|delete|replace)\b", n.value, re.I) and re.search(r"\b(into|from|set)\b", n.value, re.I):
                return True
        return any(writes_state(meths[c], seen + (m.node.name,)) for c in self_calls(m) if c not in seen and c != m.node.name)

    def refers(m, attr, seen=()):
        if any(isinstance(n, ast.Attribute) and n.attr == attr for n in ast.walk(m.node)):
            return True
        return any(refers(meths[c], attr, seen + (m.node.name,)) for c in self_calls(m) if c not in seen and c != m.node.name)

    def direct_writes(m):
        """[(attribute of self that is written, text of the key it is written under or None)]; SQL that writes counts as ('<sql>', None)"""
        out = []
        for n in ast.walk(m.node):
            base, key = None, None
            if isinstance(n, (ast.Attribute, ast.Subscript)) and isinstance(n.ctx, (ast.Store, ast.Del)):
                base = n
            elif isinstance(n, ast.Call) and isinstance(n.func, ast.Attribute) and n.func.attr in MUTATORS:
                base = n.func.value
            if base is not None:
                while isinstance(base, ast.Subscript):
                    key = norm(base.slice)
                    base = base.value
                if isinstance(base, ast.Attribute) and isinstance(base.value, ast.Name) and base.value.id == "self":
                    out.append((base.attr, key))
            if isinstance(n, ast.Constant) and isinstance(n.value, str) and re.search(r"\b(insert|update|delete|replace)\b", n.value, re.I) and re.search(r"\b(into|from|set)\b", n.value, re.I):
                out.append(("<sql>", None))
        return out

    def resets(m, attr, seen=()):
        """the method empties or re-binds the memo (itself or through a method of the class it calls)"""
        for n in ast.walk(m.node):
            if isinstance(n, ast.Call) and isinstance(n.func, ast.Attribute) and n.func.attr == "clear" and isinstance(n.func.value, ast.Attribute) and n.func.value.attr == attr:
                return True
            if isinstance(n, ast.Attribute) and n.attr == attr and isinstance(n.ctx, ast.Store) and isinstance(n.value, ast.Name) and n.value.id == "self":
                return True
        return any(resets(meths[c], attr, seen + (m.node.name,)) for c in self_calls(m) if c not in seen and c != m.node.name)

    def discards(m, attr):
        return {norm(n.args[0]) for n in ast.walk(m.node) if isinstance(n, ast.Call) and isinstance(n.func, ast.Attribute) and n.func.attr in ("discard", "remove", "pop") and n.args
                and isinstance(n.func.value, ast.Attribute) and n.func.value.attr == attr} | \
               {norm(n.slice) for n in ast.walk(m.node) if isinstance(n, ast.Subscript) and isinstance(n.ctx, ast.Del) and isinstance(n.value, ast.Attribute) and n.value.attr == attr}

    def lacking(attr):
        out, writers = [], 0
        for n, m in sorted(meths.items()):
            if m is fi or n in ("__init__", "__new__") or n == getattr(fi.node, "name", None):
                continue
            try:
                dw = [w_ for w_ in direct_writes(m) if w_[0] != attr]
                if not dw:
                    continue                # changes state only through methods that are judged on their own, or maintains the memo itself
                writers += 1
                if resets(m, attr):
                    continue
                dk = discards(m, attr)
                # a write under a key is answered by dropping that key's entry; anything else needs the memo emptied
                if not all(k_ is not None and k_ in dk for _a, k_ in dw):
                    out.append(n)
            except RecursionError:
                continue
        # a class none of whose other methods changes its state: what the memo depends on is changed from OUTSIDE (the
        # transaction a checker holds), and no method could invalidate it -- the coverage says nothing then
        return out if writers else None
    return lacking


def _strip_all(text, pieces):
    for p_ in sorted(pieces, key=len, reverse=True):
        text = text.replace(p_, "0")
    return text


def stale_memo(sm, new_locs):
    """of the locations a function newly keeps between calls, those that can go STALE by the look of the code: some exit returns
    what is stored there under a condition that reads nothing of the object's state (it tests only that the memo is filled, or
    looks a key made of the arguments up), while the value that was stored was computed FROM the object's state.  A memo whose
    hit condition compares with the current state (a stamp, the key it was computed from, an identity test) is not judged here."""
    import re
    out = []
    loc_attrs = {l.replace("[]", "") for l in new_locs}
    _PURE = {"tuple", "len", "hash", "bool", "int", "str", "bytes", "isinstance", "sorted", "min", "max", "abs", "sum", "any", "all", "list", "dict", "set", "frozenset", "repr", "id", "type",
             "truthy", "bit", "getattr", "ord", "chr", "range", "enumerate", "zip", "map", "filter", "divmod", "round", "bytearray", "memoryview", "iter", "next", "reversed", "hasattr"}
    # a callable that was handed in or bound locally (a bound method, a closure) may read the object's state
    calls_param = lambda t_: any(nm_ not in _PURE for nm_ in re.findall(r"(?<![\w.])([A-Za-z_]\w*)\(", t_))

    def state_reads(text, exclude):
        reads = set()
        for m in re.finditer(r"(?<![\w.])([A-Za-z_]\w*(?:\.[A-Za-z_]\w*)+)", text):
            path = m.group(1)
            root = path.split(".")[0]
            if re.fullmatch(r"_v\d+|_b\d+(_\d+)?", root) or root in ("struct", "hashlib", "itertools", "functools", "os", "io", "binascii", "re", "math"):
                continue
            if any(path == e or path.startswith(e + ".") for e in exclude):
                continue
            # a method called on a collaborator the object is CONFIGURED with (an attribute bound in the constructor only:
            # self._script_tools.compile(..), self._network.parse...) is not a read of state that changes between calls
            parts = path.split(".")
            if text[m.end():m.end() + 1] == "(" and len(parts) == 3 and parts[0] in ("self", "cls") and INIT_ONLY_ATTRS is not None and parts[1] in INIT_ONLY_ATTRS:
                continue
            reads.add(path)
        return reads
    from .ct import fmt_formula
    for loc in sorted(loc_attrs):
        attr = loc.rsplit(".", 1)[-1]
        spellings = (loc, "getattr(%s, '%s'" % (loc.rsplit(".", 1)[0], attr))

        def mentions(text):
            return any(sp in text for sp in spellings)
        # what is put there: plain stores, item stores, and in-place additions (a set of `known misses` is filled with .add)
        stores = [it for it in sm.items if it.kind == "effect" and (it.head.startswith(loc + " = ") or it.head.startswith(loc + "[") or it.head.startswith("call %s." % loc))]
        if not stores:
            continue
        fn0_ = getattr(getattr(sm, "w", None), "node", None)
        params_all = [a.arg for a in fn0_.args.posonlyargs + fn0_.args.args + fn0_.args.kwonlyargs if a.arg not in ("self", "cls", "class_")] if isinstance(fn0_, (ast.FunctionDef, ast.AsyncFunctionDef)) else []
        local_callables = {}
        if fn0_ is not None:
            for n_ in ast.walk(fn0_):
                if n_ is not fn0_ and isinstance(n_, (ast.FunctionDef, ast.AsyncFunctionDef)):
                    local_callables[n_.name] = " ; ".join(norm(x_) for b_ in n_.body for x_ in ast.walk(b_) if isinstance(x_, ast.Attribute))
                elif isinstance(n_, ast.Assign) and isinstance(n_.value, ast.Lambda) and len(n_.targets) == 1 and isinstance(n_.targets[0], ast.Name):
                    local_callables[n_.targets[0].id] = " ; ".join(norm(x_) for x_ in ast.walk(n_.value.body) if isinstance(x_, ast.Attribute))
        computed_from = set()
        for it in stores:
            v = it.head.split(" = ", 1)[1] if " = " in it.head and not it.head.startswith("call ") else it.head
            v = v.split(" in loop")[0].split(" after ")[0]
            from_value = state_reads(v, {loc})
            # the result of calling a callable that was handed in (a bound method passed as `compute`, `fn`): what it reads is
            # not visible here, and a bound method reads its object's state
            for p_ in params_all:
                if re.search(r"(?<![\w.])%s\(" % re.escape(p_), v.split(" = ", 1)[-1] if " = " in v else v):
                    from_value = from_value | {"<what the callable `%s` reads>" % p_}
            # ... and a closure defined in the function reads what its body reads
            for cn_, body_ in local_callables.items():
                if re.search(r"(?<![\w.])%s\(" % re.escape(cn_), v.split(" = ", 1)[-1] if " = " in v else v):
                    from_value = from_value | state_reads(body_, {loc})
            if re.search(r"(?<![\w.])_v\d+\b", v.split(" = ", 1)[-1] if " = " in v else v):
                # the value is built in a local (a stream, a list) by loops that run when the memo is filled: what those loops
                # range over is what the value is computed from
                vlocals = set(re.findall(r"(?<![\w.])(_v\d+)\b", v.split(" = ", 1)[-1] if " = " in v else v))
                filling = set()
                for it2 in sm.items:
                    mloop = re.search(r" in (loop\d+)\b", it2.head)
                    if it2.kind == "effect" and mloop and any(re.search(r"(?<![\w.])%s\b" % vl, it2.head.split(" in loop")[0]) for vl in vlocals):
                        filling.add(mloop.group(1))
                for it2 in sm.items:
                    if it2.kind == "loop-iter" and " in " in it2.head and it2.head.split(" ", 1)[0] in filling:
                        from_value = from_value | state_reads(it2.head.split(" in ", 1)[1], {loc})
            computed_from |= from_value
            if not from_value and (it.head.startswith("call %s." % loc) or re.fullmatch(r"\s*(True|False|None|-?\d+|'[^']*'|b'[^']*')\s*", v.split(" = ", 1)[-1] if " = " in v else v)):
                # a flag: what it records is the condition under which it is set
                computed_from |= state_reads(fmt_formula(it.cond) if it.cond not in (True, False) else "", {loc})
        # what is kept may also depend on an ARGUMENT of the call that filled it: then the slot (or its key) has to say which
        fn_ = getattr(getattr(sm, "w", None), "node", None)
        params = []
        if isinstance(fn_, (ast.FunctionDef, ast.AsyncFunctionDef)):
            params = [a.arg for a in fn_.args.posonlyargs + fn_.args.args + fn_.args.kwonlyargs if a.arg not in ("self", "cls", "class_")]
        arg_dep = set()
        for it in stores:
            head = it.head.split(" in loop")[0].split(" after ")[0]
            if " = " in head and not head.startswith("call "):
                tgt_, val_ = head.split(" = ", 1)
                for p_ in params:
                    if re.search(r"(?<![\w.])%s\b" % re.escape(p_), val_) and not re.search(r"(?<![\w.])%s\b" % re.escape(p_), tgt_):
                        arg_dep.add(p_)
        if arg_dep:
            miss_ = f_or(*[it.cond for it in stores])
            for it in sm.items:
                # where the kept value is USED: handed out by an exit, or handed on to a call / a stream
                if it in stores or not mentions(it.head) or not ((it.kind == "exit" and it.head.startswith("return ")) or (it.kind == "effect" and it.head.startswith("call "))):
                    continue
                hit_ = f_and(it.cond, f_not(miss_)) if miss_ not in (True, False) else it.cond
                if hit_ is False or not _sat_formula(hit_):
                    continue
                atoms_ = [a for a in (gi.f_opaques(hit_) if hit_ not in (True, False) else []) if isinstance(a, str)]
                for p_ in sorted(arg_dep):
                    if not any(re.search(r"(?<![\w.])%s\b" % re.escape(p_), a) for a in atoms_) and not re.search(r"(?<![\w.])%s\b" % re.escape(p_), it.head):
                        out.append("what is kept in %s was computed from the argument `%s` of the call that filled it, and it is handed out again (`%s`) whatever `%s` is this time: one slot for every value of the argument"
                                   % (loc, p_, it.head[:40], p_))
                        break
                if out:
                    break
            if out:
                continue
        # a key that is a PROJECTION of an argument (its length, a slice, its type), filled only on the calls that passed a test of
        # the argument ITSELF, and handed out before that test is made again: the call for which the test goes the other way gets
        # the answer of one for which it did not
        proj_done = False
        for it in stores:
            head = it.head.split(" in loop")[0].split(" after ")[0]
            mk = re.match(r"^%s\[(.+?)\] = " % re.escape(loc), head)
            if not mk or it.cond in (True, False):
                continue
            key_ = mk.group(1)
            for p_ in params:
                pr_ = r"(?<![\w.])%s\b" % re.escape(p_)
                if not re.search(pr_, key_):
                    continue
                projections = [m_.group(0) for m_ in re.finditer(r"(?:len|type)\(%s\)|(?<![\w.])%s\[[^\]]*:[^\]]*\]" % (re.escape(p_), re.escape(p_)), key_)]
                if not projections or re.search(pr_, _strip_all(key_, projections)):
                    continue            # the argument itself is (part of) the key
                tests = []
                for a in (gi.f_opaques(it.cond) if it.cond not in (True, False) else []):
                    if isinstance(a, str) and not mentions(a) and re.search(pr_, _strip_all(a, projections)) and (entails(it.cond, ("op", a)) or entails(it.cond, ("not", ("op", a)))):
                        tests.append(a)
                if not tests:
                    continue
                for it2 in sm.items:
                    if it2 in stores or it2.kind != "exit" or not it2.head.startswith("return ") or not (mentions(it2.head) or mentions(fmt_formula(it2.cond) if it2.cond not in (True, False) else "")):
                        continue
                    hit_ = f_and(it2.cond, f_not(f_or(*[x.cond for x in stores])))
                    if hit_ is False or not _sat_formula(hit_):
                        continue
                    open_ = [a for a in tests if not entails(hit_, ("op", a)) and not entails(hit_, ("not", ("op", a)))]
                    if open_:
                        out.append("%s is keyed by `%s`, a projection of the argument `%s`, and filled only on calls for which `%s` %s; a hit (`%s`) is handed out without that test: a call for which it goes the other way gets the answer of one for which it did not"
                                   % (loc, key_[:40], p_, open_[0][:60], "holds" if entails(it.cond, ("op", open_[0])) else "fails", it2.head[:50]))
                        proj_done = True
                        break
                if proj_done:
                    break
            if proj_done:
                break
        if proj_done:
            continue
        if not computed_from:
            continue
        miss = f_or(*[it.cond for it in stores])         # the paths on which the memo is (re)filled
        hide = lambda t: t.replace("getattr(%s, '%s'" % (loc.rsplit(".", 1)[0], attr), "getattr(_memo")
        for it in sm.items:
            if it.kind != "exit" or not it.head.startswith("return "):
                continue
            cond_text = fmt_formula(it.cond) if it.cond not in (True, False) else ""
            if not (mentions(it.head) or mentions(cond_text)):
                continue
            hit = f_and(it.cond, f_not(miss)) if miss not in (True, False) else it.cond      # ... and those on which it is handed out as it is
            if hit is False or not _sat_formula(hit):
                continue
            # the tests that tell a hit from a miss: atoms that hold on one and fail on the other
            atoms = [a for a in (gi.f_opaques(hit) if hit not in (True, False) else []) if isinstance(a, str)]
            telling = [a for a in atoms if (entails(hit, ("op", a)) and miss not in (True, False) and entails(miss, ("not", ("op", a)))) or
                       (entails(hit, ("not", ("op", a))) and miss not in (True, False) and entails(miss, ("op", a)))]
            if not telling:
                telling = [a for a in atoms if mentions(a)]
            if telling and not any(state_reads(hide(a), {loc}) or calls_param(a) for a in telling) and not state_reads(hide(it.head[7:]), {loc}):
                # ... unless every other method of the class that changes the object's state refers to the memo (resets it): then
                # whether it can go stale is a question about those methods, and this rule gives no verdict
                lacking = MEMO_INVALIDATION(attr) if MEMO_INVALIDATION is not None else None
                if lacking is not None and not lacking:
                    continue
                if lacking:
                    out.append("the result is decided by %s alone (`%s` when `%s`), what is kept there depends on %s, and %s change%s the object's state without referring to it: after such a call the kept value is served as if nothing had changed"
                               % (loc, it.head[:40], " and ".join(telling)[:70], ", ".join(sorted(computed_from))[:80], ", ".join(lacking[:4]), "s" if len(lacking) == 1 else ""))
                    break
                out.append("the result is decided by %s alone (`%s` when `%s`: no test that tells a hit from a miss reads anything else of the object's state), while what is kept there depends on %s"
                           % (loc, it.head[:40], " and ".join(telling)[:70], ", ".join(sorted(computed_from))[:80]))
                break
            # a WEAK key: the tests that tell a hit from a miss look at a container only through its LENGTH, or compare it with a
            # kept copy whose elements compare by identity, while the miss path computes the kept value from the elements
            if telling:
                ttxt = " ; ".join(hide(a) for a in telling)
                only_len = {m_.group(1) for m_ in re.finditer(r"len\(([A-Za-z_][\w.]*)\)", ttxt)}
                deep = state_reads(re.sub(r"len\([A-Za-z_][\w.]*\)", "0", ttxt), {loc})
                walked = {}
                for it2 in sm.items:
                    m2 = re.match(r"^loop\d+ for (\(?[_\w, ]+\)?) in (.+)$", it2.head) if it2.kind == "loop-iter" else None
                    if m2 and (miss in (True, False) or entails(it2.cond, miss)):
                        walked[m2.group(2).strip()] = m2.group(1)
                for path_, var_ in walked.items():
                    base_ = re.sub(r"^(enumerate|list|tuple|iter|reversed)\((.*)\)$", r"\2", path_)
                    if base_ in only_len and base_ not in deep:
                        out.append("a hit is decided by the LENGTH of %s (`%s`), while what is kept in %s is computed from its elements: changing an element leaves the kept value in use"
                                   % (base_, " and ".join(telling)[:80], loc))
                        break
                    if base_ in deep and WEAK_EQ_ATTRS is not None:
                        vars_ = [v_.strip() for v_ in var_.strip("()").split(",")]
                        used = set()
                        for it3 in sm.items:
                            for v_ in vars_:
                                used |= set(re.findall(r"(?<![\w.])%s\.([A-Za-z_]\w*)" % re.escape(v_), it3.head))
                        if used and not (used & WEAK_EQ_ATTRS):
                            out.append("a hit is decided by comparing %s with a kept copy (`%s`); its elements (read through .%s) define no equality, so they compare by identity: changing an element in place leaves the kept value in %s in use"
                                       % (base_, " and ".join(telling)[:80], ", .".join(sorted(used))[:40], loc))
                            break
                if out:
                    break
        # the memo gates WORK (a lookup is skipped when the key is in a set of known misses) rather than the value handed out: the tests
        # about it read nothing but the memo, and some method that changes the object's state never refers to it
        if not any(loc in o_ for o_ in out) and computed_from:
            lacking = MEMO_INVALIDATION(attr) if MEMO_INVALIDATION is not None else None
            a_atoms = set()
            for it in sm.items:
                if it.cond not in (True, False):
                    a_atoms |= {a for a in gi.f_opaques(it.cond) if isinstance(a, str) and mentions(a)}
            if (lacking is None or lacking) and a_atoms and not any(state_reads(hide(a), {loc}) or calls_param(a) for a in a_atoms):
                who = ("%s change%s the object's state without referring to it" % (", ".join(lacking[:4]), "s" if len(lacking) == 1 else "")) if lacking else "nothing in the class resets it when that state changes"
                out.append("whether %s does its state-dependent work (%s) is decided by tests that read only the memo (`%s`), and %s: the remembered result is used as if nothing had changed"
                           % (getattr(fn_, "name", "the function"), ", ".join(sorted(computed_from))[:70], sorted(a_atoms)[0][:60], who))
    return out


def compare_summaries(code, ref, near=0.7, _renamed=False):
    status, details = _compare_summaries(code, ref, near)
    if status != "same" and not _renamed:
        m = _vname_mapping(details)
        if m:
            st2, det2 = _compare_summaries(_rename_summary(code, m), ref, near)
            if {"same": 0, "differs": 1, "near": 2, "unrecognised": 3}[st2] <= {"same": 0, "differs": 1, "near": 2, "unrecognised": 3}[status] and len(det2) < len(details):
                return st2, det2
    return status, details


def _compare_summaries(code, ref, near=0.7):
    """-> (status, details): 'same' | 'differs' (every component of the reference has a counterpart, at least one
    computes something else or happens under another condition) | 'unrecognised' (some component of the
    reference has no counterpart: the function is organised differently, no verdict)"""
    import difflib
    from .ct import fmt_formula
    ff = lambda f: fmt_formula(f) if f not in (True, False) else str(f)
    ga, oa = code.grouped()
    gb, ob = ref.grouped()
    details = []
    unmatched_code = [k for k in oa if k not in gb]
    far = False
    for k in ob:
        if k in ga:
            if not _equiv(ga[k], gb[k]):
                details.append(("condition", k[0], "%s when %s" % (k[1], ff(gb[k])), "%s when %s" % (k[1], ff(ga[k])), 1.0))
            continue
        base = k[1].split(" after ")[0]
        same_base = [k2 for k2 in unmatched_code if k2[0] == k[0] and k2[1].split(" after ")[0] == base]
        if " after " in k[1] and same_base:
            unmatched_code.remove(same_base[0])
            details.append(("order", k[0], k[1], same_base[0][1], 1.0))
            continue
        if k[0] == "signature" and k[1].startswith("default ") and " = " in k[1]:
            # the default of the SAME parameter: the two correspond, whatever their values look like
            pre_ = k[1].split(" = ", 1)[0] + " = "
            twin_ = [k2 for k2 in unmatched_code if k2[0] == "signature" and k2[1].startswith(pre_)]
            # ... when both are immutable constants: `cache={}` turned into `cache=None` + `if cache is None: cache = {}` is the
            # usual repair of a mutable default, and whether it changes anything is a question about the body
            _imm = lambda t_: bool(re.fullmatch(r"None|True|False|-?\d+(\.\d+)?|b?'[^']*'|b?\"[^\"]*\"|\(\)", t_.strip()))
            if twin_ and not (_imm(k[1].split(" = ", 1)[1]) and _imm(twin_[0][1].split(" = ", 1)[1])):
                twin_ = []
            if twin_:
                unmatched_code.remove(twin_[0])
                details.append(("differs", k[0], k[1], twin_[0][1], 1.0))
                continue
        best, bk = 0.0, None
        tk = _tokens(k[1])
        for k2 in unmatched_code:
            if k2[0] != k[0]:
                continue
            r = difflib.SequenceMatcher(None, tk, _tokens(k2[1]), autojunk=False).ratio()
            if r > best:
                best, bk = r, k2
        same_kind_ref = [x for x in ob if x not in ga and x[0] == k[0]]
        same_kind_code = [x for x in unmatched_code if x[0] == k[0]]
        if (bk is None or best < near) and len(same_kind_ref) == 1 and len(same_kind_code) == 1 and k[0] != "exit":
            # the only component of its kind without an exact counterpart on either side: they correspond by elimination
            bk, best = same_kind_code[0], max(best, near)
        if bk is None or best < near:
            far = True
            details.append(("missing", k[0], k[1], None, best))
        else:
            unmatched_code.remove(bk)
            details.append(("differs", k[0], k[1], bk[1], best))
    global LAST_EXTRA
    extra = [k2 for k2 in unmatched_code if k2[0] in ("exit", "effect", "loop-iter") and not k2[1].startswith(("continue", "break"))]
    LAST_EXTRA = extra
    if not details:
        if [k2 for k2 in extra if k2[0] == "effect"]:
            # everything the reference does is done, under the same conditions -- and something more
            return "near", [("extra", k2[0], None, k2[1], 0.0) for k2 in extra]
        return "same", []
    if far:
        return "unrecognised", details
    if POLICY == "lenient":
        return "differs", details
    # a verdict of its own needs a difference that cannot be a reorganisation: the same skeleton with a constant, an
    # operator or a name exchanged; the same tests combined to a different condition; tests added to or dropped from
    # a condition.  Every component paired but the differences larger than that: 'near' (a witness, not a verdict).
    _atoms = lambda f: set(a for a in (gi.f_opaques(f) if f not in (True, False) else []) if isinstance(a, str))
    all_code, all_ref = set(), set()
    for f_ in ga.values():
        all_code |= _atoms(f_)
    for f_ in gb.values():
        all_ref |= _atoms(f_)
    # cases that moved between `return X` and `return X.copy()` (public_copy, copy, clone: a method whose result equals its
    # receiver where the receiver already is what the copy would be) are no verdict: whether the copy is observable is a fact
    # about that method, not about this function
    cond_heads = [d[2].rsplit(" when ", 1)[0] for d in details if d[0] == "condition" and d[1] == "exit"]
    if len(cond_heads) >= 2 and len(cond_heads) == sum(1 for d in details if d[0] in ("condition", "differs")):
        import re as _re
        strip = lambda h: _re.sub(r"\.(public_copy|copy|clone|__copy__)\(\)$", "", h)
        if len({strip(h) for h in cond_heads}) < len(set(cond_heads)):
            return "near", details
    for d in details:
        if d[0] == "condition" and any(k2[0] == d[1] for k2 in unmatched_code) and not _adds_only(ga, gb, d, all_code, all_ref):
            return "near", details      # the cases this component lost may have gone to a component the reference does not have
        if d[0] == "condition":
            k = (d[1], d[2].rsplit(" when ", 1)[0])
            fa, fb = ga.get(k), gb.get(k)
            if fa is None or fb is None or not _condition_mutation(fa, fb, all_code, all_ref, extra):
                return "near", details
        elif d[0] == "differs":
            if not _mutation_like(d[2], d[3]):
                return "near", details
            if d[1] == "effect" and _store_location(d[2]) is not None:
                # a store is observable through the LAST value written to the location on a path: where the function writes the
                # location more than once, the values of the single stores may differ while what is left there does not
                loc = _store_location(d[2])
                if sum(1 for k2 in gb if k2[0] == "effect" and _store_location(k2[1]) == loc) > 1 or sum(1 for k2 in ga if k2[0] == "effect" and _store_location(k2[1]) == _store_location(d[3])) > 1:
                    return "near", details
            # a few leaf tokens apart is a candidate; the verdict needs a witness (sa/refute.py): operand values, compatible with
            # both path conditions, for which the two expressions evaluate differently
            from . import refute
            if refute.refute_heads(d[2], d[3], [f_ for f_ in (gb.get((d[1], d[2])), ga.get((d[1], d[3]))) if f_ is not None]) is not True:
                return "near", details
    return "differs", details


def _store_location(head):
    """`T[k]` / `T.a` of a store effect `T[k] = v`, `T.a = v`, `T[k] op= v`; None for anything else"""
    import re
    if head.startswith(("call ", "yield ", "del ")):
        return None
    m = re.match(r"^(.+?) (?:[-+*/%&|^]|<<|>>|//)?= ", head)
    if not m:
        return None
    loc = m.group(1)
    return loc if loc.count("(") == loc.count(")") and loc.count("[") == loc.count("]") else None


def _witnessed(details, s_code, s_ref):
    """some paired component of the two summaries differs for a witness valuation (sa/refute.py)"""
    from . import refute
    ga, _oa = s_code.grouped()
    gb, _ob = s_ref.grouped()
    for d in details:
        if d[0] == "differs" and d[2] and d[3]:
            if refute.refute_heads(d[2], d[3], [f_ for f_ in (gb.get((d[1], d[2])), ga.get((d[1], d[3]))) if f_ is not None]) is True:
                return True
        elif d[0] == "condition":
            k = (d[1], d[2].rsplit(" when ", 1)[0])
            fa, fb = ga.get(k), gb.get(k)
            if fa is not None and fb is not None and refute.refute_conditions(fb, fa) is True:
                return True
    return False


def _mutation_like(ref_text, code_text, limit=3):
    """the two texts have the same bracket skeleton and differ in at most `limit` leaf tokens"""
    import difflib
    ta, tb = _tokens(ref_text), _tokens(code_text)
    changed = 0
    for tag, i1, i2, j1, j2 in difflib.SequenceMatcher(None, ta, tb, autojunk=False).get_opcodes():
        if tag == "equal":
            continue
        da, db = ta[i1:i2], tb[j1:j2]
        if any(t in ("(", ")", "[", "]", "{", "}", ",", ":", "for", "in", "if", "else", "lambda") for t in da + db):
            return False
        changed += max(len(da), len(db))
    return 0 < changed <= limit


def _adds_only(ga, gb, d, all_code, all_ref):
    """the condition of this component gained tests that are new to the function and lost none"""
    k = (d[1], d[2].rsplit(" when ", 1)[0])
    fa, fb = ga.get(k), gb.get(k)
    if fa is None or fb is None:
        return False
    atoms = lambda f: set(a for a in (gi.f_opaques(f) if f not in (True, False) else []) if isinstance(a, str))
    a, b = atoms(fa), atoms(fb)
    return bool(a - b) and not (b - a) and not ((a - b) & all_ref) and not (all_ref - all_code)


def _condition_mutation(f_code, f_ref, all_code=None, all_ref=None, extra=()):
    """the two conditions test the same things (or the same but for one constant / operator) and still differ"""
    atoms = lambda f: set(a for a in (gi.f_opaques(f) if f not in (True, False) else []) if isinstance(a, str))
    a, b = atoms(f_code), atoms(f_ref)
    if a == b:
        return True             # the same tests (value-set atoms are decided exactly by the truth table) combined differently
    if ("'set'" in repr(f_code) or "'set'" in repr(f_ref)) and len(a - b) <= len(b - a):
        return True             # value sets differ, and the function gained no more tests than it lost (an exchange or a drop, not a new case split)
    only_a, only_b = sorted(a - b), sorted(b - a)
    if len(only_a) == len(only_b) == 1 and _mutation_like(only_b[0], only_a[0], 2):
        from . import refute
        r_ = refute.refute_atoms(only_b[0], only_a[0])
        if os.environ.get("VERIF_REFUTE_DEBUG"):
            print("REFUTE atoms", r_, "|", only_b[0][:200], "|", only_a[0][:200])
        if r_ is True:       # `n > 20` for `n >= 21` is the same test
            return True
    if 1 <= len(only_a) <= 2 and 1 <= len(only_b) <= 2:
        # one test exchanged for another test ABOUT THE SAME OPERANDS (`if rest:` for `if len(rest) > 1:`): a verdict when a witness
        # valuation of those operands, with every other atom about them evaluated as well, makes the two conditions differ
        from . import refute
        if refute.same_operands(only_b, only_a):
            r_ = refute.refute_conditions(f_ref, f_code)
            if os.environ.get("VERIF_REFUTE_DEBUG"):
                print("REFUTE exchange", r_, "|", only_b, "|", only_a)
            if r_ is True:
                return True
    if POLICY in ("round5", "added") and only_a and not only_b and extra and all_code is not None and all_ref is not None \
            and not (set(only_a) & all_ref) and not (all_ref - all_code):
        # tests added, new to the function, none lost, AND the function has a way out or an effect the reference does not
        # have: the new tests select a new outcome (a fast path, a cache hit, a new refusal kind).  A defensive check
        # that can never fire routes to an outcome that was already there, and is no verdict (below).
        return True
    if POLICY in ("round5", "dropped") and not only_a and only_b and not any(k2[0] == "effect" and k2[1].startswith("call ") for k2 in extra):
        # tests dropped: a case is no longer checked -- provided the function as a whole lost them (they did not move to
        # another component) and gained none (it does not test the same thing another way).  Tests ADDED are no verdict:
        # a defensive check that can never fire reads exactly like a new refusal.
        from . import refute
        r_ = refute.refute_conditions(f_ref, f_code)
        if os.environ.get("VERIF_REFUTE_DEBUG"):
            print("REFUTE dropped", r_, "|", only_b[:3])
        if r_ is False:
            return False        # every valuation the two conditions can be evaluated for gives the same answer: the dropped test was implied by the others
        if all_code is None or all_ref is None:
            return True
        if not (all_code - all_ref) and not (set(only_b) & all_code):
            return True
    return False


def _source_tokens(fn):
    """the function as the transcriptions keep it (no docstrings, annotations, decorators, exception messages), as tokens"""
    import copy
    import io
    import tokenize
    node = copy.deepcopy(fn)
    node.decorator_list = []
    node.name = "f"
    for x in ast.walk(node):
        if isinstance(x, (ast.FunctionDef, ast.AsyncFunctionDef, ast.Lambda)):
            a = x.args
            for arg in a.args + a.kwonlyargs + a.posonlyargs + ([a.vararg] if a.vararg else []) + ([a.kwarg] if a.kwarg else []):
                arg.annotation = None
            if not isinstance(x, ast.Lambda):
                x.returns = None
                x.decorator_list = []
        if isinstance(x, (ast.FunctionDef, ast.AsyncFunctionDef, ast.ClassDef)) and x.body and isinstance(x.body[0], ast.Expr) and isinstance(x.body[0].value, ast.Constant) \
                and isinstance(x.body[0].value.value, str):
            x.body = x.body[1:] or [ast.Pass()]
        if isinstance(x, ast.Raise) and isinstance(x.exc, ast.Call):
            x.exc.args = []
            x.exc.keywords = []

    class T(ast.NodeTransformer):
        def visit_AnnAssign(self, n):
            if n.value is None:
                return None
            return ast.copy_location(ast.Assign([n.target], n.value), n)
    node = T().visit(node)
    for x in ast.walk(node):
        if hasattr(x, "body") and isinstance(x.body, list) and not x.body:
            x.body = [ast.Pass()]
    ast.fix_missing_locations(node)
    text = ast.unparse(node)
    return [(t.type, t.string) for t in tokenize.generate_tokens(io.StringIO(text).readline)
            if t.type not in (tokenize.NEWLINE, tokenize.NL, tokenize.INDENT, tokenize.DEDENT, tokenize.COMMENT, tokenize.ENDMARKER)], text


_LEAF_OPS = {"<", "<=", ">", ">=", "==", "!=", "+", "-", "*", "//", "%", "<<", ">>", "&", "|", "^", "and", "or", "is", "in", "/", "**"}
_KEYWORDS = {"if", "else", "elif", "for", "while", "return", "raise", "try", "except", "finally", "with", "def", "lambda", "class", "not", "pass", "break", "continue", "yield", "del",
             "global", "nonlocal", "assert", "import", "from", "as", "await", "async"}


def source_mutation(code_fn, ref_fn, limit=2):
    """-> (reference token, code token) pairs when the function as written is the reviewed one with at most `limit` leaf
    tokens (a name, a literal, an operator) exchanged in place -- every other token identical, same order -- and the exchange
    is not a renaming (the old name still occurs in the function, or the new one already did); else None.
    Such an edit leaves the structure alone and changes what one expression means: the canonical forms (which already equate
    the spellings the engine can prove equal) differ, and there is nothing else the difference could be."""
    import tokenize
    if not isinstance(code_fn, (ast.FunctionDef, ast.AsyncFunctionDef)) or not isinstance(ref_fn, (ast.FunctionDef, ast.AsyncFunctionDef)):
        return None
    try:
        tc, _ = _source_tokens(code_fn)
        tr, _ = _source_tokens(ref_fn)
    except Exception:
        return None
    if len(tc) != len(tr):
        return None
    diffs = [(a, b) for a, b in zip(tr, tc) if a != b]
    if not diffs or len(diffs) > limit:
        return None
    names_c = {t[1] for t in tc if t[0] == tokenize.NAME}
    names_r = {t[1] for t in tr if t[0] == tokenize.NAME}
    for (ta, a), (tb, b) in diffs:
        for tt, v in ((ta, a), (tb, b)):
            if tt == tokenize.OP and v not in _LEAF_OPS:
                return None
            if tt == tokenize.NAME and v in _KEYWORDS and v not in _LEAF_OPS:
                return None
            if tt not in (tokenize.OP, tokenize.NAME, tokenize.NUMBER, tokenize.STRING):
                return None
        if ta == tokenize.NAME and tb == tokenize.NAME and a not in _LEAF_OPS and b not in _LEAF_OPS and a not in names_c and b not in names_r:
            return None         # a local (or a helper) renamed: not an exchange
    return [(a, b) for (_ta, a), (_tb, b) in diffs]


_STATEFUL_CALLS = {"append", "extend", "insert", "pop", "remove", "sort", "reverse", "clear", "update", "setdefault", "popitem", "add", "discard",
                   "write", "writelines", "seek", "truncate", "appendleft", "popleft"}


def captured_mutations(inner, outer):
    """locals of the enclosing function that the closure changes in place (mutator / stream call as receiver, item or
    attribute store, nonlocal rebinding): whatever one call leaves there, the next call of the closure finds"""
    if not isinstance(inner, (ast.FunctionDef, ast.AsyncFunctionDef)) or not isinstance(outer, (ast.FunctionDef, ast.AsyncFunctionDef)):
        return set()
    own = {a.arg for a in inner.args.args + inner.args.posonlyargs + inner.args.kwonlyargs}
    if inner.args.vararg:
        own.add(inner.args.vararg.arg)
    if inner.args.kwarg:
        own.add(inner.args.kwarg.arg)
    nonloc = {n for x in ast.walk(inner) if isinstance(x, ast.Nonlocal) for n in x.names}
    own |= {n.id for n in ast.walk(inner) if isinstance(n, ast.Name) and isinstance(n.ctx, (ast.Store, ast.Del))} - nonloc
    outer_locals = set()
    for x in ast.walk(outer):
        if any(x is y for y in ast.walk(inner)):
            continue
        if isinstance(x, ast.Name) and isinstance(x.ctx, ast.Store):
            outer_locals.add(x.id)
    out = set(nonloc & outer_locals)
    for x in ast.walk(inner):
        base = None
        if isinstance(x, ast.Call) and isinstance(x.func, ast.Attribute) and x.func.attr in _STATEFUL_CALLS:
            base = x.func.value
        elif isinstance(x, (ast.Subscript, ast.Attribute)) and isinstance(x.ctx, (ast.Store, ast.Del)):
            base = x.value
        while isinstance(base, (ast.Subscript, ast.Attribute)):
            base = base.value
        if isinstance(base, ast.Name) and base.id not in own and base.id in outer_locals:
            out.add(base.id)
    return out


def _free_loads(fn):
    own = {a.arg for a in fn.args.args + fn.args.posonlyargs + fn.args.kwonlyargs}
    if fn.args.vararg:
        own.add(fn.args.vararg.arg)
    if fn.args.kwarg:
        own.add(fn.args.kwarg.arg)
    own |= {n.id for n in ast.walk(fn) if isinstance(n, ast.Name) and isinstance(n.ctx, (ast.Store, ast.Del))}
    loads = sorted([n for b in fn.body for n in ast.walk(b) if isinstance(n, ast.Name) and isinstance(n.ctx, ast.Load) and n.id not in own],
                   key=lambda n: (getattr(n, "lineno", 0), getattr(n, "col_offset", 0)))
    out = []
    for n in loads:
        if n.id not in out:
            out.append(n.id)
    return out


def _locals_of(fn):
    names = {a.arg for a in fn.args.args + fn.args.posonlyargs + fn.args.kwonlyargs}
    names |= {n.id for n in ast.walk(fn) if isinstance(n, ast.Name) and isinstance(n.ctx, (ast.Store, ast.Del))}
    names |= {n.name for n in ast.walk(fn) if isinstance(n, (ast.FunctionDef, ast.AsyncFunctionDef, ast.ClassDef)) and n is not fn}
    return names


def _captured_renaming(code_inner, code_outer, ref_inner, ref_outer):
    """{code name: reference name} for captured locals of the outer function that exist under one name on one side only
    (a name both outer functions still have is the same variable: exchanging two captured variables is not a renaming)"""
    if not all(isinstance(x, (ast.FunctionDef, ast.AsyncFunctionDef)) for x in (code_inner, code_outer, ref_inner, ref_outer)):
        return {}
    lc, lr = _locals_of(code_outer), _locals_of(ref_outer)
    fc = [n for n in _free_loads(code_inner) if n in lc and n not in lr]
    fr = [n for n in _free_loads(ref_inner) if n in lr and n not in lc]
    if not fc or len(fc) != len(fr):
        return {}
    return dict(zip(fc, fr))


def _rename_names(fn, ren):
    import copy
    new = copy.deepcopy(fn)
    for n in ast.walk(new):
        if isinstance(n, ast.Name) and n.id in ren:
            n.id = ren[n.id]
    return new


def reference_status(ctx, fi, ref_source, ref_names, int_names=None, leaf=None, keep=(), inline=True):
    """-> (status, details, s_ref, ref_name): how fi relates to the reference transcription(s)"""
    tree = ast.parse(ref_source) if isinstance(ref_source, str) else ref_source
    if isinstance(ref_names, str):
        ref_names = [ref_names]
    ref_funcs = {n.name: n for n in tree.body if isinstance(n, ast.FunctionDef)}
    ref_called = set()
    for nm in ref_names:
        for nm2 in (nm, nm.rsplit("__", 1)[0] if "__" in nm else nm):       # a closure also sees what its outer function calls
            if nm2 in ref_funcs:
                ref_called |= {c.func.id for c in ast.walk(ref_funcs[nm2]) if isinstance(c, ast.Call) and isinstance(c.func, ast.Name)}
    base_inl = make_inliner(ctx, fi)
    # helpers the reference calls by name without defining them stay calls on both sides
    code_inl = (lambda c: base_inl(c) if (c.func.id in ref_funcs or c.func.id not in ref_called) else None) if inline else None
    canon_code = Canon(make_const_of(ctx, fi), int_names, (lambda c: code_inl(c) if isinstance(c.func, ast.Name) else None) if inline else None)
    ref_consts = {}
    for n in tree.body:
        if isinstance(n, ast.Assign) and len(n.targets) == 1 and isinstance(n.targets[0], ast.Name):
            try:
                ref_consts[n.targets[0].id] = ast.literal_eval(n.value)
            except Exception:
                pass
    dotted_consts = ref_consts.get("_CONSTS") if isinstance(ref_consts.get("_CONSTS"), dict) else {}

    def ref_const_of(e):
        if isinstance(e, ast.Name) and e.id in ref_consts and e.id != "_CONSTS":
            return ref_consts[e.id]
        return dotted_consts.get(norm(e))
    canon_ref = Canon(ref_const_of if (ref_consts or dotted_consts) else None, int_names,
                      (lambda c: ref_funcs.get(c.func.id) if isinstance(c.func, ast.Name) and c.func.id != "_" else None) if inline else None)
    canon_code.callee_of = canon_ref.callee_of = make_callee_resolver(ctx, fi)
    canon_code.lambda_of = make_lambda_resolver(ctx, fi)
    canon_code.assign_of = make_assign_resolver(ctx, fi)
    env_code = None
    if getattr(fi, "parent", None) is not None and isinstance(fi.node, ast.FunctionDef):
        env_code = closure_env(expanded(ctx, fi.parent), canon_code, fi.node.name)
    s_code_plain = None
    s_code_env = None
    best = None
    for ref_name in ref_names:
        ref_node = None
        for n in ast.walk(tree):
            if isinstance(n, (ast.FunctionDef,)) and n.name == ref_name:
                ref_node = n
        if ref_node is None:
            raise AnalysisError("reference %s missing" % ref_name)
        env_ref = None
        if env_code is not None and "__" in ref_name:
            # the module transcriptions name nested functions q__outer__inner: the outer transcription says what the
            # free variables of the inner one hold (hand-written references have no outer function: compared as written)
            outer_ref = ref_funcs.get(ref_name.rsplit("__", 1)[0])
            if outer_ref is not None:
                env_ref = closure_env(outer_ref, canon_ref, fi.node.name)
        if env_ref is not None:
            if s_code_env is None:
                s_code_env = summarize(expanded(ctx, fi), canon_code, leaf, keep, init_env=env_code)
            s_code = s_code_env
        else:
            if s_code_plain is None:
                s_code_plain = summarize(expanded(ctx, fi), canon_code, leaf, keep)
            s_code = s_code_plain
        s_ref = summarize(ref_node, canon_ref, leaf, keep, init_env=env_ref)
        status, details = compare_summaries(s_code, s_ref)
        if status != "same" and env_ref is not None:
            # the closure captures locals of its outer function; when the outer function renamed them, the closure reads the
            # same as before up to those names and what they hold is the outer function's business: no verdict here
            ren = _captured_renaming(expanded(ctx, fi), expanded(ctx, fi.parent), ref_node, outer_ref)
            if ren:
                try:
                    node2 = _rename_names(expanded(ctx, fi), ren)
                    env2 = {ren.get(k, k): v for k, v in (env_code or {}).items()}
                    st2, _d2 = compare_summaries(summarize(node2, canon_code, leaf, keep, init_env=env2), s_ref)
                except Exception:
                    st2 = None
                if st2 == "same":
                    status = "unrecognised"
                    details = [("renamed", "capture", ", ".join(sorted(ren.values())), ", ".join(sorted(ren)), 0.0)]
        if status != "same" and env_ref is not None:
            # a closure that now changes, in place, an object of its enclosing function which the reviewed closure made for
            # itself on every call (or did not have): state shared between calls
            cm_code = captured_mutations(getattr(fi, "original", fi).node, getattr(fi.parent, "node", None))
            cm_ref = captured_mutations(ref_node, outer_ref)
            if cm_code and not cm_ref:
                status = "differs"
                details = [("state", "effect", "(the reviewed closure changes no object of its enclosing function)", "changes %s of the enclosing function in place" % ", ".join(sorted(cm_code)), 1.0)] + list(details)
        if status in ("near", "unrecognised"):
            sm_ = source_mutation(getattr(fi, "original", fi).node, ref_node)
            if sm_ and _witnessed(details, s_code, s_ref):
                status = "differs"
                details = [("source", "token", " , ".join(a for a, _b in sm_), " , ".join(b for _a, b in sm_), 1.0)] + list(details)
        if status != "same":
            ns = new_state(s_code, s_ref, getattr(fi.node, "name", ""), tree)
            global WEAK_EQ_ATTRS
            if WEAK_EQ_ATTRS is None:
                WEAK_EQ_ATTRS = set()
                for ci in ctx.p.classes.values() if hasattr(ctx.p, "classes") else []:
                    if "__eq__" in ci.methods:
                        for m_ in ci.methods.values():
                            for n_ in ast.walk(m_.node):
                                if isinstance(n_, ast.Attribute) and isinstance(n_.ctx, ast.Store) and isinstance(n_.value, ast.Name) and n_.value.id == "self":
                                    WEAK_EQ_ATTRS.add(n_.attr)
            global INIT_ONLY_ATTRS
            if INIT_ONLY_ATTRS is None:
                in_init, elsewhere = set(), set()
                for q_, f_ in ctx.p.functions.items():
                    if f_.cls is None or not isinstance(f_.node, (ast.FunctionDef, ast.AsyncFunctionDef)):
                        continue
                    tgt = in_init if f_.node.name in ("__init__", "__new__") else elsewhere
                    for n_ in ast.walk(f_.node):
                        if isinstance(n_, ast.Attribute) and isinstance(n_.ctx, (ast.Store, ast.Del)) and isinstance(n_.value, ast.Name) and n_.value.id in ("self", "cls"):
                            tgt.add(n_.attr)
                INIT_ONLY_ATTRS = in_init - elsewhere
            global MEMO_INVALIDATION
            MEMO_INVALIDATION = _memo_invalidation_for(ctx, fi)
            try:
                stale = stale_memo(s_code, ns) if ns else []
            finally:
                MEMO_INVALIDATION = None
            if stale:
                # whatever else changed: the function now keeps something between calls that the reviewed one did not, and hands
                # it out again without looking at the state it was computed from
                status = "differs"
                details = [("state", "effect", "(the reviewed function keeps nothing there)", "keeps %s" % "; ".join(stale), 1.0)] + list(details)
            elif ns and status == "same":
                status = "near"
                details = [("extra", "effect", None, "writes %s" % ", ".join(ns), 0.0)]
        rank = {"same": 0, "differs": 1, "near": 2, "unrecognised": 3}[status]
        if best is None or (rank, len(details)) < best[0]:
            best = ((rank, len(details)), status, details, s_ref, ref_name)
    _, status, details, s_ref, ref_name = best
    return status, details, s_ref, ref_name


def against_reference(ctx, fi, ref_source, ref_names, key, int_names=None, leaf=None, keep=(), what=None, sample=True, inline=True):
    """obligation helper: fi must compute what the reference transcription computes (canonical forms equal).
    A near miss (same skeleton, one component different) is a violation; a different organisation is undecided."""
    status, details, s_ref, ref_name = reference_status(ctx, fi, ref_source, ref_names, int_names, leaf, keep, inline)
    where = "%s:%d" % (fi.module.relpath, fi.node.lineno)
    if status == "same":
        ctx.ok(what or key, sample={"function": fi.qualname, "reference": ref_name, "components": len(s_ref.items), "example": repr(s_ref.items[0])[:160] if s_ref.items else ""} if sample else None)
        return True
    if status == "differs":
        for d in (details[:1] if details and details[0][0] in ("state", "source") else details[:4]):
            ctx.bad("%s:%s" % (key, d[1]), where, "%s computes `%s` where the reference (%s) computes `%s`" % (fi.qualname, (d[3] or "")[:300], ref_name, (d[2] or "")[:300]))
        return False
    ctx.undecided(key, where, "%s is organised differently from the reference transcription (%d components differ, e.g. %s); this rule gives no verdict on it"
                  % (fi.qualname, len(details), "; ".join("%s %s" % (d[0], (d[2] or d[3] or "")[:80]) for d in details[:2])))
    return None


def f_subst(f, atom, val):
    """the formula with one opaque atom replaced by a truth value"""
    if f in (True, False):
        return f
    if f[0] == "op":
        return val if f[1] == atom else f
    if f[0] == "not":
        return gi.f_not(f_subst(f[1], atom, val))
    if f[0] == "and":
        return gi.f_and(*[f_subst(x, atom, val) for x in f[1]])
    if f[0] == "or":
        return gi.f_or(*[f_subst(x, atom, val) for x in f[1]])
    return f


def guard_present(w, exit_pred, atom_pred, positive=True):
    """an atom of the wanted kind pushes the function towards an exit of the wanted kind (or a raise): with everything else
    equal, the atom holding (positive) / failing (not positive) never turns a refusal into an acceptance and sometimes turns an
    acceptance into a refusal -- `the function refuses case X`, whatever else it tests and however the guard is spelled or
    combined (alone, in a disjunction, behind an isinstance test)"""
    refuse = exits_formula(w, lambda e: exit_pred(e) or e.kind == "raise")
    if refuse in (True, False):
        return False
    for o in sorted({o for o in gi.f_opaques(refuse) if isinstance(o, str) and atom_pred(o)}):
        hi, lo = f_subst(refuse, o, positive), f_subst(refuse, o, not positive)
        if entails(lo, hi) and not _equiv(lo, hi):
            return True
    return False



def all_atoms(w):
    """every opaque atom text in any exit or effect condition of a walk"""
    out = set()
    for e in list(w.exits) + list(w.effects):
        c = getattr(e, "cond", None)
        if c is None:
            c = getattr(e, "reach", None)
        if c not in (True, False, None):
            out |= {o for o in gi.f_opaques(c) if isinstance(o, str)}
    return out


def must_refuse(ctx, w, key, where, what, atom_pred, term_pred, assume=True, refuse_pred=None, positive=True, sample=None):
    """`whenever <atom> holds (and <assume>), the function refuses`: some atom of the wanted kind, together with `assume`,
    entails the disjunction of the refusing exits.  The atom is found by what it is ABOUT (a predicate on canonical texts over the
    function's inputs), never by a local's name.  Three outcomes: entailed => holds; an atom of the kind exists and does not
    entail a refusal, or nothing in any condition, effect or result of the function mentions the term at all (the value is never
    looked at, so no spelling of the guard can be present) => violated; the term is mentioned in a form this rule does not read
    => undecided."""
    refuse = exits_formula(w, refuse_pred or (lambda e: e.kind == "raise"))
    atoms = sorted(a for a in all_atoms(w) if atom_pred(a))
    if atoms:
        lit = (lambda a: ("op", a)) if positive else (lambda a: ("not", ("op", a)))
        ok = refuse is not False and any(entails(f_and(assume, lit(a)), refuse) for a in atoms)
        if ok:
            ctx.ok(key, sample=sample or {"rule": key, "guard": atoms[0][:160], "refusal": "entailed"})
        else:
            ctx.bad(key, where, "%s: the test `%s` does not lead to a refusal on every path" % (what, atoms[0][:160]))
        return ok
    texts = set(all_atoms(w))
    for e in w.exits:
        if e.value is not None:
            texts.add(norm(w.sub(e.value)) if hasattr(w, "sub") else norm(e.value))
    for e in w.effects:
        try:
            texts.add(e.text())
        except Exception:
            pass
    if any(term_pred(t) for t in texts):
        raise Undecided("%s: the value is used, in a form this rule does not read" % what)
    # a local that survived substitution (a loop-carried variable, a value threaded through a loop) may hold the value
    fn_node = getattr(w, "node", None)
    if fn_node is not None and isinstance(fn_node, (ast.FunctionDef, ast.AsyncFunctionDef)):
        stored = {n.id for n in ast.walk(fn_node) if isinstance(n, ast.Name) and isinstance(n.ctx, ast.Store)}
        for a in all_atoms(w):
            try:
                names = {n.id for n in ast.walk(ast.parse(a.replace("truthy(", "bool("), mode="eval")) if isinstance(n, ast.Name)}
            except SyntaxError:
                names = set()
            if names & stored:
                raise Undecided("%s: a test of the function is about `%s`, a local carried through a loop; this rule reads tests over the function's inputs" % (what, sorted(names & stored)[0]))
    ctx.bad(key, where, "%s: the value that would show it is never looked at (no test, call or result of the function mentions it)" % what)
    return False

def exit_under(w, exit_pred, atom_pred, positive=True):
    """some exit of the wanted kind is taken only when an atom of the wanted kind holds / fails (the weaker companion of
    guard_present: the test exists and leads there, possibly together with other tests)"""
    for e in w.exits:
        if not exit_pred(e) or e.cond in (True, False):
            continue
        for o in gi.f_opaques(e.cond):
            if isinstance(o, str) and atom_pred(o) and entails(e.cond, ("op", o) if positive else ("not", ("op", o))):
                return True
    return False


# ====================================================================== set / path helpers for rules
def _assignments(f):
    import itertools
    ops = gi.f_opaques(f) if f not in (True, False) else []
    if len(ops) > 14:
        raise AnalysisError("formula has %d opaque atoms" % len(ops))
    for bits in itertools.product((False, True), repeat=len(ops)):
        yield dict(zip(ops, bits))


def may_set(f, univ, empty, assume=None):
    """subject values for which f holds under SOME assignment of the other atoms (consistent with `assume`)"""
    s = empty
    for a in _assignments(f):
        if assume and any(a.get(k, v) != v for k, v in assume.items()):
            continue
        s = s | gi.f_eval(f, a, univ, empty)
    return s


def must_set(f, univ, empty, assume=None):
    """subject values for which f holds under EVERY assignment of the other atoms (consistent with `assume`)"""
    s = univ
    for a in _assignments(f):
        if assume and any(a.get(k, v) != v for k, v in assume.items()):
            continue
        s = s & gi.f_eval(f, a, univ, empty)
    return s


def decisive_set(f, univ, empty, assume=None):
    """union, over the assignments of the other atoms under which the subject decides f (f is neither true for
    all subject values nor for none), of the subject values making f true.  This is `the values the guards on the
    subject select`, independent of how the guards are nested or combined with unrelated conditions."""
    s = empty
    n = 0
    for a in _assignments(f):
        if assume and any(a.get(k, v) != v for k, v in assume.items()):
            continue
        v = gi.f_eval(f, a, univ, empty)
        if v.is_empty() or v == univ:
            continue
        n += 1
        s = s | v
    return s, n


def truth_formula(w):
    """the condition under which the walked function returns a true value: over every return exit, its path
    condition and the truth of the value returned there (the spelling -- one expression, early returns -- is immaterial)"""
    parts = []
    for e in w.exits:
        if e.kind == "raise":
            continue
        if e.kind == "return" and e.value is not None:
            parts.append(f_and(e.cond, w.atomize(e.value, True)))
    return f_or(*parts) if parts else False


def exits_formula(w, pred):
    return f_or(*[e.cond for e in w.exits if pred(e)]) if any(pred(e) for e in w.exits) else False


def entails(a, b, univ=None, empty=None):
    """propositional: a => b (value-set atoms are interpreted)"""
    univ = univ if univ is not None else gi.IntSet.all()
    empty = empty if empty is not None else gi.IntSet.empty()
    f = f_and(a, f_not(b))
    if f is False:
        return True
    if f is True:
        return False
    r = _bitparallel([f])
    if r is not None:
        return r[0][0] == 0
    for asg in _assignments(f):
        if not gi.f_eval(f, asg, univ, empty).is_empty():
            return False
    return True


def calls_matching(w, pred_text):
    """call effects whose canonical text satisfies pred_text (a callable or a suffix of the callee text)"""
    out = []
    for e in w.effects:
        if e.kind != "call":
            continue
        t = norm(e.call.func)
        if (pred_text(t) if callable(pred_text) else t.endswith(pred_text)):
            out.append(e)
    return out


def handler_names(try_node):
    names = set()
    for h in try_node.handlers:
        if h.type is None:
            names.add("BaseException")
        else:
            for x in (h.type.elts if isinstance(h.type, ast.Tuple) else [h.type]):
                names.add((df.dotted(x) or "?").split(".")[-1])
    return names


def enclosing_tries(func_node, node):
    """try statements whose BODY contains node, innermost last"""
    out = []
    func_node = _expand.EXPANDED.get(id(func_node), func_node)
    for n in ast.walk(func_node):
        if isinstance(n, ast.Try) and any(x is node for s in n.body for x in ast.walk(s)):
            out.append(n)
    return out


def appended_in_loops(w):
    """(loop node, list name, element expr, reach) for every `X = X + [elt]` a loop iteration performs on a functional local"""
    out = []
    for n in ast.walk(w.node):
        if isinstance(n, (ast.For, ast.While)) and id(n) in w.loop_out:
            for st in w.loop_out[id(n)]:
                for name, v in st.env.items():
                    cur = v
                    elts = []
                    while isinstance(cur, ast.BinOp) and isinstance(cur.op, ast.Add) and isinstance(cur.right, ast.List):
                        elts = list(cur.right.elts) + elts
                        cur = cur.left
                    if elts and isinstance(cur, ast.Name) and cur.id == name:
                        for e in elts:
                            out.append((n, name, e, st.reach))
    return out


def assign_atom(f, atom_text, val):
    """formula with the opaque atom replaced by a constant"""
    if f in (True, False) or f[0] == "set":
        return f
    if f[0] == "op":
        return val if f[1] == atom_text else f
    if f[0] == "not":
        return f_not(assign_atom(f[1], atom_text, val))
    parts = [assign_atom(g, atom_text, val) for g in f[1]]
    return f_and(*parts) if f[0] == "and" else f_or(*parts)


def matters_only_when(f, atom_text, cond):
    """the truth of f depends on the atom only under cond: (f[atom=T] xor f[atom=F]) => cond"""
    a, b = assign_atom(f, atom_text, True), assign_atom(f, atom_text, False)
    diff = f_or(f_and(a, f_not(b)), f_and(f_not(a), b))
    return entails(diff, cond)
