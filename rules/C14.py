"""C14 - blocks and merkle proofs: structural obligations (DESIGN.md section 4, C14)."""
from __future__ import annotations

import ast

from sa.core import Ob
from sa.pm import AnalysisError, norm, body_nodes
from sa import gi, df, ru, ct
from sa.gi import IntSet, iv, GuardWalker, SymbolicAtomizer, reach_sets
from sa.cfg import stmt_paths, struct_dominates

BLOCK = "pycoin/block.py"
MERKLE = "pycoin/merkle.py"
MPP = "pycoin/message/make_parser_and_packer.py"
U, E = IntSet.all(), IntSet.empty()
HEADER_FIELDS = ["version", "previous_block_hash", "merkle_root", "timestamp", "difficulty", "nonce"]


# ------------------------------------------------------------------ C14.1
def c14_1(ctx):
    s = ctx.func(BLOCK, "Block.stream_header")
    tr = ct.write_trace(s.node, "f")
    got = [(i.fmt, i.value) for i in tr]
    want = list(zip("L##LLL", ["self." + x for x in HEADER_FIELDS]))
    ctx.check(got == want and all(i.reach is True for i in tr), "header-writer", ctx.where(s), "stream_header writes %s; the 80-byte header is %s" % (got, want), sample={"trace": [repr(i) for i in tr]})
    p = ctx.func(BLOCK, "Block.parse_as_header")
    ps = ct.parse_struct_calls(p.node)
    ok = len(ps) == 1 and ps[0][0] == "L##LLL"
    unp = [st for st in body_nodes(p.node) if isinstance(st, ast.Assign) and isinstance(st.targets[0], ast.Tuple) and any(c is ps[0][1] for c in ast.walk(st.value))] if ok else []
    names = [norm(e) for e in unp[0].targets[0].elts] if unp else []
    rets = df.returns_of(p.node)
    args = [norm(a) for a in rets[0].value.args] if len(rets) == 1 and isinstance(rets[0].value, ast.Call) else []
    init = ctx.func(BLOCK, "Block.__init__")
    ok = ok and names == args and len(names) == 6 and init.params()[1:7] == HEADER_FIELDS
    stores = {norm(st.targets[0]): norm(st.value) for st in body_nodes(init.node) if isinstance(st, ast.Assign)}
    ok = ok and all(stores.get("self." + x) == x for x in HEADER_FIELDS)
    ctx.check(ok, "header-reader", ctx.where(p), "parse_as_header does not read L##LLL into the constructor in field order (%s -> %s)" % (names, args), sample={"format": ps[0][0] if ps else None, "order": names})
    h = ctx.func(BLOCK, "Block._calculate_hash")
    t = norm(h.node)
    ctx.check("self.stream_header(s)" in t and "return double_sha256(s.getvalue())" in t, "block-id-digest", ctx.where(h), "_calculate_hash is not double_sha256 of the streamed header")
    i = ctx.func(BLOCK, "Block.id")
    ctx.check("return b2h_rev(self.hash())" in norm(i.node), "block-id-text", ctx.where(i), "Block.id is not the reversed hex of the header hash")
    # cache: if the memo of hash() is effective, every header mutator must invalidate it effectively
    c = ctx.p.cls(BLOCK, "Block")
    hf = ctx.func(BLOCK, "Block.hash")
    eff = _cache_effective(hf, c.name)
    muts = []
    for name, m in c.methods.items():
        if name in ("__init__",):
            continue
        for st in body_nodes(m.node):
            if isinstance(st, (ast.Assign, ast.AugAssign)):
                tg = st.targets if isinstance(st, ast.Assign) else [st.target]
                for t_ in tg:
                    if isinstance(t_, ast.Attribute) and norm(t_.value) == "self" and t_.attr in HEADER_FIELDS:
                        muts.append((m, st))
    ctx.note("hash() memo effective: %s; header mutators: %s" % (eff, sorted({m.name for m, st in muts})))
    if eff:
        for m, st in muts:
            ok = _invalidates(m, c.name)
            ctx.check(ok, "stale-block-id:%s" % m.name, ctx.where(m, st),
                      "Block.%s changes a header field but does not (effectively) drop the memoised hash, while Block.hash() does reuse it: id()/hash() go stale" % m.name,
                      sample={"mutator": m.name, "memo_effective": True})
    else:
        ctx.ok("hash-memo-inert")
    t = norm(hf.node)
    ctx.check("self._calculate_hash()" in t, "hash-delegates", ctx.where(hf), "Block.hash does not compute through _calculate_hash")
    # full block
    st_ = ctx.func(BLOCK, "Block.stream")
    t = norm(st_.node)
    ctx.check("self.stream_header(f)" in t and "self._stream_transactions(f)" in t and t.index("stream_header") < t.index("_stream_transactions"), "block-writer", ctx.where(st_), "Block.stream is not header then transactions")
    stx = ctx.func(BLOCK, "Block._stream_transactions")
    tr = ct.write_trace(stx.node, "f")
    got = [(i.kind, i.fmt, i.value, i.loop) for i in tr]
    ctx.check(got == [("fmt", "I", "len(self.txs)", None), ("call", "stream", "tx", "tx in self.txs")], "block-tx-writer", ctx.where(stx), "_stream_transactions writes %s, expected compact-size count then every tx" % got)
    pr = ctx.func(BLOCK, "Block.parse")
    t = norm(pr.node)
    ctx.check("block = class_.parse_as_header(f)" in t and "count = parse_struct('I', f)[0]" in t and "block._parse_transactions(f, count, include_offsets=include_offsets)" in t, "block-reader", ctx.where(pr), "Block.parse is not header, compact-size count, transactions")
    ptx = ctx.func(BLOCK, "Block._parse_transactions")
    t = norm(ptx.node)
    ctx.check("for i in range(count):" in t and "tx = class_.Tx.parse(f)" in t and "txs.append(tx)" in t, "block-tx-reader", ctx.where(ptx), "_parse_transactions does not parse `count` transactions in order")


def _mangled(cls_name, attr):
    return "_%s%s" % (cls_name.lstrip("_"), attr) if attr.startswith("__") and not attr.endswith("__") else attr


def _cache_effective(hf, cls_name):
    """does hash() ever return a previously stored value?"""
    stores = [st for st in body_nodes(hf.node) if isinstance(st, ast.Assign) and isinstance(st.targets[0], ast.Attribute) and norm(st.targets[0].value) == "self" and "_calculate_hash" in norm(st.value)]
    if not stores:
        return False
    attr = stores[0].targets[0].attr
    real = _mangled(cls_name, attr)
    for n in body_nodes(hf.node):
        if isinstance(n, ast.If):
            t = n.test
            neg = isinstance(t, ast.UnaryOp) and isinstance(t.op, ast.Not)
            inner = t.operand if neg else t
            if isinstance(inner, ast.Call) and norm(inner.func) == "hasattr" and len(inner.args) == 2 and isinstance(inner.args[1], ast.Constant):
                return inner.args[1].value == real
            if isinstance(inner, ast.Compare) and "None" in norm(inner):
                return True
        if isinstance(n, ast.Try):
            if any(isinstance(s, ast.Return) and isinstance(s.value, ast.Attribute) and s.value.attr == attr for s in n.body):
                return True
    # unconditional recomputation
    first = hf.node.body[-1] if hf.node.body else None
    return not any(stores[0] is st for st in hf.node.body)


def _invalidates(m, cls_name):
    for n in body_nodes(m.node):
        if isinstance(n, ast.Delete) and any(isinstance(t, ast.Attribute) and norm(t.value) == "self" for t in n.targets):
            # effective unless guarded by an ineffective hasattr
            t = ru.enclosing_test(m.node, n)
            if t is None:
                return True
            if isinstance(t, ast.Call) and norm(t.func) == "hasattr" and isinstance(t.args[1], ast.Constant):
                attr = n.targets[0].attr
                return t.args[1].value == _mangled(cls_name, attr)
            return True
        if isinstance(n, ast.Assign) and isinstance(n.targets[0], ast.Attribute) and norm(n.targets[0].value) == "self" and isinstance(n.value, ast.Constant) and n.value.value is None:
            return True
    return False


# ------------------------------------------------------------------ C14.2
def c14_2(ctx):
    m = ctx.func(MERKLE, "merkle")
    mp = ctx.func(MERKLE, "merkle_pair")
    loops = [n for n in m.node.body if isinstance(n, ast.While)]
    ok = len(loops) == 1 and norm(loops[0].test) == "len(hashes) > 1" and any(isinstance(s, ast.Assign) and "merkle_pair(hashes, hash_f)" in norm(s.value) and norm(s.targets[0]) == "hashes" for s in loops[0].body)
    ctx.check(ok, "merkle-levels", ctx.where(m), "merkle does not reduce level by level with merkle_pair until one hash is left")
    rets = df.returns_of(m.node)
    ctx.check(len(rets) == 1 and norm(rets[0].value) == "hashes[0]", "merkle-root", ctx.where(m), "merkle does not return the single remaining hash")
    # duplication of the last element must happen on every odd level
    def dup_sites(fn):
        out = []
        for n in body_nodes(fn.node):
            if isinstance(n, ast.If) and norm(n.test) in ("len(hashes) % 2 == 1", "len(hashes) & 1", "len(hashes) % 2", "len(hashes) % 2 != 0", "len(hashes) & 1 == 1"):
                if any("append(hashes[-1])" in norm(s) or "+ [hashes[-1]]" in norm(s) or "+ hashes[-1:]" in norm(s) for s in n.body):
                    out.append(n)
        return out
    per_level = dup_sites(mp) + [n for n in dup_sites(m) if loops and any(x is n for s in loops[0].body for x in ast.walk(s))]
    once = [n for n in dup_sites(m) if n not in per_level]
    ctx.check(bool(per_level), "odd-level-duplication", ctx.where(mp),
              "the last hash of an odd row is not duplicated on every level of the tree (only %d site(s) outside the per-level code): interior odd rows lose their last node" % len(once),
              sample={"per_level_sites": len(per_level), "leaf_only_sites": len(once)})
    t = norm(mp.node)
    ok = ("for i in range(0, len(hashes), 2):" in t and "hash_f(hashes[i] + hashes[i + 1])" in t) or ("zip(hashes[::2], hashes[1::2])" in t and "hash_f(" in t)
    ctx.check(ok, "pairwise-hash", ctx.where(mp), "merkle_pair does not hash adjacent pairs left || right")
    if dup_sites(mp):
        d = dup_sites(mp)[0]
        ctx.check(any("hashes = list(hashes)" in norm(s) for s in d.body) or "hashes = list(hashes)" in t, "caller-list-not-mutated", ctx.where(mp, d), "merkle_pair appends the duplicate to the caller's list")
    a = m.node.args
    ctx.check(len(a.defaults) == 1 and norm(a.defaults[0]) == "double_sha256", "merkle-default-hash", ctx.where(m), "merkle's default hash is not double_sha256")
    # mismatch rejection reached from Block.parse with defaults
    c = ctx.func(BLOCK, "Block.check_merkle_hash")
    t = norm(c.node)
    w = GuardWalker(ru.opaque)
    ex = w.run(c.node.body)
    rs = [e for e in ex if ru.is_raise_of("BadMerkleRootError")(e)]
    ok = len(rs) == 1 and gi.f_equiv(rs[0].cond, ("op", "calculated_hash != self.merkle_root")) and "calculated_hash = merkle([tx.hash() for tx in self.txs], double_sha256)" in t
    ctx.check(ok, "merkle-mismatch-raises", ctx.where(c), "check_merkle_hash does not raise BadMerkleRootError exactly when merkle([tx.hash()...]) differs from the header's root")
    st = ctx.func(BLOCK, "Block.set_txs")
    w = GuardWalker(ru.opaque)
    w.run(st.node.body)
    calls = [(s, r) for s, r in w.visits if "self.check_merkle_hash()" in norm(s)]
    ok = len(calls) == 1 and gi.f_equiv(calls[0][1], gi.f_and(("op", "txs"), ("op", "check_merkle_hash")))
    ctx.check(ok, "merkle-check-reached", ctx.where(st), "set_txs does not run the merkle check exactly when there are transactions and check_merkle_hash is set")
    for fn, pname in ((st, "check_merkle_hash"), (ctx.func(BLOCK, "Block.parse"), "check_merkle_hash")):
        a = fn.node.args
        names = [x.arg for x in a.args]
        d = dict(zip(names[len(names) - len(a.defaults):], a.defaults))
        ctx.check(isinstance(d.get(pname), ast.Constant) and d[pname].value is True, "merkle-check-default:%s" % fn.name, ctx.where(fn), "%s: check_merkle_hash does not default to True" % fn.name)
    pr = ctx.func(BLOCK, "Block.parse")
    ctx.check("block.set_txs(txs, check_merkle_hash=check_merkle_hash)" in norm(pr.node), "merkle-check-forwarded", ctx.where(pr), "Block.parse does not forward check_merkle_hash to set_txs")


# ------------------------------------------------------------------ C14.3
def c14_3(ctx):
    f = ctx.func(MPP, "post_unpack_merkleblock")
    w = GuardWalker(ru.opaque)
    ex = w.run(f.node.body)
    rs = [e for e in ex if e.kind == "raise"]
    conds = [gi.f_opaques(e.cond) for e in rs]
    flat = [o for c in conds for o in c]
    ctx.check("len(hashes) > 0" in flat, "reject-extra-hashes", ctx.where(f), "post_unpack_merkleblock does not reject left-over hashes")
    ctx.check("idx != len(flags) - 1" in flat, "reject-unconsumed-flag-bytes", ctx.where(f), "post_unpack_merkleblock does not reject unconsumed flag bytes")
    ctx.check(any(o in ("left_hash != d['header'].merkle_root", "d['header'].merkle_root != left_hash") for o in flat), "reject-root-mismatch", ctx.where(f), "post_unpack_merkleblock does not compare the computed root with the header's")
    const = ru.const_resolver(ctx, f, {"1 << r + 1"})
    w2 = GuardWalker(SymbolicAtomizer(ru.subject({"flags[idx]"}), const))
    ex2 = w2.run(f.node.body)
    gb = ru.guarded_by_subject(f.node, w2)
    s = E
    for e in ex2:
        if e.kind == "raise" and gb(e):
            s = s | gi.sat_set(e.cond, U, E)
    ctx.check(s == iv(("s", 0), None), "reject-padding-bits", ctx.where(f),
              "post_unpack_merkleblock rejects last-flag-byte values %s where LIMIT = 1 << (r+1) is the first value with a padding bit set; it must reject exactly [LIMIT, +inf)" % s.fmt("LIMIT"),
              sample={"subject": "flags[idx]", "rejected": s.fmt("1<<(r+1)")})
    t = norm(f.node)
    ctx.check("idx, r = divmod(flag_index - 1, 8)" in t, "last-flag-position", ctx.where(f), "the position of the last consumed flag bit is not divmod(flag_index - 1, 8)")
    ctx.check("d['tx_hashes'] = tx_acc" in t, "matched-ids", ctx.where(f), "matched transaction ids are not returned")
    ctx.check("hashes = list(reversed(d['hashes']))" in t and "h = hashes.pop()" in norm(ctx.func(MPP, "_recurse").node), "hash-order", ctx.where(f), "hashes are not consumed in depth-first order")
    # level widths
    ok = "while count > 1:" in t and "level_widths.append(count)" in t and "count += 1" in t and "count //= 2" in t and "level_widths.append(1)" in t and "level_widths.reverse()" in t
    ctx.check(ok, "level-widths", ctx.where(f), "tree widths are not ceil-halved from the transaction count up to the root")
    r = ctx.func(MPP, "_recurse")
    w = GuardWalker(ru.opaque)
    ex = w.run(r.node.body)
    rs = [e for e in ex if e.kind == "raise"]
    ok = len(rs) == 1 and "left_hash == right_hash" in gi.f_opaques(rs[0].cond) and "node_index * 2 + 1 < level_widths[level_index + 1]" in gi.f_opaques(rs[0].cond)
    ctx.check(ok, "reject-duplicate-children", ctx.where(r), "_recurse does not reject identical left and right children (CVE-2012-2459) when a right child exists")
    t = norm(r.node)
    ok = "right_hash = left_hash" in t and "return (double_sha256(left_hash + right_hash), flag_index)" in t and "if flags[idx] & mask == 0:" in t and "if level_index == len(level_widths) - 1:" in t and "tx_acc.append(h)" in t
    ctx.check(ok, "traversal-shape", ctx.where(r), "_recurse is not the BIP37 traversal (flag 0: take hash; leaf with flag 1: matched txid; else descend, duplicating a missing right child)")
    ctx.check("idx, r = divmod(flag_index, 8)" in t and "mask = 1 << r" in t and "flag_index += 1" in t, "flag-bit-order", ctx.where(r), "flag bits are not consumed least-significant first")
    m = ctx.func(MPP, "standard_message_post_unpacks")
    ctx.check("merkleblock=post_unpack_merkleblock" in norm(m.node), "proof-check-registered", ctx.where(m), "merkleblock messages are not post-processed by the proof verifier")


OBLIGATIONS = [
    Ob("C14.1", "header writer/reader trace, id = dsha256(header), no stale memo, block writer/reader", c14_1, floor=10, engines="CT,DF", breaks_if="hash(); set_nonce(n); hash()"),
    Ob("C14.2", "merkle: per-level duplication of the odd element, pairwise hash, mismatch rejection reached with defaults", c14_2, floor=9, engines="CFG,DF", breaks_if="blocks of 5, 6, 9-14 ... transactions"),
    Ob("C14.3", "BIP37 rejection guards: extra hashes, unconsumed flag bytes, padding bits (interval), root mismatch, duplicate children", c14_3, floor=10, engines="GI,CFG", breaks_if="proof whose last flag byte has exactly the first padding bit set"),
]
