"""Transcription of every function of pycoin/networks/Contract.py as of the reviewed tree (see DESIGN.md section 12).
NEVER IMPORTED OR EXECUTED: parsed and compared in canonical form (sa/sym.py) with the functions in /repo."""


_CONSTS = {

}


# pycoin/networks/Contract.py :: Contract.__init__
def q__Contract____init__(self, script_info, network):
    self._script_info = script_info
    self._network = network


# pycoin/networks/Contract.py :: Contract.info
def q__Contract__info(self):
    return self._script_info


# pycoin/networks/Contract.py :: Contract.hash160
def q__Contract__hash160(self):
    return self._script_info.get('hash160')


# pycoin/networks/Contract.py :: Contract.address
def q__Contract__address(self):
    return self._network.address.for_script_info(self._script_info)


# pycoin/networks/Contract.py :: Contract.script
def q__Contract__script(self):
    return self._network.contract.for_info(self._script_info)


# pycoin/networks/Contract.py :: Contract.disassemble
def q__Contract__disassemble(self):
    return self._network.script.disassemble(self.script())


# pycoin/networks/Contract.py :: Contract.ku_output
def q__Contract__ku_output(self):
    hash160 = self._script_info.get('hash160', None)
    if hash160:
        yield ('hash160', b2h(hash160), None)
    address = self.address()
    yield ('address', address, '%s address' % self._network.network_name)
    yield ('%s_address' % self._network.symbol, address, 'legacy')


# pycoin/networks/Contract.py :: Contract.override_network
def q__Contract__override_network(self, override_network):
    return override_network.contract.new(self.info())


# pycoin/networks/Contract.py :: Contract.__repr__
def q__Contract____repr__(self):
    return '<%s>' % self.address()
