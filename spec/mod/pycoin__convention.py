"""Transcription of every function of pycoin/convention/__init__.py as of the reviewed tree (see DESIGN.md section 12).
NEVER IMPORTED OR EXECUTED: parsed and compared in canonical form (sa/sym.py) with the functions in /repo."""


_CONSTS = {

}


# pycoin/convention/__init__.py :: satoshi_to_btc
def q__satoshi_to_btc(satoshi_count):
    if satoshi_count == 0:
        return decimal.Decimal(0)
    r = satoshi_count * COIN_PER_SATOSHI
    return r.quantize(COIN_PER_SATOSHI)


# pycoin/convention/__init__.py :: btc_to_satoshi
def q__btc_to_satoshi(btc):
    return int(decimal.Decimal(btc) * SATOSHI_PER_COIN)


# pycoin/convention/__init__.py :: satoshi_to_mbtc
def q__satoshi_to_mbtc(satoshi_count):
    if satoshi_count == 0:
        return decimal.Decimal(0)
    r = satoshi_count / SATOSHI_TO_MBTC
    return r.quantize(MBTC_PER_SATOSHI)


# pycoin/convention/__init__.py :: mbtc_to_satoshi
def q__mbtc_to_satoshi(btc):
    return int(decimal.Decimal(btc) * SATOSHI_TO_MBTC)
