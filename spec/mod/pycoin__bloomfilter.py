"""Transcription of every function of pycoin/bloomfilter.py as of the reviewed tree (see DESIGN.md section 12).
NEVER IMPORTED OR EXECUTED: parsed and compared in canonical form (sa/sym.py) with the functions in /repo."""


_CONSTS = {

}


# pycoin/bloomfilter.py :: filter_size_required
def q__filter_size_required(element_count, false_positive_probability):
    lfpp = math.log(false_positive_probability)
    return min(36000, int((-1 / pow(LOG_2, 2) * element_count * lfpp + 7) // 8))


# pycoin/bloomfilter.py :: hash_function_count_required
def q__hash_function_count_required(filter_size, element_count):
    return int(filter_size * 8.0 / element_count * LOG_2 + 0.5)


# pycoin/bloomfilter.py :: BloomFilter.__init__
def q__BloomFilter____init__(self, size_in_bytes, hash_function_count, tweak):
    if size_in_bytes > 36000:
        raise ValueError()
    self.filter_bytes = bytearray(size_in_bytes)
    self.bit_count = 8 * size_in_bytes
    self.hash_function_count = hash_function_count
    self.tweak = tweak


# pycoin/bloomfilter.py :: BloomFilter.add_item
def q__BloomFilter__add_item(self, item_bytes):
    for hash_index in range(self.hash_function_count):
        seed = hash_index * 4221880213 + self.tweak
        self.set_bit(murmur3(item_bytes, seed=seed) % self.bit_count)


# pycoin/bloomfilter.py :: BloomFilter.add_address
def q__BloomFilter__add_address(self, address):
    the_hash160 = a2b_hashed_base58(address)[1:]
    self.add_item(the_hash160)


# pycoin/bloomfilter.py :: BloomFilter.add_hash160
def q__BloomFilter__add_hash160(self, the_hash160):
    self.add_item(the_hash160)


# pycoin/bloomfilter.py :: BloomFilter.add_spendable
def q__BloomFilter__add_spendable(self, spendable):
    item_bytes = spendable.tx_hash + struct.pack('<L', spendable.tx_out_index)
    self.add_item(item_bytes)


# pycoin/bloomfilter.py :: BloomFilter._index_for_bit
def q__BloomFilter___index_for_bit(self, v):
    v %= self.bit_count
    byte_index, mask_index = divmod(v, 8)
    mask = self.MASK_ARRAY[mask_index]
    return (byte_index, mask)


# pycoin/bloomfilter.py :: BloomFilter.set_bit
def q__BloomFilter__set_bit(self, v):
    byte_index, mask = self._index_for_bit(v)
    self.filter_bytes[byte_index] |= mask


# pycoin/bloomfilter.py :: BloomFilter.check_bit
def q__BloomFilter__check_bit(self, v):
    byte_index, mask = self._index_for_bit(v)
    return self.filter_bytes[byte_index] & mask == mask


# pycoin/bloomfilter.py :: BloomFilter.filter_load_params
def q__BloomFilter__filter_load_params(self):
    return (self.filter_bytes, self.hash_function_count, self.tweak)


# pycoin/bloomfilter.py :: murmur3
def q__murmur3(data, seed=0):
    c1 = 3432918353
    c2 = 461845907
    length = len(data)
    h1 = seed
    roundedEnd = length & 4294967292
    for i in range(0, roundedEnd, 4):
        k1 = data[i] & 255 | (data[i + 1] & 255) << 8 | (data[i + 2] & 255) << 16 | data[i + 3] << 24
        k1 *= c1
        k1 = k1 << 15 | (k1 & 4294967295) >> 17
        k1 *= c2
        h1 ^= k1
        h1 = h1 << 13 | (h1 & 4294967295) >> 19
        h1 = h1 * 5 + 3864292196
    k1 = 0
    val = length & 3
    if val == 3:
        k1 = (data[roundedEnd + 2] & 255) << 16
    if val in [2, 3]:
        k1 |= (data[roundedEnd + 1] & 255) << 8
    if val in [1, 2, 3]:
        k1 |= data[roundedEnd] & 255
        k1 *= c1
        k1 = k1 << 15 | (k1 & 4294967295) >> 17
        k1 *= c2
        h1 ^= k1
    h1 ^= length
    h1 ^= (h1 & 4294967295) >> 16
    h1 *= 2246822507
    h1 ^= (h1 & 4294967295) >> 13
    h1 *= 3266489909
    h1 ^= (h1 & 4294967295) >> 16
    return h1 & 4294967295
