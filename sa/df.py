"""DF - local data flow helpers: single-assignment expansion, call / attribute collection, slices."""
from __future__ import annotations

import ast
import copy

from .pm import norm, body_nodes, AnalysisError


def calls_in(node):
    """ast.Call nodes inside a function (or any node), not descending into nested defs/lambdas."""
    if isinstance(node, (ast.FunctionDef, ast.AsyncFunctionDef, ast.Lambda)):
        it = body_nodes(node)
    else:
        it = ast.walk(node)
    return [n for n in it if isinstance(n, ast.Call)]


def dotted(e):
    """'a.b.c' for Name/Attribute chains, else None"""
    parts = []
    while isinstance(e, ast.Attribute):
        parts.append(e.attr)
        e = e.value
    if isinstance(e, ast.Name):
        parts.append(e.id)
        return ".".join(reversed(parts))
    if isinstance(e, ast.Call):
        d = dotted(e.func)
        if d is not None:
            parts.append(d + "()")
            return ".".join(reversed(parts))
    return None


def call_name(c):
    return dotted(c.func)


def last_attr(c):
    f = c.func
    if isinstance(f, ast.Attribute):
        return f.attr
    if isinstance(f, ast.Name):
        return f.id
    return None


def assignments(func_node):
    """name -> list of (value_expr | ('unpack', value_expr, index) | ('loop', iter_expr) | ('aug', op, expr), stmt)."""
    out = {}

    def add(name, v, st):
        out.setdefault(name, []).append((v, st))

    def target(t, v, st):
        if isinstance(t, ast.Name):
            add(t.id, v, st)
        elif isinstance(t, (ast.Tuple, ast.List)):
            for i, e in enumerate(t.elts):
                if isinstance(e, ast.Starred):
                    target(e.value, ("unpack*", v, i), st)
                else:
                    if isinstance(v, (ast.Tuple, ast.List)) and len(v.elts) == len(t.elts):
                        target(e, v.elts[i], st)
                    else:
                        target(e, ("unpack", v, i), st)

    for n in body_nodes(func_node):
        if isinstance(n, ast.Assign):
            for t in n.targets:
                target(t, n.value, n)
        elif isinstance(n, ast.AnnAssign) and n.value is not None:
            target(n.target, n.value, n)
        elif isinstance(n, ast.AugAssign):
            if isinstance(n.target, ast.Name):
                add(n.target.id, ("aug", n.op, n.value), n)
        elif isinstance(n, (ast.For, ast.AsyncFor)):
            target(n.target, ("loop", n.iter), n)
        elif isinstance(n, ast.comprehension):
            target(n.target, ("loop", n.iter), n)
        elif isinstance(n, ast.NamedExpr):
            target(n.target, n.value, n)
        elif isinstance(n, ast.ExceptHandler) and n.name:
            add(n.name, ("exc", n.type), n)
        elif isinstance(n, ast.withitem) and n.optional_vars is not None:
            target(n.optional_vars, ("with", n.context_expr), n)
    return out


def single_defs(func_node):
    """name -> expr for locals assigned exactly once with a plain expression."""
    out = {}
    for name, defs in assignments(func_node).items():
        if len(defs) == 1 and isinstance(defs[0][0], ast.AST):
            out[name] = defs[0][0]
    return out


class _Subst(ast.NodeTransformer):
    def __init__(self, defs, depth, stop):
        self.defs = defs
        self.depth = depth
        self.stop = stop

    def visit_Name(self, n):
        if isinstance(n.ctx, ast.Load) and n.id in self.defs and n.id not in self.stop and self.depth > 0:
            e = copy.deepcopy(self.defs[n.id])
            return _Subst(self.defs, self.depth - 1, self.stop | {n.id}).visit(e)
        return n

    def visit_Lambda(self, n):
        return n


def expand(expr, defs, depth=6):
    """Substitute single-assignment locals by their definitions (bounded, cycle safe)."""
    return _Subst(defs, depth, frozenset()).visit(copy.deepcopy(expr))


def names_in(e):
    return {n.id for n in ast.walk(e) if isinstance(n, ast.Name)}


def attrs_of(e, base):
    """attribute names read off the Name `base` inside expression e (tx_in.previous_hash -> previous_hash)."""
    out = set()
    for n in ast.walk(e):
        if isinstance(n, ast.Attribute) and isinstance(n.value, ast.Name) and n.value.id == base:
            out.add(n.attr)
    return out


def flatten_add(e):
    """a + b + c -> [a, b, c] (left-assoc concatenation)"""
    if isinstance(e, ast.BinOp) and isinstance(e.op, ast.Add):
        return flatten_add(e.left) + flatten_add(e.right)
    return [e]


def const_int(e):
    """int value of a literal expression built from int constants and arithmetic, else None."""
    try:
        v = _ce(e)
    except Exception:
        return None
    return v if isinstance(v, int) and not isinstance(v, bool) else None


def _ce(e):
    if isinstance(e, ast.Constant):
        return e.value
    if isinstance(e, ast.UnaryOp):
        v = _ce(e.operand)
        if isinstance(e.op, ast.USub):
            return -v
        if isinstance(e.op, ast.Invert):
            return ~v
        if isinstance(e.op, ast.UAdd):
            return +v
        raise ValueError
    if isinstance(e, ast.BinOp):
        a, b = _ce(e.left), _ce(e.right)
        import operator
        ops = {ast.Add: operator.add, ast.Sub: operator.sub, ast.Mult: operator.mul, ast.FloorDiv: operator.floordiv,
               ast.Mod: operator.mod, ast.LShift: operator.lshift, ast.RShift: operator.rshift, ast.BitOr: operator.or_,
               ast.BitAnd: operator.and_, ast.BitXor: operator.xor, ast.Pow: operator.pow}
        if type(e.op) not in ops:
            raise ValueError
        if isinstance(e.op, (ast.Pow, ast.LShift)) and isinstance(b, int) and b > 4096:
            raise ValueError
        return ops[type(e.op)](a, b)
    if isinstance(e, ast.Tuple):
        return tuple(_ce(x) for x in e.elts)
    raise ValueError


def same(a, b):
    return norm(a) == norm(b)


def find_stmts(func_node, pred):
    return [n for n in body_nodes(func_node) if isinstance(n, ast.stmt) and pred(n)]


def returns_of(func_node):
    return [n for n in body_nodes(func_node) if isinstance(n, ast.Return)]


def raises_of(func_node):
    return [n for n in body_nodes(func_node) if isinstance(n, ast.Raise)]


def exc_name(raise_stmt):
    e = raise_stmt.exc
    if e is None:
        return None
    if isinstance(e, ast.Call):
        e = e.func
    return dotted(e)
