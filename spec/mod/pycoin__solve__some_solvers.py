"""Transcription of every function of pycoin/solve/some_solvers.py as of the reviewed tree (see DESIGN.md section 12).
NEVER IMPORTED OR EXECUTED: parsed and compared in canonical form (sa/sym.py) with the functions in /repo."""


_CONSTS = {
    'DEFAULT_PLACEHOLDER_SIGNATURE': b'',
    'DEFAULT_SIGNATURE_TYPE': 1,
}


# pycoin/solve/some_solvers.py :: _find_signatures
def q___find_signatures(script_blobs, generator_for_signature_type_f, signature_for_hash_type_f, max_sigs, sec_keys):
    signatures = []
    secs_solved = set()
    seen = 0
    for data in script_blobs:
        if seen >= max_sigs:
            break
        try:
            sig_pair, signature_type = parse_signature_blob(data)
            generator = generator_for_signature_type_f(signature_type)
            seen += 1
            for idx, sec_key in enumerate(sec_keys):
                public_pair = sec_to_public_pair(sec_key, generator)
                sign_value = signature_for_hash_type_f(signature_type)
                v = generator.verify(public_pair, sign_value, sig_pair)
                if v:
                    signatures.append((idx, data))
                    secs_solved.add(sec_key)
                    break
        except (ValueError, EncodingError, der.UnexpectedDER, ScriptError):
            pass
    return (signatures, secs_solved)


# pycoin/solve/some_solvers.py :: hash_lookup_solver
def q__hash_lookup_solver(m):

    def f(solved_values, **kwargs):
        the_hash = m['the_hash']
        db = kwargs.get('hash160_lookup', {})
        result = db.get(the_hash)
        if result is None:
            result = kwargs.get('sec_hints', {}).get(the_hash)
            if result:
                return {m['1']: result}
        if result is None:
            raise SolvingError()
        sec = public_pair_to_sec(result[1], compressed=result[2])
        return {m['1']: sec}
    return (f, [m['1']], ())


# pycoin/solve/some_solvers.py :: hash_lookup_solver.f
def q__hash_lookup_solver__f(solved_values, **kwargs):
    the_hash = m['the_hash']
    db = kwargs.get('hash160_lookup', {})
    result = db.get(the_hash)
    if result is None:
        result = kwargs.get('sec_hints', {}).get(the_hash)
        if result:
            return {m['1']: result}
    if result is None:
        raise SolvingError()
    sec = public_pair_to_sec(result[1], compressed=result[2])
    return {m['1']: sec}


# pycoin/solve/some_solvers.py :: constant_equality_solver
def q__constant_equality_solver(m):

    def f(solved_values, **kwargs):
        return {m['var']: m['const']}
    return (f, [m['var']], ())


# pycoin/solve/some_solvers.py :: constant_equality_solver.f
def q__constant_equality_solver__f(solved_values, **kwargs):
    return {m['var']: m['const']}


# pycoin/solve/some_solvers.py :: all_signature_hints
def q__all_signature_hints(public_pair, signature_for_hash_type_f, **kwargs):
    default_sig_type = [kwargs.get('signature_type', DEFAULT_SIGNATURE_TYPE)]
    sig_hash_types_to_try = kwargs.get('sig_hash_types_to_try', default_sig_type)
    shfsh = kwargs.get('signature_hints_for_sig_hash')
    if shfsh:
        for sig_hash_type in sig_hash_types_to_try:
            sig_hash = signature_for_hash_type_f(sig_hash_type)
            for _ in shfsh.get(sig_hash, []):
                yield _
    shfpp = kwargs.get('signature_hints_for_public_pair')
    if shfpp:
        for _ in shfpp.get(public_pair, []):
            yield _
    for _ in kwargs.get('signature_hints', []):
        yield _


# pycoin/solve/some_solvers.py :: signing_solver
def q__signing_solver(m):

    def f(solved_values, **kwargs):
        signature_type = kwargs.get('signature_type', DEFAULT_SIGNATURE_TYPE)
        generator_for_signature_type_f = kwargs['generator_for_signature_type_f']
        signature_for_hash_type_f = m['signature_for_hash_type_f']
        existing_script = kwargs.get('existing_script', b'')
        existing_signatures, secs_solved = _find_signatures(existing_script, generator_for_signature_type_f, signature_for_hash_type_f, len(m['sig_list']), m['sec_list'])
        sec_keys = m['sec_list']
        signature_variables = m['sig_list']
        signature_placeholder = kwargs.get('signature_placeholder', DEFAULT_PLACEHOLDER_SIGNATURE)
        db = kwargs.get('hash160_lookup', {})
        for signature_order, sec_key in reversed(list(enumerate(sec_keys))):
            sec_key = solved_values.get(sec_key, sec_key)
            if sec_key in secs_solved:
                continue
            if len(existing_signatures) >= len(signature_variables):
                break
            result = db.get(hash160(sec_key))
            if result:
                secret_exponent = result[0]
                sig_hash = signature_for_hash_type_f(signature_type)
                generator = result[3]
                r, s = generator.sign(secret_exponent, sig_hash)
            else:
                generator = generator_for_signature_type_f(signature_type)
                public_pair = sec_to_public_pair(sec_key, generator=generator)
                for sig in all_signature_hints(public_pair, signature_for_hash_type_f, **kwargs):
                    sig_hash = signature_for_hash_type_f(sig[-1])
                    sig_pair = der.sigdecode_der(sig[:-1])
                    if generator.verify(public_pair, sig_hash, sig_pair):
                        r, s = sig_pair
                        break
                else:
                    continue
            order = generator.order()
            if s + s > order:
                s = order - s
            binary_signature = der.sigencode_der(r, s) + bytes([signature_type])
            existing_signatures.append((signature_order, binary_signature))
        if signature_placeholder is not None:
            while len(existing_signatures) < len(signature_variables):
                existing_signatures.append((-1, signature_placeholder))
        existing_signatures.sort()
        return dict(zip(signature_variables, (es[-1] for es in existing_signatures)))
    return (f, m['sig_list'], [a for a in m['sec_list'] if isinstance(a, Atom)])


# pycoin/solve/some_solvers.py :: signing_solver.f
def q__signing_solver__f(solved_values, **kwargs):
    signature_type = kwargs.get('signature_type', DEFAULT_SIGNATURE_TYPE)
    generator_for_signature_type_f = kwargs['generator_for_signature_type_f']
    signature_for_hash_type_f = m['signature_for_hash_type_f']
    existing_script = kwargs.get('existing_script', b'')
    existing_signatures, secs_solved = _find_signatures(existing_script, generator_for_signature_type_f, signature_for_hash_type_f, len(m['sig_list']), m['sec_list'])
    sec_keys = m['sec_list']
    signature_variables = m['sig_list']
    signature_placeholder = kwargs.get('signature_placeholder', DEFAULT_PLACEHOLDER_SIGNATURE)
    db = kwargs.get('hash160_lookup', {})
    for signature_order, sec_key in reversed(list(enumerate(sec_keys))):
        sec_key = solved_values.get(sec_key, sec_key)
        if sec_key in secs_solved:
            continue
        if len(existing_signatures) >= len(signature_variables):
            break
        result = db.get(hash160(sec_key))
        if result:
            secret_exponent = result[0]
            sig_hash = signature_for_hash_type_f(signature_type)
            generator = result[3]
            r, s = generator.sign(secret_exponent, sig_hash)
        else:
            generator = generator_for_signature_type_f(signature_type)
            public_pair = sec_to_public_pair(sec_key, generator=generator)
            for sig in all_signature_hints(public_pair, signature_for_hash_type_f, **kwargs):
                sig_hash = signature_for_hash_type_f(sig[-1])
                sig_pair = der.sigdecode_der(sig[:-1])
                if generator.verify(public_pair, sig_hash, sig_pair):
                    r, s = sig_pair
                    break
            else:
                continue
        order = generator.order()
        if s + s > order:
            s = order - s
        binary_signature = der.sigencode_der(r, s) + bytes([signature_type])
        existing_signatures.append((signature_order, binary_signature))
    if signature_placeholder is not None:
        while len(existing_signatures) < len(signature_variables):
            existing_signatures.append((-1, signature_placeholder))
    existing_signatures.sort()
    return dict(zip(signature_variables, (es[-1] for es in existing_signatures)))


# pycoin/solve/some_solvers.py :: register_all
def q__register_all(solver):
    for t in [hash_lookup_solver, constant_equality_solver, signing_solver]:
        solver.register_solver(t.pattern, t)
