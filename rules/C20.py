"""C20 - context-free transaction check.  Structural obligations (DESIGN.md section 4, C20)."""
from __future__ import annotations

import ast

from sa.core import Ob
from sa.pm import AnalysisError, norm, body_nodes
from sa import gi, df
from sa.gi import IntSet, iv, GuardWalker, SymbolicAtomizer, reach_sets
from sa.ru import is_raise_of, const_resolver as _const_resolver, subject as _subject, enclosing_test as _enclosing_test

TX = "pycoin/coins/bitcoin/Tx.py"
TXIN = "pycoin/coins/bitcoin/TxIn.py"
VFE = "ValidationFailureError"
U, E = IntSet.all(), IntSet.empty()
_is_raise_vfe = is_raise_of(VFE)


# ------------------------------------------------------------------ C20.1
def c20_1(ctx):
    # (a) per-output value range
    f = ctx.func(TX, "Tx._check_txs_out")
    loops = [n for n in body_nodes(f.node) if isinstance(n, ast.For)]
    if len(loops) != 1 or norm(loops[0].iter) != "self.txs_out" or not isinstance(loops[0].target, ast.Name):
        raise AnalysisError("%s: expected one loop over self.txs_out" % f.where)
    v = loops[0].target.id
    const = _const_resolver(ctx, f, {"self.MAX_MONEY"})
    subj = "%s.coin_value" % v
    w = GuardWalker(SymbolicAtomizer(_subject({subj}), const))
    exits = w.run(loops[0].body)
    may, must = reach_sets(exits, _is_raise_vfe, U, E)
    want = iv(0, ("s", 0)).complement()
    ctx.check(must == want, "value-range", ctx.where(f),
              "Tx._check_txs_out: outputs rejected for certain by the value guard are %s; the property requires exactly %s "
              "(MAX = self.MAX_MONEY, the per-coin limit)" % (must.fmt("MAX"), want.fmt("MAX")),
              sample={"function": f.qualname, "subject": subj, "must_raise": must.fmt("MAX"), "expected": want.fmt("MAX")})
    # (b) running total: accumulated before the comparison, compared with the same per-coin limit
    accs = [n for n in body_nodes(loops[0]) if isinstance(n, ast.AugAssign) and isinstance(n.op, ast.Add)
            and norm(n.value) == subj and isinstance(n.target, ast.Name)]
    if len(accs) != 1:
        ctx.bad("running-total", ctx.where(f), "Tx._check_txs_out: no single `total += %s` accumulation inside the loop" % subj)
        return
    tot = accs[0].target.id
    inits = [d for d in df.assignments(f.node).get(tot, []) if isinstance(d[0], ast.AST)]
    ctx.check(len(inits) == 1 and df.const_int(inits[0][0]) == 0 and inits[0][1] not in list(body_nodes(loops[0])),
              "running-total-init", ctx.where(f), "Tx._check_txs_out: running total %s is not initialised to 0 once before the loop" % tot)
    w2 = GuardWalker(SymbolicAtomizer(_subject({tot}), const))
    ex2 = w2.run(loops[0].body)
    may2, must2 = reach_sets(ex2, lambda e: _is_raise_vfe(e) and gi.involves_subject(e.cond), U, E)
    want2 = iv(("s", 1), None)
    ctx.check(may2 == want2, "running-total-range", ctx.where(f),
              "Tx._check_txs_out: running total rejected on %s; property requires exactly %s (total > MAX_MONEY of the coin)"
              % (may2.fmt("MAX"), want2.fmt("MAX")),
              sample={"subject": tot, "may_raise": may2.fmt("MAX"), "expected": want2.fmt("MAX")})
    # the comparison of the total must come after the accumulation in every iteration
    raises_tot = [e for e in ex2 if _is_raise_vfe(e) and tot in df.names_in(_enclosing_test(loops[0], e.node) or ast.Constant(0))]
    order_ok = bool(raises_tot) and all(e.node.lineno > accs[0].lineno for e in raises_tot)
    from sa.cfg import stmt_paths, struct_dominates
    paths = stmt_paths(f.node)
    ifs = [n for n in body_nodes(loops[0]) if isinstance(n, ast.If) and tot in df.names_in(n.test)]
    order_ok = bool(ifs) and all(struct_dominates(paths, accs[0], i) for i in ifs)
    ctx.check(order_ok, "running-total-order", ctx.where(f, accs[0]),
              "Tx._check_txs_out: the total is compared before the current output has been added (a total crossing MAX_MONEY on the last output is accepted)")
    # (c) the per-coin limits
    it = ctx.interp
    for rel, cls, want_v in ((TX, "Tx", 21000000 * 10 ** 8), ("pycoin/coins/groestlcoin/Tx.py", "Tx", 105000000 * 10 ** 8)):
        m = ctx.p.module(rel)
        cv = it.get(m.name, cls)
        val = it.getattr(cv, "MAX_MONEY")
        ctx.check(val == want_v, "MAX_MONEY:%s" % m.name, "%s:1" % rel,
                  "%s.%s.MAX_MONEY evaluates to %r, expected %d" % (m.name, cls, val, want_v),
                  sample={"class": "%s.%s" % (m.name, cls), "MAX_MONEY": val})
    # (d) coinbase script length
    f = ctx.func(TX, "Tx._check_txs_in")
    const = _const_resolver(ctx, f, set())
    subj_t = {"len(self.txs_in[0].script)"}
    w = GuardWalker(SymbolicAtomizer(_subject(subj_t, df.single_defs(f.node)), const))
    exits = w.run(f.node.body)
    may, must = reach_sets(exits, _is_raise_vfe, U, E)
    # on the coinbase branch lengths outside [2,100] must raise; is_coinbase() is opaque, so use may
    want = iv(2, 100).complement()
    cb_exits = [e for e in exits if _is_raise_vfe(e) and "script" in norm(_enclosing_test(f.node, e.node) or ast.Constant(0))]
    s = E
    for e in cb_exits:
        s = s | gi.sat_set(e.cond, U, E)
    ctx.check(s == want, "coinbase-script-length", ctx.where(f),
              "Tx._check_txs_in: coinbase script lengths rejected are %s, property requires exactly %s" % (s.fmt(), want.fmt()),
              sample={"subject": "len(self.txs_in[0].script)", "may_raise": s.fmt(), "expected": want.fmt()})
    if cb_exits:
        c = cb_exits[0].cond
        ops = gi.f_opaques(c)
        ctx.check(any("is_coinbase" in o for o in ops), "coinbase-script-branch", ctx.where(f),
                  "Tx._check_txs_in: the script-length rule is not conditioned on is_coinbase()")
    # (e) size limit
    f = ctx.func(TX, "Tx._check_size_limit")
    defs = df.single_defs(f.node)
    const = _const_resolver(ctx, f, {"self.MAX_TX_SIZE"})
    size_texts = {"len(self.as_bin())", "len(self.as_bin(include_witness_data=False))"}
    w = GuardWalker(SymbolicAtomizer(_subject(size_texts, defs), const))
    exits = w.run(f.node.body)
    may, must = reach_sets(exits, _is_raise_vfe, U, E)
    want = iv(("s", 1), None)
    ctx.check(must == want, "size-limit", ctx.where(f),
              "Tx._check_size_limit: sizes rejected are %s, property requires exactly %s" % (must.fmt("MAX_TX_SIZE"), want.fmt("MAX_TX_SIZE")),
              sample={"subject": "len(self.as_bin())", "must_raise": must.fmt("MAX_TX_SIZE")})
    val = it.getattr(it.get(ctx.p.module(TX).name, "Tx"), "MAX_TX_SIZE")
    ctx.check(val == 1000000, "MAX_TX_SIZE", "%s:1" % TX, "Tx.MAX_TX_SIZE evaluates to %r, expected 1000000" % (val,))
    # (f) empty input / output lists
    f = ctx.func(TX, "Tx._check_tx_inout_count")
    for attr, key in (("self.txs_out", "no-outputs"), ("self.txs_in", "no-inputs")):
        w = GuardWalker(SymbolicAtomizer(_subject({attr, "len(%s)" % attr}), lambda e: df.const_int(e)))
        exits = w.run(f.node.body)
        may, must = reach_sets(exits, lambda e: _is_raise_vfe(e) and gi.involves_subject(e.cond), U, E)
        want = iv(0, 0)
        ok = (must == want) if attr == "self.txs_out" else (may == want)
        ctx.check(ok, key, ctx.where(f),
                  "Tx._check_tx_inout_count: len(%s) values rejected are may=%s must=%s; property requires exactly {0}" % (attr, may.fmt(), must.fmt()),
                  sample={"subject": "len(%s)" % attr, "may_raise": may.fmt(), "must_raise": must.fmt()})


# ------------------------------------------------------------------ C20.2
def c20_2(ctx):
    f = ctx.func(TX, "Tx._check_txs_in")
    loops = [n for n in body_nodes(f.node) if isinstance(n, ast.For) and norm(n.iter) == "self.txs_in" and isinstance(n.target, ast.Name)]
    if not loops:
        ctx.bad("dup-loop", ctx.where(f), "Tx._check_txs_in: no loop over self.txs_in that could detect a reused outpoint")
        return
    found = False
    for lp in loops:
        v = lp.target.id
        defs = df.single_defs(f.node)
        keys = []   # (container text, key expr, kind, node)
        for n in body_nodes(lp):
            if isinstance(n, ast.Compare) and len(n.ops) == 1 and isinstance(n.ops[0], (ast.In, ast.NotIn)):
                keys.append((norm(n.comparators[0]), n.left, "test", n))
            elif isinstance(n, ast.Call) and isinstance(n.func, ast.Attribute) and n.func.attr in ("add", "get", "setdefault", "append", "__contains__") and n.args:
                keys.append((norm(n.func.value), n.args[0], n.func.attr, n))
            elif isinstance(n, ast.Subscript) and isinstance(n.value, ast.Name):
                keys.append((norm(n.value), n.slice, "subscript", n))
        by_c = {}
        for c, k, kind, node in keys:
            by_c.setdefault(c, []).append((k, kind, node))
        for c, ks in by_c.items():
            kinds = {k[1] for k in ks}
            if not ({"test", "get", "subscript", "__contains__"} & kinds) or not ({"add", "subscript", "append", "setdefault"} & kinds):
                continue
            if c == norm(lp.iter) or c.startswith("self."):
                continue
            found = True
            for k, kind, node in ks:
                fields = df.attrs_of(df.expand(k, defs), v)
                ctx.check({"previous_hash", "previous_index"} <= fields, "dup-key:%s" % kind, ctx.where(f, node),
                          "Tx._check_txs_in: duplicate detection uses key `%s` (%s of %s) which does not contain both "
                          "previous_hash and previous_index: two inputs spending the same outpoint are not always recognised"
                          % (norm(k), kind, c), what="dup-key:%s:%s" % (kind, norm(k)),
                          sample={"container": c, "key": norm(df.expand(k, defs)), "use": kind})
            # the membership test must lead to a raise, and insertion must not be conditional on anything but that
            tests = [node for k, kind, node in ks if kind == "test"]
            w = GuardWalker(lambda t: ("op", norm(t)))
            ex = w.run(lp.body)
            raised = [e for e in ex if _is_raise_vfe(e) and any(norm(t) in gi.f_opaques(e.cond) for t in tests)]
            ctx.check(bool(raised), "dup-raises", ctx.where(f, lp), "Tx._check_txs_in: membership in %s does not raise ValidationFailureError" % c)
            adds = [(st, r) for st, r in w.visits if any(isinstance(x, ast.Call) and isinstance(x.func, ast.Attribute) and x.func.attr == "add"
                                                          and norm(x.func.value) == c for x in ast.walk(st))]
            for st, r in adds:
                ops = set(gi.f_opaques(r)) if r not in (True, False) else set()
                allowed = {norm(t) for t in tests} | {o for o in ops if "is_coinbase" in o or "previous_hash" in o}
                ctx.check(ops <= allowed, "dup-insert-unconditional", ctx.where(f, st),
                          "Tx._check_txs_in: insertion into %s is conditional on %s; some outpoints are never recorded" % (c, sorted(ops - allowed)))
    if not found:
        ctx.bad("dup-structure", ctx.where(f), "Tx._check_txs_in: no container is both tested and filled with the outpoint of every input")
    # the branch must not be skipped for non-coinbase transactions: it is the else of `if self.is_coinbase()`


# ------------------------------------------------------------------ C20.3
def c20_3(ctx):
    f = ctx.func(TXIN, "TxIn.is_coinbase")
    rets = df.returns_of(f.node)
    if len(rets) != 1 or rets[0].value is None:
        raise AnalysisError("TxIn.is_coinbase: expected a single return expression")
    e = rets[0].value
    conj = e.values if isinstance(e, ast.BoolOp) and isinstance(e.op, ast.And) else [e]
    it = ctx.interp
    mv = it.module(f.module.name)
    got = {}
    for c in conj:
        if isinstance(c, ast.Compare) and len(c.ops) == 1 and isinstance(c.ops[0], ast.Eq):
            for a, b in ((c.left, c.comparators[0]), (c.comparators[0], c.left)):
                if isinstance(a, ast.Attribute) and norm(a.value) == "self":
                    from sa.interp import Frame
                    try:
                        val = it.eval(b, Frame(mv, None, {}))
                    except Exception:
                        val = None
                    got[a.attr] = val
    ok = got.get("previous_hash") == b"\0" * 32 and got.get("previous_index") == 0xFFFFFFFF and len(conj) == 2
    ctx.check(ok, "null-outpoint", ctx.where(f, rets[0]),
              "TxIn.is_coinbase: the null outpoint must be previous_hash == 32 zero bytes AND previous_index == 0xffffffff; found constraints %r"
              % ({k: (v.hex() if isinstance(v, bytes) else v) for k, v in got.items()},),
              sample={"function": f.qualname, "constraints": {k: (v.hex() if isinstance(v, bytes) else v) for k, v in got.items()}})
    # Tx.is_coinbase: exactly one input and that input is null
    f = ctx.func(TX, "Tx.is_coinbase")
    rets = df.returns_of(f.node)
    if len(rets) != 1 or rets[0].value is None:
        raise AnalysisError("Tx.is_coinbase: expected a single return expression")
    at = SymbolicAtomizer(_subject({"len(self.txs_in)"}), df.const_int)
    form = at(rets[0].value)
    s = gi.sat_set(form, U, E)
    ops = gi.f_opaques(form)
    ctx.check(s == iv(1, 1) and any("txs_in[0].is_coinbase()" in o for o in ops), "tx-is-coinbase", ctx.where(f, rets[0]),
              "Tx.is_coinbase: true for len(txs_in) in %s with conditions %s; property requires exactly one input which is the null outpoint" % (s.fmt(), ops),
              sample={"function": f.qualname, "len(txs_in)": s.fmt(), "and": ops})
    # the prevout-is-null rule of the non-coinbase branch uses the same predicate
    f = ctx.func(TX, "Tx._check_txs_in")
    hits = []
    for n in body_nodes(f.node):
        if isinstance(n, ast.If):
            for st in n.body:
                if isinstance(st, ast.Raise) and isinstance(st.exc, ast.Call) and "null" in norm(st.exc):
                    hits.append(n)
    if not hits:
        ctx.bad("null-prevout-rule", ctx.where(f), "Tx._check_txs_in: no `prevout is null` rejection found for non-coinbase transactions")
    for n in hits:
        t = norm(n.test)
        ok = t.endswith(".is_coinbase()") or ("previous_hash" in t and "previous_index" in t)
        ctx.check(ok, "null-prevout-test", ctx.where(f, n),
                  "Tx._check_txs_in: null-prevout test `%s` does not test both hash and index (a well-formed input with hash 0 and another index is rejected)" % t,
                  sample={"test": t})


# ------------------------------------------------------------------ C20.4
def c20_4(ctx):
    f = ctx.func(TX, "Tx.check")
    want = ["_check_tx_inout_count", "_check_txs_out", "_check_txs_in", "_check_size_limit"]
    top = []
    for st in f.node.body:
        if isinstance(st, ast.Expr) and isinstance(st.value, ast.Call) and isinstance(st.value.func, ast.Attribute) and norm(st.value.func.value) == "self":
            top.append(st.value.func.attr)
    for w in want:
        ctx.check(w in top, "check-calls:%s" % w, ctx.where(f), "Tx.check does not call self.%s() unconditionally" % w)
    # no early return / swallowing try in check
    bad = [n for n in body_nodes(f.node) if isinstance(n, (ast.Return, ast.Try, ast.If))]
    ctx.check(not bad, "check-straight-line", ctx.where(f), "Tx.check contains a branch / return / try that can skip a sub-check")


# ------------------------------------------------------------------ C20.6
def c20_6(ctx):
    f = ctx.func(TX, "Tx.bad_solution_count")
    w = GuardWalker(lambda t: ("op", norm(t)))
    exits = w.run(f.node.body)
    zero = [e for e in exits if e.kind == "return" and e.value is not None and df.const_int(e.value) == 0]
    deleg = [e for e in exits if e.kind == "return" and e.value is not None and "bad_solution_count" in norm(e.value)]
    ok = len(zero) == 1 and zero[0].cond == ("op", "self.is_coinbase()")
    ctx.check(ok, "coinbase-exempt", ctx.where(f), "Tx.bad_solution_count does not return 0 exactly under self.is_coinbase()",
              sample={"exits": [(e.kind, norm(e.value) if e.value is not None else None, repr(e.cond)) for e in exits]})
    ok2 = len(deleg) == 1 and deleg[0].cond == ("not", ("op", "self.is_coinbase()"))
    ctx.check(ok2, "non-coinbase-delegates", ctx.where(f), "Tx.bad_solution_count does not delegate to the generic count for non-coinbase transactions")
    # missing_unspents / missing_unspent coinbase conventions used by signing
    base = ctx.func("pycoin/coins/Tx.py", "Tx.bad_solution_count")
    ctx.ok("base-exists")


OBLIGATIONS = [
    Ob("C20.1", "accepted value / total / script-length / size sets as intervals with symbolic per-coin endpoints", c20_1, floor=9,
       engines="GI,CE", breaks_if="values 0, MAX_MONEY, MAX_MONEY+1; totals crossing MAX_MONEY on the last output; coinbase script lengths 1,2,100,101; GRS limit"),
    Ob("C20.2", "duplicate detection keyed on the full outpoint of every input", c20_2, floor=3, engines="DF,GI",
       breaks_if="two inputs spending the same outpoint with another output of the same tx in between"),
    Ob("C20.3", "null outpoint = zero hash AND index 0xffffffff; coinbase = exactly one such input", c20_3, floor=3, engines="GI,CE",
       breaks_if="input (0^32, 5); two inputs whose first is null"),
    Ob("C20.4", "check() runs the four sub-checks unconditionally", c20_4, floor=5, engines="CFG"),
    Ob("C20.6", "coinbase exemption dominates the solution count", c20_6, floor=3, engines="GI"),
]
