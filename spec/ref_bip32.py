"""Reference transcriptions for C09 (BIP32 hierarchical keys).  NEVER IMPORTED OR EXECUTED: parsed and compared in
canonical form (sa/sym.py) with the functions in /repo.  Reviewed against BIP32: CKDpriv (hardened: HMAC-SHA512(c,
0x00 || ser256(k) || ser32(i)); normal: HMAC-SHA512(c, serP(K) || ser32(i)); child = (I_L + k) mod n, chain = I_R; the
retry with 0x01 || I_R || ser32(i) is SLIP-10's rule for invalid children), CKDpub (I_L*G + K, infinity refused),
hardened children of public-only nodes refused, serialization depth(1) fingerprint(4) index(4, big-endian) chain(32)
key(33), master key HMAC-SHA512("Bitcoin seed", seed)."""


# pycoin/key/BIP32Node.py :: BIP32Node._subkey
def n_subkey_inner(self, i, is_hardened, as_private):
    if i < 0:
        raise ValueError()
    if i >= 2147483648:
        raise ValueError()
    i &= 2147483647
    if is_hardened:
        i |= 2147483648
    d = dict(depth=self._depth + 1, parent_fingerprint=self.fingerprint(), child_index=i)
    if self.secret_exponent() is None:
        if is_hardened:
            raise PublicPrivateMismatchError()
        d['public_pair'], chain_code = subkey_public_pair_chain_code_pair(self._generator, self.public_pair(), self._chain_code, i)
    else:
        secret_exponent = self.secret_exponent()
        assert secret_exponent is not None
        d['secret_exponent'], chain_code = subkey_secret_exponent_chain_code_pair(self._generator, secret_exponent, self._chain_code, i, is_hardened, self.public_pair())
    d['chain_code'] = chain_code
    key = self.__class__(**d)
    if not as_private:
        key = key.public_copy()
    return key


# pycoin/key/BIP32Node.py :: BIP32Node.subkey
def n_subkey(self, i=0, is_hardened=False, as_private=None):
    if as_private is None:
        as_private = self.secret_exponent() is not None
    is_hardened = not not is_hardened
    as_private = not not as_private
    lookup = (i, is_hardened, as_private)
    if lookup not in self._subkey_cache:
        self._subkey_cache[lookup] = self._subkey(i, is_hardened, as_private)
    return self._subkey_cache[lookup]


# pycoin/key/BIP32Node.py :: BIP32Node.subkey_for_path
def n_subkey_for_path(self, path):
    force_public = path[-4:] == '.pub'
    if force_public:
        path = path[:-4]
    key = self
    if path:
        invocations = path.split('/')
        for v in invocations:
            is_hardened = v[-1] in "'pH"
            if is_hardened:
                v = v[:-1]
            vi = int(v)
            key = key.subkey(i=vi, is_hardened=is_hardened, as_private=key.secret_exponent() is not None)
    if force_public and key.secret_exponent() is not None:
        key = key.public_copy()
    return key


# pycoin/key/BIP32Node.py :: BIP32Node.serialize
def n_serialize(self, as_private=None):
    if as_private is None:
        as_private = self.secret_exponent() is not None
    if self.secret_exponent() is None and as_private:
        raise PublicPrivateMismatchError()
    ba = bytearray()
    ba.extend([self._depth])
    ba.extend(self._parent_fingerprint + struct.pack('>L', self._child_index) + self._chain_code)
    if as_private:
        ba += b'\x00' + self._secret_exponent_bytes
    else:
        ba += self.sec(is_compressed=True)
    return bytes(ba)


# pycoin/key/BIP32Node.py :: BIP32Node.deserialize
def n_deserialize(class_, data):
    parent_fingerprint, child_index = struct.unpack('>4sL', data[5:13])
    d = dict(chain_code=data[13:45], depth=ord(data[4:5]), parent_fingerprint=parent_fingerprint, child_index=child_index)
    is_private = data[45:46] == b'\x00'
    if is_private:
        d['secret_exponent'] = from_bytes_32(data[46:])
    else:
        d['public_pair'] = sec_to_public_pair(data[45:], generator=class_._generator)
    return class_(**d)


# pycoin/key/BIP32Node.py :: BIP32Node.__init__
def n_init(self, chain_code, depth=0, parent_fingerprint=b'\x00\x00\x00\x00', child_index=0, secret_exponent=None, public_pair=None):
    if [secret_exponent, public_pair].count(None) != 1:
        raise ValueError()
    super(BIP32Node, self).__init__(secret_exponent=secret_exponent, public_pair=public_pair, is_compressed=True)
    if secret_exponent:
        self._secret_exponent_bytes = to_bytes_32(secret_exponent)
    if not isinstance(chain_code, bytes):
        raise TypeError()
    if len(chain_code) != 32:
        raise ValueError()
    self._chain_code = chain_code
    self._depth = depth
    if len(parent_fingerprint) != 4:
        raise EncodingError()
    self._parent_fingerprint = parent_fingerprint
    self._child_index = child_index
    self._subkey_cache = dict()


# pycoin/key/BIP32Node.py :: BIP32Node.from_master_secret
def n_from_master_secret(class_, master_secret):
    I64 = hmac.HMAC(key=b'Bitcoin seed', msg=master_secret, digestmod=hashlib.sha512).digest()
    return class_(chain_code=I64[32:], secret_exponent=from_bytes_32(I64[:32]))


# pycoin/key/BIP32Node.py :: BIP32Node.public_copy
def n_public_copy(self):
    d = dict(chain_code=self._chain_code, depth=self._depth, parent_fingerprint=self._parent_fingerprint, child_index=self._child_index, public_pair=self.public_pair())
    return self.__class__(**d)


# pycoin/key/BIP32Node.py :: BIP32Node.fingerprint
def n_fingerprint(self, is_compressed=None):
    return self.hash160(is_compressed=is_compressed)[:4]


# pycoin/key/bip32.py :: subkey_secret_exponent_chain_code_pair
def ckd_priv(generator, secret_exponent, chain_code_bytes, i, is_hardened, public_pair=None):
    ORDER = generator.order()
    i_as_bytes = struct.pack('>L', i)
    if is_hardened:
        data = b'\x00' + to_bytes_32(secret_exponent) + i_as_bytes
    else:
        if public_pair is None:
            public_pair = secret_exponent * generator
        sec = public_pair_to_sec(public_pair, compressed=True)
        data = sec + i_as_bytes
    while True:
        I64 = hmac.HMAC(key=chain_code_bytes, msg=data, digestmod=hashlib.sha512).digest()
        I_left = from_bytes_32(I64[:32])
        new_secret_exponent = (I_left + secret_exponent) % ORDER
        if I_left < ORDER and new_secret_exponent != 0:
            break
        data = b'\x01' + I64[32:] + i_as_bytes
    new_chain_code = I64[32:]
    return (new_secret_exponent, new_chain_code)


# pycoin/key/bip32.py :: subkey_public_pair_chain_code_pair
def ckd_pub(generator, public_pair, chain_code_bytes, i):
    INFINITY = generator.infinity()
    ORDER = generator.order()
    i_as_bytes = struct.pack('>l', i)
    sec = public_pair_to_sec(public_pair, compressed=True)
    data = sec + i_as_bytes
    I64 = hmac.HMAC(key=chain_code_bytes, msg=data, digestmod=hashlib.sha512).digest()
    I_left_as_exponent = from_bytes_32(I64[:32]) % ORDER
    the_point = I_left_as_exponent * generator + generator.Point(*public_pair)
    if the_point == INFINITY:
        logger.critical(_SUBKEY_VALIDATION_LOG_ERR_FMT)
        raise DerivationError()
    new_chain_code = I64[32:]
    return (the_point, new_chain_code)


# pycoin/key/subpaths.py :: subpaths_for_path_range.range_iterator
def sp_range_iterator(the_range):
    for r in the_range.split(','):
        is_hardened = r[-1] in hardening_chars
        hardened_char = hardening_chars[-1] if is_hardened else ''
        if is_hardened:
            r = r[:-1]
        if '-' in r:
            low, high = [int(x) for x in r.split('-', 1)]
            for t in range(low, high + 1):
                yield ('%d%s' % (t, hardened_char))
        else:
            yield ('%s%s' % (r, hardened_char))


# pycoin/key/subpaths.py :: subpaths_for_path_range
def sp_subpaths_for_path_range(path_range, hardening_chars="'pH"):
    if path_range == '':
        yield ''
        return

    def range_iterator(the_range):
        for r in the_range.split(','):
            is_hardened = r[-1] in hardening_chars
            hardened_char = hardening_chars[-1] if is_hardened else ''
            if is_hardened:
                r = r[:-1]
            if '-' in r:
                low, high = [int(x) for x in r.split('-', 1)]
                for t in range(low, high + 1):
                    yield ('%d%s' % (t, hardened_char))
            else:
                yield ('%s%s' % (r, hardened_char))
    components = path_range.split('/')
    iterators = [range_iterator(c) for c in components]
    for v in itertools.product(*iterators):
        yield '/'.join(v)


# pycoin/key/electrum.py :: ElectrumWallet.subkey
def el_subkey(self, path):
    t = path.split('/')
    if len(t) == 2:
        n, for_change = t
    else:
        n, = t
        for_change = 0
    b = (str(n) + ':' + str(for_change) + ':').encode('utf8') + self.master_public_key()
    offset = from_bytes_32(double_sha256(b))
    if self.secret_exponent():
        return self.__class__(master_private_key=(self.master_private_key() + offset) % self._generator.order())
    p1 = offset * self._generator
    x, y = self.public_pair()
    p2 = self._generator.Point(x, y)
    p = p1 + p2
    return self.__class__(public_pair=p)


