"""Transcription of every function of pycoin/solve/constraints.py as of the reviewed tree (see DESIGN.md section 12).
NEVER IMPORTED OR EXECUTED: parsed and compared in canonical form (sa/sym.py) with the functions in /repo."""


_CONSTS = {

}


# pycoin/solve/constraints.py :: Atom.__init__
def q__Atom____init__(self, name):
    self.name = name


# pycoin/solve/constraints.py :: Atom.dependencies
def q__Atom__dependencies(self):
    return frozenset([self])


# pycoin/solve/constraints.py :: Atom.__len__
def q__Atom____len__(self):
    return 0


# pycoin/solve/constraints.py :: Atom.__eq__
def q__Atom____eq__(self, other):
    if isinstance(other, Atom):
        return self.name == other.name
    return False


# pycoin/solve/constraints.py :: Atom.__lt__
def q__Atom____lt__(self, other):
    if isinstance(other, Atom):
        return self.name < other.name
    return False


# pycoin/solve/constraints.py :: Atom.__hash__
def q__Atom____hash__(self):
    return self.name.__hash__()


# pycoin/solve/constraints.py :: Atom.__repr__
def q__Atom____repr__(self):
    return '<%s>' % self.name


# pycoin/solve/constraints.py :: Operator.__init__
def q__Operator____init__(self, op_name, *args):
    self._op_name = op_name
    self._args = tuple(args)
    s = set()
    for a in self._args:
        if hasattr(a, 'dependencies'):
            s.update(a.dependencies())
    self._dependencies = frozenset(s)


# pycoin/solve/constraints.py :: Operator.__hash__
def q__Operator____hash__(self):
    return self._args.__hash__()


# pycoin/solve/constraints.py :: Operator.__eq__
def q__Operator____eq__(self, other):
    if isinstance(other, Operator):
        return (self._op_name, self._args == other._op_name, other._args)
    return False


# pycoin/solve/constraints.py :: Operator.dependencies
def q__Operator__dependencies(self):
    return self._dependencies


# pycoin/solve/constraints.py :: Operator.__repr__
def q__Operator____repr__(self):
    return '(%s %s)' % (self._op_name, ' '.join((repr(a) for a in self._args)))


# pycoin/solve/constraints.py :: make_op_if
def q__make_op_if(constraints):

    def my_op_if(vm):
        pdb.set_trace()
        t = vm.stack.pop()
        t = Operator('IF', t)
        vm.stack.append(t)
    return my_op_if


# pycoin/solve/constraints.py :: make_op_if.my_op_if
def q__make_op_if__my_op_if(vm):
    pdb.set_trace()
    t = vm.stack.pop()
    t = Operator('IF', t)
    vm.stack.append(t)


# pycoin/solve/constraints.py :: make_op_hash160
def q__make_op_hash160(constraints):

    def my_op_hash160(vm):
        t = vm.stack.pop()
        t = Operator('HASH160', t)
        vm.stack.append(t)
    setattr(my_op_hash160, 'stack_size', 1)
    return my_op_hash160


# pycoin/solve/constraints.py :: make_op_hash160.my_op_hash160
def q__make_op_hash160__my_op_hash160(vm):
    t = vm.stack.pop()
    t = Operator('HASH160', t)
    vm.stack.append(t)


# pycoin/solve/constraints.py :: make_op_equal
def q__make_op_equal(constraints):

    def my_op_equal(vm):
        t1 = vm.stack.pop()
        t2 = vm.stack.pop()
        c = Operator('EQUAL', t1, t2)
        vm.append(c)
    setattr(my_op_equal, 'stack_size', 2)
    return my_op_equal


# pycoin/solve/constraints.py :: make_op_equal.my_op_equal
def q__make_op_equal__my_op_equal(vm):
    t1 = vm.stack.pop()
    t2 = vm.stack.pop()
    c = Operator('EQUAL', t1, t2)
    vm.append(c)


# pycoin/solve/constraints.py :: make_op_equalverify
def q__make_op_equalverify(constraints):

    def my_op_equalverify(vm):
        t1 = vm.stack.pop()
        t2 = vm.stack.pop()
        c = Operator('EQUAL', t1, t2)
        constraints.append(c)
    setattr(my_op_equalverify, 'stack_size', 2)
    return my_op_equalverify


# pycoin/solve/constraints.py :: make_op_equalverify.my_op_equalverify
def q__make_op_equalverify__my_op_equalverify(vm):
    t1 = vm.stack.pop()
    t2 = vm.stack.pop()
    c = Operator('EQUAL', t1, t2)
    constraints.append(c)


# pycoin/solve/constraints.py :: make_op_checksig
def q__make_op_checksig(constraints):

    def my_op_checksig(vm):

        def sighash_f(signature_type):
            return vm.signature_for_hash_type_f(signature_type, [], vm)
        t1 = vm.stack.pop()
        t2 = vm.stack.pop()
        t = Operator('SIGNATURES_CORRECT', [t1], [t2], sighash_f)
        constraints.append(Operator('IS_PUBKEY', t1))
        constraints.append(Operator('IS_SIGNATURE', t2))
        vm.stack.append(t)
    return my_op_checksig


# pycoin/solve/constraints.py :: make_op_checksig.my_op_checksig
def q__make_op_checksig__my_op_checksig(vm):

    def sighash_f(signature_type):
        return vm.signature_for_hash_type_f(signature_type, [], vm)
    t1 = vm.stack.pop()
    t2 = vm.stack.pop()
    t = Operator('SIGNATURES_CORRECT', [t1], [t2], sighash_f)
    constraints.append(Operator('IS_PUBKEY', t1))
    constraints.append(Operator('IS_SIGNATURE', t2))
    vm.stack.append(t)


# pycoin/solve/constraints.py :: make_op_checksig.my_op_checksig.sighash_f
def q__make_op_checksig__my_op_checksig__sighash_f(signature_type):
    return vm.signature_for_hash_type_f(signature_type, [], vm)


# pycoin/solve/constraints.py :: make_op_checkmultisig
def q__make_op_checkmultisig(constraints):

    def my_op_checkmultisig(vm):

        def sighash_f(signature_type):
            return vm.signature_for_hash_type_f(signature_type, [], vm)
        key_count = vm.IntStreamer.int_from_script_bytes(vm.stack.pop(), require_minimal=False)
        public_pair_blobs = []
        for i in range(key_count):
            constraints.append(Operator('IS_PUBKEY', vm.stack[-1]))
            public_pair_blobs.append(vm.stack.pop())
        signature_count = vm.IntStreamer.int_from_script_bytes(vm.stack.pop(), require_minimal=False)
        sig_blobs = []
        for i in range(signature_count):
            constraints.append(Operator('IS_SIGNATURE', vm.stack[-1]))
            sig_blobs.append(vm.stack.pop())
        t1 = vm.stack.pop()
        constraints.append(Operator('EQUAL', t1, b''))
        t = Operator('SIGNATURES_CORRECT', public_pair_blobs, sig_blobs, sighash_f)
        vm.stack.append(t)
    return my_op_checkmultisig


# pycoin/solve/constraints.py :: make_op_checkmultisig.my_op_checkmultisig
def q__make_op_checkmultisig__my_op_checkmultisig(vm):

    def sighash_f(signature_type):
        return vm.signature_for_hash_type_f(signature_type, [], vm)
    key_count = vm.IntStreamer.int_from_script_bytes(vm.stack.pop(), require_minimal=False)
    public_pair_blobs = []
    for i in range(key_count):
        constraints.append(Operator('IS_PUBKEY', vm.stack[-1]))
        public_pair_blobs.append(vm.stack.pop())
    signature_count = vm.IntStreamer.int_from_script_bytes(vm.stack.pop(), require_minimal=False)
    sig_blobs = []
    for i in range(signature_count):
        constraints.append(Operator('IS_SIGNATURE', vm.stack[-1]))
        sig_blobs.append(vm.stack.pop())
    t1 = vm.stack.pop()
    constraints.append(Operator('EQUAL', t1, b''))
    t = Operator('SIGNATURES_CORRECT', public_pair_blobs, sig_blobs, sighash_f)
    vm.stack.append(t)


# pycoin/solve/constraints.py :: make_op_checkmultisig.my_op_checkmultisig.sighash_f
def q__make_op_checkmultisig__my_op_checkmultisig__sighash_f(signature_type):
    return vm.signature_for_hash_type_f(signature_type, [], vm)


# pycoin/solve/constraints.py :: make_traceback_f
def q__make_traceback_f(constraints, int_for_opcode_f, reset_stack_f):
    TWEAKED_OPCODES = (('OP_HASH160', make_op_hash160), ('OP_EQUALVERIFY', make_op_equalverify), ('OP_EQUAL', make_op_equal), ('OP_CHECKSIG', make_op_checksig), ('OP_CHECKMULTISIG', make_op_checkmultisig))
    MY_OPCODES = {int_for_opcode_f(k): v(constraints) for k, v in TWEAKED_OPCODES}

    def prelaunch(vmc):
        if not vmc.is_solution_script:
            vmc.stack = reset_stack_f(vmc.stack)

    def traceback_f(opcode, data, pc, vm):
        f = MY_OPCODES.get(opcode)
        if f is None:
            return
        stack_size = getattr(f, 'stack_size', 0)
        if stack_size and all((not isinstance(v, Atom) for v in vm.stack[-stack_size:])):
            return
        return f

    def postscript(vmc):
        if not vmc.is_solution_script:
            if isinstance(vmc.stack[-1], Atom):
                constraints.append(vmc.stack[-1])
            vmc.stack = [vmc.VM_TRUE]
    setattr(traceback_f, 'prelaunch', prelaunch)
    setattr(traceback_f, 'postscript', postscript)
    return traceback_f


# pycoin/solve/constraints.py :: make_traceback_f.prelaunch
def q__make_traceback_f__prelaunch(vmc):
    if not vmc.is_solution_script:
        vmc.stack = reset_stack_f(vmc.stack)


# pycoin/solve/constraints.py :: make_traceback_f.traceback_f
def q__make_traceback_f__traceback_f(opcode, data, pc, vm):
    f = MY_OPCODES.get(opcode)
    if f is None:
        return
    stack_size = getattr(f, 'stack_size', 0)
    if stack_size and all((not isinstance(v, Atom) for v in vm.stack[-stack_size:])):
        return
    return f


# pycoin/solve/constraints.py :: make_traceback_f.postscript
def q__make_traceback_f__postscript(vmc):
    if not vmc.is_solution_script:
        if isinstance(vmc.stack[-1], Atom):
            constraints.append(vmc.stack[-1])
        vmc.stack = [vmc.VM_TRUE]
