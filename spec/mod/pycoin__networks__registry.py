"""Transcription of every function of pycoin/networks/registry.py as of the reviewed tree (see DESIGN.md section 12).
NEVER IMPORTED OR EXECUTED: parsed and compared in canonical form (sa/sym.py) with the functions in /repo."""


_CONSTS = {

}


# pycoin/networks/registry.py :: search_prefixes
def q__search_prefixes():
    prefixes = ['pycoin.symbols']
    try:
        prefixes = os.getenv('PYCOIN_NETWORK_PATHS', '').split() + prefixes
    except Exception:
        pass
    return prefixes


# pycoin/networks/registry.py :: network_for_netcode
def q__network_for_netcode(symbol):
    symbol = symbol.upper()
    netcode = symbol.lower()
    for prefix in search_prefixes():
        try:
            module = importlib.import_module('%s.%s' % (prefix, netcode))
            if module.network.symbol.upper() == symbol:
                module.symbol = symbol
                return module.network
        except (AttributeError, ImportError):
            pass
    raise ValueError()


# pycoin/networks/registry.py :: iterate_symbols
def q__iterate_symbols():
    for prefix in search_prefixes():
        package = importlib.import_module(prefix)
        for importer, modname, ispkg in pkgutil.walk_packages(path=package.__path__, onerror=lambda x: None):
            network = network_for_netcode(modname)
            if network:
                yield network.symbol.upper()


# pycoin/networks/registry.py :: network_codes
def q__network_codes():
    return list(iterate_symbols())
