"""Reference transcriptions for C13 (value conservation).  NEVER IMPORTED OR EXECUTED: parsed and compared in canonical
form (sa/sym.py) with the functions in /repo.  Reviewed against the arithmetic the property states: fee = sum(inputs) -
sum(outputs); the split pool (outputs of value 0) receives remaining = inputs - outputs - fee as divmod shares
(r shares of q+1, count-r shares of q: r(q+1) + (count-r)q = total); remaining < 0 and remaining < count are errors raised
BEFORE any output is written; validate_unspents compares amount and script of every non-coinbase input with its
authenticated source transaction."""


ZERO32 = b"\x00\x00\x00\x00\x00\x00\x00\x00\x00\x00\x00\x00\x00\x00\x00\x00\x00\x00\x00\x00\x00\x00\x00\x00\x00\x00\x00\x00\x00\x00\x00\x00"


# pycoin/coins/tx_utils.py :: distribute_from_split_pool
# pycoin/coins/tx_utils.py :: distribute_from_split_pool
def tu_distribute(tx, fee):
    if fee == 'standard':
        fee = tx_fee.recommended_fee_for_tx(tx)
    zero_txs_out = [tx_out for tx_out in tx.txs_out if tx_out.coin_value == 0]
    zero_count = len(zero_txs_out)
    if zero_count > 0:
        total_coin_value = sum((spendable.coin_value for spendable in tx.unspents))
        coins_allocated = sum((tx_out.coin_value for tx_out in tx.txs_out)) + fee
        remaining_coins = total_coin_value - coins_allocated
        if remaining_coins < 0:
            raise ValueError()
        if remaining_coins < zero_count:
            raise ValueError()
        for value, tx_out in zip(split_with_remainder(remaining_coins, zero_count), zero_txs_out):
            tx_out.coin_value = value
    elif sum((tx_out.coin_value for tx_out in tx.txs_out)) > sum((spendable.coin_value for spendable in tx.unspents)):
        raise ValueError()
    return zero_count


# pycoin/coins/tx_utils.py :: split_with_remainder
def tu_split(total_amount, split_count):
    value_each, extra_count = divmod(total_amount, split_count)
    for _ in range(extra_count):
        yield (value_each + 1)
    for _ in range(split_count - extra_count):
        yield value_each


# pycoin/coins/tx_utils.py :: create_tx
def tu_create_tx(network, spendables, payables, fee='standard', lock_time=0, version=1):
    Tx = network.tx

    def _fix_spendable(s):
        if isinstance(s, Tx.Spendable):
            return s
        if not hasattr(s, 'keys'):
            return Tx.Spendable.from_text(s)
        return Tx.Spendable.from_dict(s)
    spendables = [_fix_spendable(s) for s in spendables]
    txs_in = [spendable.tx_in() for spendable in spendables]
    txs_out = []
    for payable in payables:
        if len(payable) == 2:
            address, coin_value = payable
        else:
            address = payable
            coin_value = 0
        script = network.contract.for_address(address)
        txs_out.append(Tx.TxOut(coin_value, script))
    tx = Tx(version=version, txs_in=txs_in, txs_out=txs_out, lock_time=lock_time)
    tx.set_unspents(spendables)
    distribute_from_split_pool(tx, fee)
    return tx


# pycoin/coins/bitcoin/Tx.py :: Tx.fee
def tx_fee(self):
    return self.total_in() - self.total_out()


# pycoin/coins/bitcoin/Tx.py :: Tx.total_in
def tx_total_in(self):
    if self.is_coinbase():
        return self.txs_out[0].coin_value
    self.check_unspents()
    return sum((tx_out.coin_value for tx_out in self.unspents))


# pycoin/coins/bitcoin/Tx.py :: Tx.total_out
def tx_total_out(self):
    return sum((tx_out.coin_value for tx_out in self.txs_out))


# pycoin/coins/bitcoin/Tx.py :: Tx.validate_unspents
def tx_validate_unspents(self, tx_db):
    tx_hashes = set((tx_in.previous_hash for tx_in in self.txs_in))
    tx_lookup = {}
    for h in tx_hashes:
        if h == ZERO32:
            continue
        the_tx = tx_db.get(h)
        if the_tx is None:
            raise KeyError()
        if the_tx.hash() != h:
            raise KeyError()
        tx_lookup[h] = the_tx
    for idx, tx_in in enumerate(self.txs_in):
        if tx_in.previous_hash == ZERO32:
            continue
        txs_out = tx_lookup[tx_in.previous_hash].txs_out
        if tx_in.previous_index > len(txs_out):
            raise BadSpendableError()
        tx_out1 = txs_out[tx_in.previous_index]
        tx_out2 = self.unspents[idx]
        if tx_out1.coin_value != tx_out2.coin_value:
            raise BadSpendableError()
        if tx_out1.script != tx_out2.script:
            raise BadSpendableError()
    return self.fee()


# pycoin/coins/bitcoin/Spendable.py :: Spendable.tx_in
def sp_tx_in(self, script=b'', sequence=4294967295):
    return self.TxIn(self.tx_hash, self.tx_out_index, script, sequence)


# pycoin/coins/Tx.py :: Tx.set_unspents
def btx_set_unspents(self, unspents):
    if len(unspents) != len(self.txs_in):
        raise ValueError()
    self.unspents = unspents


# pycoin/convention/__init__.py :: satoshi_to_btc
def cv_satoshi_to_btc(satoshi_count):
    if satoshi_count == 0:
        return decimal.Decimal(0)
    r = satoshi_count * COIN_PER_SATOSHI
    return r.quantize(COIN_PER_SATOSHI)


# pycoin/convention/__init__.py :: btc_to_satoshi
def cv_btc_to_satoshi(btc):
    return int(decimal.Decimal(btc) * SATOSHI_PER_COIN)


# pycoin/convention/__init__.py :: satoshi_to_mbtc
def cv_satoshi_to_mbtc(satoshi_count):
    if satoshi_count == 0:
        return decimal.Decimal(0)
    r = satoshi_count / SATOSHI_TO_MBTC
    return r.quantize(MBTC_PER_SATOSHI)


# pycoin/convention/__init__.py :: mbtc_to_satoshi
def cv_mbtc_to_satoshi(btc):
    return int(decimal.Decimal(btc) * SATOSHI_TO_MBTC)


