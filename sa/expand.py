"""Statement-level expansion of helpers added since the review.

A refactoring that extracts part of a function into a new helper leaves the caller with `x = self._helper(a, b)`;
the reviewed transcription (and every rule written against the reviewed code) knows nothing of `_helper`.  This
module rewrites such a caller into one function again: the helper's body is spliced in where it is called,
with its locals renamed, its parameters bound and its `return`s turned into jumps to the end of the splice
(InlineBlock / InlineReturn, two statement kinds only sa/sym.SymWalker executes).

Only helpers that are NOT part of the reviewed transcription of their module (spec/mod) are expanded: a reviewed
function stays a call and is judged on its own.  Nothing is expanded on the reviewed tree itself, so every rule
sees exactly the nodes of the source there.
"""
from __future__ import annotations

import ast
import copy

PURE_BUILTINS = ("len", "int", "isinstance", "bool", "str", "bytes", "tuple", "list", "min", "max", "abs", "range", "ord", "chr", "type", "getattr", "hasattr", "bytearray", "dict", "set", "sorted", "reversed", "enumerate", "zip", "sum", "any", "all")

EXPANDED = {}       # id(original FunctionDef) -> expanded copy (for node lookups by identity)


class InlineBlock(ast.stmt):
    """statements of an expanded helper; InlineReturn inside jumps to its end"""
    _fields = ("body",)

    def __init__(self, body=None, ret=None, helper=None, **kw):
        super().__init__(**kw)
        self.body = body or []
        self.ret = ret
        self.helper = helper


class InlineReturn(ast.stmt):
    _fields = ("value",)

    def __init__(self, value=None, ret=None, **kw):
        super().__init__(**kw)
        self.value = value
        self.ret = ret


def _unconditional_calls(e):
    """Call nodes of expression e in evaluation order that are evaluated whenever e is (not under a lambda,
    comprehension element, short-circuit right operand or conditional-expression branch)"""
    out = []

    def rec(n):
        if isinstance(n, (ast.Lambda, ast.ListComp, ast.SetComp, ast.DictComp, ast.GeneratorExp)):
            if not isinstance(n, ast.Lambda) and n.generators:
                rec(n.generators[0].iter)
            return
        if isinstance(n, ast.BoolOp):
            rec(n.values[0])
            return
        if isinstance(n, ast.IfExp):
            rec(n.test)
            return
        if isinstance(n, ast.Call):
            rec(n.func)
            for a in n.args:
                rec(a)
            for k in n.keywords:
                rec(k.value)
            out.append(n)
            return
        for c in ast.iter_child_nodes(n):
            rec(c)
    rec(e)
    return out


def _expandable(fn, call, is_method_call):
    """(params-in-call-order binding) or None"""
    if not isinstance(fn, ast.FunctionDef):
        return None
    deco = [d.id if isinstance(d, ast.Name) else None for d in fn.decorator_list]
    if any(d not in ("staticmethod", "classmethod") for d in deco):
        return None
    for n in ast.walk(fn):
        if isinstance(n, (ast.Await, ast.Global, ast.Nonlocal, ast.AsyncFunctionDef, ast.ClassDef)):
            return None
    if any(isinstance(n, (ast.Yield, ast.YieldFrom)) for n in _own_nodes(fn)):
        return None
    a = fn.args
    if a.kwarg or any(isinstance(x, ast.Starred) for x in call.args) or any(k.arg is None for k in call.keywords):
        return None
    params = [x.arg for x in a.posonlyargs + a.args]
    bind = {}
    if is_method_call and "staticmethod" not in deco:
        if not params:
            return None
        if "classmethod" in deco:
            if not (isinstance(call.func.value, ast.Name) and call.func.value.id == "cls"):
                return None
        bind[params[0]] = call.func.value
        params = params[1:]
    if len(call.args) > len(params) and not a.vararg:
        return None
    order = []
    for p_, v in zip(params, call.args):
        bind[p_] = v
        order.append(p_)
    if a.vararg:
        # def h(vm, *rest): the surplus positional arguments, as the tuple the helper sees
        bind[a.vararg.arg] = ast.Tuple(list(call.args[len(params):]), ast.Load())
        order.append(a.vararg.arg)
    kwonly = [x.arg for x in a.kwonlyargs]
    for k in call.keywords:
        if k.arg in bind or (k.arg not in params and k.arg not in kwonly):
            return None
        bind[k.arg] = k.value
        order.append(k.arg)
    defaults = dict(zip([x.arg for x in (a.posonlyargs + a.args)[len(a.posonlyargs + a.args) - len(a.defaults):]], a.defaults)) if a.defaults else {}
    defaults.update({x.arg: d for x, d in zip(a.kwonlyargs, a.kw_defaults) if d is not None})
    for p_ in params + kwonly:
        if p_ not in bind:
            d = defaults.get(p_)
            if d is None or not isinstance(d, (ast.Constant, ast.Tuple, ast.List, ast.Dict)) or any(isinstance(x, (ast.Name, ast.Call)) for x in ast.walk(d)):
                return None
            bind[p_] = d
            order.append(p_)
    first = [p_ for p_ in bind if p_ not in order]       # self / cls
    return [(p_, bind[p_]) for p_ in first + order]


def _own_nodes(fn):
    """nodes of fn's own body, not of the functions and lambdas defined inside it"""
    stack = list(fn.body)
    while stack:
        n = stack.pop()
        yield n
        if isinstance(n, (ast.FunctionDef, ast.AsyncFunctionDef, ast.Lambda, ast.ClassDef)):
            continue
        stack.extend(ast.iter_child_nodes(n))


class _Renamer(ast.NodeTransformer):
    def __init__(self, ren):
        self.ren = ren

    def visit_Name(self, n):
        if n.id in self.ren:
            return ast.copy_location(ast.Name(self.ren[n.id], n.ctx), n)
        return n

    def visit_Lambda(self, n):
        shadow = {x.arg for x in n.args.args + n.args.posonlyargs + n.args.kwonlyargs}
        inner = _Renamer({k: v for k, v in self.ren.items() if k not in shadow})
        n.body = inner.visit(n.body)
        for i, d in enumerate(n.args.defaults):
            n.args.defaults[i] = self.visit(d)
        return n

    def visit_FunctionDef(self, n):
        shadow = {x.arg for x in n.args.args + n.args.posonlyargs + n.args.kwonlyargs}
        if n.args.vararg:
            shadow.add(n.args.vararg.arg)
        if n.args.kwarg:
            shadow.add(n.args.kwarg.arg)
        for x in _own_nodes(n):
            if isinstance(x, ast.Name) and isinstance(x.ctx, (ast.Store, ast.Del)):
                shadow.add(x.id)
        inner = _Renamer({k: v for k, v in self.ren.items() if k not in shadow})
        n.body = [inner.visit(st) for st in n.body]
        n.args.defaults = [self.visit(d) for d in n.args.defaults]
        if n.name in self.ren:
            n.name = self.ren[n.name]
        return n

    def visit_ExceptHandler(self, n):
        if n.name and n.name in self.ren:
            n.name = self.ren[n.name]
        return self.generic_visit(n)


def _locals_of(fn):
    names = {x.arg for x in fn.args.posonlyargs + fn.args.args + fn.args.kwonlyargs}
    if fn.args.vararg:
        names.add(fn.args.vararg.arg)
    for n in _own_nodes(fn):
        if isinstance(n, ast.Name) and isinstance(n.ctx, (ast.Store, ast.Del)):
            names.add(n.id)
        elif isinstance(n, ast.ExceptHandler) and n.name:
            names.add(n.name)
        elif isinstance(n, (ast.FunctionDef, ast.AsyncFunctionDef)):
            names.add(n.name)
        elif isinstance(n, (ast.ListComp, ast.SetComp, ast.DictComp, ast.GeneratorExp)):
            pass
    return names


class Expander:
    def __init__(self, resolve, max_depth=3):
        self.resolve = resolve      # (call node, context) -> (FunctionDef, new context) or None; context is opaque to us
        self.max_depth = max_depth
        self.count = 0
        self.used = []

    def _returns_to_jumps(self, stmts, ret):
        class R(ast.NodeTransformer):
            def visit_Return(s, n):
                val = n.value if n.value is not None else ast.Constant(None)
                return [ast.copy_location(ast.Assign([ast.Name(ret, ast.Store())], val, lineno=n.lineno), n), ast.copy_location(InlineReturn(None, ret), n)]

            def visit_Lambda(s, n):
                return n

            def visit_FunctionDef(s, n):
                return n
        out = []
        for st in stmts:
            r = R().visit(st)
            out += r if isinstance(r, list) else [r]
        return out

    def splice(self, call, fn, binding, ctx2, depth, loc):
        """-> (statements, name of the result variable)"""
        self.count += 1
        prefix = "%s__%d__" % (fn.name.strip("_") or "h", self.count)
        ren = {nm: prefix + nm for nm in _locals_of(fn)}
        pre = []
        stored = {n.id for n in _own_nodes(fn) if isinstance(n, ast.Name) and isinstance(n.ctx, (ast.Store, ast.Del))}
        for p_, v in binding:
            if p_ in ("self", "cls") and isinstance(v, ast.Name) and v.id == p_:
                ren.pop(p_, None)           # same object under the same name
                continue
            if isinstance(v, ast.Name) and p_ not in stored:
                ren[p_] = v.id              # the helper only reads its parameter: it IS the caller's variable (no alias to track)
                continue
            pre.append(ast.copy_location(ast.Assign([ast.Name(ren[p_], ast.Store())], copy.deepcopy(v), lineno=loc.lineno), loc))
        ret = prefix + "result"
        body = [st for st in copy.deepcopy(fn.body) if not (isinstance(st, ast.Expr) and isinstance(st.value, ast.Constant) and isinstance(st.value.value, str))]
        body = [_Renamer(ren).visit(st) for st in body]
        body = self._returns_to_jumps(body, ret)
        body = self.block(body, ctx2, depth + 1)
        blk = ast.copy_location(InlineBlock(body, ret, fn.name), loc)
        init = ast.copy_location(ast.Assign([ast.Name(ret, ast.Store())], ast.Constant(None), lineno=loc.lineno), loc)
        self.used.append(fn.name)
        return pre + [init, blk], ret

    def _try_call(self, call, ctx_, depth):
        if depth >= self.max_depth or not isinstance(call, ast.Call):
            return None
        r = self.resolve(call, ctx_)
        if r is None:
            return None
        fn, ctx2 = r
        is_method = isinstance(call.func, ast.Attribute)
        b = _expandable(fn, call, is_method)
        if b is None:
            return None
        return fn, b, ctx2

    def stmt(self, st, ctx_, depth):
        """-> list of statements replacing st"""
        # recurse into compound statements first
        for fld in ("body", "orelse", "finalbody"):
            v = getattr(st, fld, None)
            if isinstance(v, list) and v and isinstance(v[0], ast.stmt):
                setattr(st, fld, self.block(v, ctx_, depth))
        for h in getattr(st, "handlers", []) or []:
            h.body = self.block(h.body, ctx_, depth)
        roots = []
        if isinstance(st, (ast.Assign, ast.AnnAssign, ast.AugAssign, ast.Expr, ast.Return, InlineReturn)):
            if getattr(st, "value", None) is not None:
                roots = [("value", st.value)]
        elif isinstance(st, ast.If):
            roots = [("test", st.test)]
        elif isinstance(st, ast.For):
            roots = [("iter", st.iter)]
        elif isinstance(st, ast.Raise) and st.exc is not None:
            roots = [("exc", st.exc)]
        out = []
        for fld, root in roots:
            calls = _unconditional_calls(root)
            for i, c in enumerate(calls):
                hit = self._try_call(c, ctx_, depth)
                if hit is None:
                    continue
                # everything evaluated before it must be free of effects
                earlier = calls[:i]
                if any(not (isinstance(x.func, ast.Name) and x.func.id in PURE_BUILTINS) for x in earlier):
                    continue
                fn, binding, ctx2 = hit
                pre, ret = self.splice(c, fn, binding, ctx2, depth, st)
                out += pre
                if root is c:
                    setattr(st, fld, ast.copy_location(ast.Name(ret, ast.Load()), c))
                else:
                    class Rep(ast.NodeTransformer):
                        def visit_Call(s, n):
                            if n is c:
                                return ast.copy_location(ast.Name(ret, ast.Load()), c)
                            return s.generic_visit(n)
                    setattr(st, fld, Rep().visit(root))
                # one helper per statement and pass; the rewritten statement is looked at again
                return out + self.stmt(st, ctx_, depth) if depth < self.max_depth else out + [st]
        return [st]

    def block(self, stmts, ctx_, depth):
        out = []
        for st in stmts:
            out += self.stmt(st, ctx_, depth)
        return out


def _desugar_suppress(func_node):
    """`with contextlib.suppress(E): body` is `try: body / except E: pass` -- for everything that reasons about handlers"""
    def is_suppress(item):
        c = item.context_expr
        return isinstance(c, ast.Call) and ((isinstance(c.func, ast.Attribute) and c.func.attr == "suppress") or (isinstance(c.func, ast.Name) and c.func.id == "suppress")) and item.optional_vars is None
    if not any(isinstance(n, ast.With) and len(n.items) == 1 and is_suppress(n.items[0]) for n in ast.walk(func_node)):
        return func_node
    new = copy.deepcopy(func_node)

    class T(ast.NodeTransformer):
        def visit_With(s, n):
            n = s.generic_visit(n)
            if len(n.items) == 1 and is_suppress(n.items[0]):
                excs = n.items[0].context_expr.args
                typ = excs[0] if len(excs) == 1 else ast.Tuple(list(excs), ast.Load())
                h = ast.ExceptHandler(typ if excs else None, None, [ast.copy_location(ast.Pass(), n)])
                return ast.copy_location(ast.Try(n.body, [ast.copy_location(h, n)], [], []), n)
            return n
    new = T().visit(new)
    ast.fix_missing_locations(new)
    return new


def expand_function(func_node, resolve, ctx0=None):
    """-> (node, names of the helpers expanded); node is func_node itself when nothing was expanded"""
    if not isinstance(func_node, ast.FunctionDef):
        return func_node, []
    plain = func_node
    func_node = _desugar_suppress(func_node)
    if func_node is not plain:
        EXPANDED[id(plain)] = func_node
        node2, used = _expand_function(func_node, resolve, ctx0)
        if node2 is not func_node:
            EXPANDED[id(plain)] = node2
        return node2, used + ["contextlib.suppress"]
    return _expand_function(func_node, resolve, ctx0)


def _expand_function(func_node, resolve, ctx0=None):
    if not isinstance(func_node, ast.FunctionDef):
        return func_node, []
    # cheap pre-check on the untouched tree
    probe = Expander(resolve)
    found = False
    for n in ast.walk(func_node):
        if isinstance(n, ast.Call) and probe._try_call(n, ctx0, 0) is not None:
            found = True
            break
    if not found:
        return func_node, []
    new = copy.deepcopy(func_node)
    ex = Expander(resolve)
    new.body = ex.block(new.body, ctx0, 0)
    if not ex.used:
        return func_node, []
    ast.fix_missing_locations(new)
    EXPANDED[id(func_node)] = new
    return new, ex.used


# text of the two statement kinds, for messages and text-based rules (ast.unparse does not know them)
def _unparse_block(self, n):
    self.fill("if True:  # body of %s, added since the review" % (n.helper,))
    with self.block():
        self.traverse(n.body)


def _unparse_jump(self, n):
    self.fill("pass  # jump to the end of the spliced helper")


ast._Unparser.visit_InlineBlock = _unparse_block
ast._Unparser.visit_InlineReturn = _unparse_jump
