"""Objects made at import time that nothing changed afterwards on the reviewed tree stay unchanged.

A module-level object (a registry, a streamer, a table: the value of a module-level assignment that is a call, a display or a
comprehension) is shared by every network, every caller and every call.  The reviewed tree's inventory (spec/mod/GLOBALS.json,
tools/mkglobals.py) lists which of them some function changes in place after import.  A function that now changes one of the
others -- through its name, through an imported name, or through a local alias of it -- makes state out of a constant: what one
caller registers, every other caller finds.  New module-level objects (a memo table added later) are not judged here."""
from __future__ import annotations

import ast
import json
import os

from .pm import AnalysisError

HERE = os.path.dirname(os.path.dirname(os.path.abspath(__file__)))
MUTATORS = {"append", "extend", "insert", "pop", "remove", "sort", "reverse", "clear", "update", "setdefault", "popitem", "add", "discard",
            "write", "appendleft", "popleft", "__setitem__", "__delitem__", "__setattr__"}


def _is_object_expr(v):
    if isinstance(v, (ast.Dict, ast.List, ast.Set, ast.ListComp, ast.DictComp, ast.SetComp)):
        return True
    if isinstance(v, ast.Call):
        t = ast.unparse(v.func)
        return t not in ("len", "int", "str", "bytes", "tuple", "frozenset", "float", "bool", "TypeVar", "namedtuple", "re.compile", "struct.Struct",
                         "os.getenv", "os.environ.get", "getattr", "max", "min", "sum", "h2b", "b2h", "range")
    return False


def module_objects(m):
    """names bound at module level to an object made at import time"""
    out = set()
    for name, vals in m.assigns.items():
        if any(_is_object_expr(v) for v in vals):
            out.add(name)
    return out


def mutating_methods(program):
    """method names of repo classes whose body (outside __init__ / __new__) stores to an attribute or item of self or changes one
    of self's containers in place: calling one changes the receiver"""
    key = "_mutating_methods"
    got = getattr(program, key, None)
    if got is not None:
        return got
    out = set()
    for q, f in program.functions.items():
        if f.cls is None or not isinstance(f.node, (ast.FunctionDef, ast.AsyncFunctionDef)) or f.node.name in ("__init__", "__new__"):
            continue
        a = f.node.args.args
        if not a:
            continue
        me = a[0].arg
        for n in ast.walk(f.node):
            base = None
            if isinstance(n, (ast.Attribute, ast.Subscript)) and isinstance(n.ctx, (ast.Store, ast.Del)):
                base = n.value
            elif isinstance(n, ast.Call) and isinstance(n.func, ast.Attribute) and n.func.attr in MUTATORS:
                base = n.func.value
            while isinstance(base, (ast.Attribute, ast.Subscript)):
                base = base.value
            if isinstance(base, ast.Name) and base.id == me:
                out.add(f.node.name)
                break
    setattr(program, key, out)
    return out


def _locals_of(fn):
    own = {a.arg for a in fn.args.args + fn.args.posonlyargs + fn.args.kwonlyargs}
    if fn.args.vararg:
        own.add(fn.args.vararg.arg)
    if fn.args.kwarg:
        own.add(fn.args.kwarg.arg)
    glob = {n for x in ast.walk(fn) if isinstance(x, ast.Global) for n in x.names}
    for x in ast.walk(fn):
        if isinstance(x, ast.Name) and isinstance(x.ctx, (ast.Store, ast.Del)) and x.id not in glob:
            own.add(x.id)
        elif isinstance(x, (ast.FunctionDef, ast.AsyncFunctionDef, ast.ClassDef)) and x is not fn:
            own.add(x.name)
    return own


def _global_target(program, m, name):
    """(module name, object name) a module-level name of m stands for, following `from x import NAME`"""
    seen = 0
    while seen < 6:
        seen += 1
        if name in m.assigns and name in module_objects(m):
            return (m.name, name)
        imp = m.imports.get(name)
        if imp and imp[0] == "name":
            try:
                m2 = program.modules.get(imp[1]) if hasattr(program, "modules") else None
            except Exception:
                m2 = None
            if m2 is None:
                return None
            m, name = m2, imp[2]
            continue
        return None
    return None


def function_writes(program, f):
    """[(node, (module, name), how)] in-place changes of module-level objects made by one function"""
    fn = f.node
    if not isinstance(fn, (ast.FunctionDef, ast.AsyncFunctionDef)):
        return []
    own = _locals_of(fn)
    p = f.parent
    while p is not None:                                  # names of enclosing functions are not module-level either
        if isinstance(p.node, (ast.FunctionDef, ast.AsyncFunctionDef)):
            own |= _locals_of(p.node)
        p = p.parent
    m = f.module
    alias = {}
    for st in ast.walk(fn):                               # local aliases: x = GLOBAL  /  x = GLOBAL if c else ..
        if isinstance(st, ast.Assign) and len(st.targets) == 1 and isinstance(st.targets[0], ast.Name):
            cands = [st.value] + ([st.value.body, st.value.orelse] if isinstance(st.value, ast.IfExp) else [])
            for v in cands:
                if isinstance(v, ast.Name) and v.id not in own:
                    t = _global_target(program, m, v.id)
                    if t is not None:
                        alias[st.targets[0].id] = t
    mm = mutating_methods(program)
    out = []

    def target_of(base):
        while isinstance(base, (ast.Subscript,)):
            base = base.value
        if isinstance(base, ast.Name):
            if base.id in alias:
                return alias[base.id]
            if base.id not in own:
                return _global_target(program, m, base.id)
        return None
    for n in ast.walk(fn):
        if isinstance(n, (ast.Attribute, ast.Subscript)) and isinstance(n.ctx, (ast.Store, ast.Del)):
            t = target_of(n.value)
            if t is not None:
                out.append((n, t, "store `%s`" % ast.unparse(n)[:50]))
        elif isinstance(n, ast.Call) and isinstance(n.func, ast.Attribute) and (n.func.attr in MUTATORS or n.func.attr in mm):
            t = target_of(n.func.value)
            if t is not None:
                out.append((n, t, "call `%s`" % ast.unparse(n)[:60]))
    return out


def inventory(program):
    objs, writes = {}, []
    for name, m in sorted(program.modules.items()):
        o = sorted(module_objects(m))
        if o:
            objs[name] = o
    for q, f in sorted(program.functions.items()):
        for _n, t, _how in function_writes(program, f):
            writes.append([q, "%s.%s" % t])
    return {"objects": objs, "writes": sorted(set(map(tuple, writes)))}


_INV = None


def reviewed():
    global _INV
    if _INV is None:
        path = os.path.join(HERE, "spec", "mod", "GLOBALS.json")
        if not os.path.exists(path):
            raise AnalysisError("spec/mod/GLOBALS.json is missing (tools/mkglobals.py)")
        d = json.load(open(path))
        _INV = ({(m, n) for m, ns in d["objects"].items() for n in ns}, {tuple(w) for w in d["writes"]}, {w[1] for w in d["writes"]})
    return _INV


def check(ctx, rels):
    objs, writes, written = reviewed()
    n = 0
    for rel in rels:
        try:
            m = ctx.p.module(rel)
        except AnalysisError:
            continue
        for q, f in sorted(ctx.p.functions.items()):
            if f.module is not m:
                continue
            for node, t, how in function_writes(ctx.p, f):
                n += 1
                full = "%s.%s" % t
                if t not in objs:
                    continue                      # an object added since the review: not judged here
                if (q, full) in writes or full in written:
                    continue                      # the reviewed tree changes this object after import as well
                ctx.bad("frozen-object-changed:%s" % full, "%s:%d" % (rel, getattr(node, "lineno", f.node.lineno)),
                        "%s changes the module-level object %s in place (%s); on the reviewed tree nothing changes it after import, so every network, caller and call shares one constant object -- now what one call puts there, every other user finds"
                        % (q, full, how))
    ctx.ok("frozen-objects", sample={"rule": "module-level objects unchanged after import on the reviewed tree stay unchanged", "sites_looked_at": n,
                                     "reviewed_objects": len(objs), "reviewed_runtime_writes": len(writes)}, nontrivial=False)


# ---------------------------------------------------------------------------------------------------------------------------
# one object handed out by several iterations / several calls

_FRESH_CALLS = ("list", "dict", "set", "bytearray", "collections.OrderedDict", "OrderedDict", "collections.defaultdict", "defaultdict", "collections.deque", "deque")
_COPY_ESCAPES = ("append", "add", "insert", "appendleft")


def _is_fresh_mutable(v):
    if isinstance(v, (ast.List, ast.Dict, ast.Set)):
        return True
    return isinstance(v, ast.Call) and ast.unparse(v.func) in _FRESH_CALLS and not v.args


def iteration_aliases(fn):
    """[(loop, name, escape node)]: a local bound to a new empty list / dict / set OUTSIDE a loop and never rebound inside it, that an
    iteration both fills in place and hands out as it is (appends it to another container, yields it, stores it): every iteration
    hands out the SAME object, so what an earlier iteration handed out keeps growing"""
    out = []
    if not isinstance(fn, (ast.FunctionDef, ast.AsyncFunctionDef)):
        return out
    inner_defs = [x for x in ast.walk(fn) if isinstance(x, (ast.FunctionDef, ast.AsyncFunctionDef, ast.Lambda)) and x is not fn]

    def own_nodes(root):
        skip = set()
        for d in inner_defs:
            if d is not root:
                skip |= {id(y) for y in ast.walk(d)} - {id(d)}
        return [n for n in ast.walk(root) if id(n) not in skip]
    nodes = own_nodes(fn)
    binds = {}
    for n in nodes:
        if isinstance(n, ast.Assign):
            for t in n.targets:
                for tt in (t.elts if isinstance(t, (ast.Tuple, ast.List)) else [t]):
                    if isinstance(tt, ast.Name):
                        binds.setdefault(tt.id, []).append(n)
        elif isinstance(n, (ast.AnnAssign, ast.AugAssign)) and isinstance(n.target, ast.Name) and (getattr(n, "value", None) is not None):
            binds.setdefault(n.target.id, []).append(n)
        elif isinstance(n, (ast.For, ast.comprehension)):
            for tt in ast.walk(n.target):
                if isinstance(tt, ast.Name):
                    binds.setdefault(tt.id, []).append(n)
        elif isinstance(n, ast.With):
            for it in n.items:
                if it.optional_vars is not None:
                    for tt in ast.walk(it.optional_vars):
                        if isinstance(tt, ast.Name):
                            binds.setdefault(tt.id, []).append(n)
    loops = [n for n in nodes if isinstance(n, (ast.For, ast.While))]
    for name, bs in binds.items():
        fresh = [b for b in bs if isinstance(b, (ast.Assign, ast.AnnAssign)) and b.value is not None and _is_fresh_mutable(b.value)]
        if not fresh or len(fresh) != len(bs):
            continue
        for L in loops:
            inside = {id(y) for st in L.body for y in ast.walk(st)}
            if any(id(b) in inside for b in bs):
                continue                      # rebound inside the loop: a new object per iteration
            filled, escape = False, None
            for y in (y for st in L.body for y in ast.walk(st)):
                if isinstance(y, ast.Call) and isinstance(y.func, ast.Attribute):
                    if isinstance(y.func.value, ast.Name) and y.func.value.id == name and y.func.attr in MUTATORS:
                        filled = True
                    if y.func.attr in _COPY_ESCAPES and any(isinstance(a, ast.Name) and a.id == name for a in y.args) and not (isinstance(y.func.value, ast.Name) and y.func.value.id == name):
                        escape = escape or y
                elif isinstance(y, ast.Subscript) and isinstance(y.ctx, ast.Store) and isinstance(y.value, ast.Name) and y.value.id == name:
                    filled = True
                elif isinstance(y, (ast.Yield,)) and isinstance(y.value, ast.Name) and y.value.id == name:
                    escape = escape or y
                elif isinstance(y, ast.Assign) and isinstance(y.value, ast.Name) and y.value.id == name and any(isinstance(t, (ast.Attribute, ast.Subscript)) for t in y.targets):
                    escape = escape or y
            if filled and escape is not None:
                out.append((L, name, escape))
    return out


def reused_buffers(fn, outer=None):
    """[(name, node)]: a byte stream the function did not create itself (a captured local of the enclosing function, a module-level
    object, an attribute of self) that it writes to and reads back with getvalue() without ever truncating it: the bytes of a
    longer earlier use stay behind the shorter later one"""
    if not isinstance(fn, (ast.FunctionDef, ast.AsyncFunctionDef)):
        return []
    own_streams, alias = set(), {}
    for n in ast.walk(fn):
        if isinstance(n, ast.Assign) and len(n.targets) == 1 and isinstance(n.targets[0], ast.Name):
            if isinstance(n.value, ast.Call) and ast.unparse(n.value.func).endswith("BytesIO"):
                own_streams.add(n.targets[0].id)
            elif isinstance(n.value, (ast.Name, ast.Attribute)):
                alias[n.targets[0].id] = ast.unparse(n.value)
    outer_streams = set()
    if outer is not None:
        for n in ast.walk(outer):
            if any(n is y for y in ast.walk(fn)):
                continue
            if isinstance(n, ast.Assign) and len(n.targets) == 1 and isinstance(n.targets[0], (ast.Name, ast.Attribute)) and isinstance(n.value, ast.Call) and ast.unparse(n.value.func).endswith("BytesIO"):
                outer_streams.add(ast.unparse(n.targets[0]))
    out = []
    reads, truncs = {}, set()
    for n in ast.walk(fn):
        if isinstance(n, ast.Call) and isinstance(n.func, ast.Attribute) and isinstance(n.func.value, (ast.Name, ast.Attribute)):
            r = ast.unparse(n.func.value)
            r = alias.get(r, r)
            if n.func.attr == "getvalue":
                reads.setdefault(r, n)
            elif n.func.attr == "truncate":
                truncs.add(r)
    for r, node in reads.items():
        if r.split(".")[0] in own_streams:
            continue
        if r in outer_streams and r not in truncs:
            out.append((r, node))
    return out


def check_aliases(ctx, rels):
    n = 0
    for rel in rels:
        try:
            m = ctx.p.module(rel)
        except AnalysisError:
            continue
        for q, f in sorted(ctx.p.functions.items()):
            if f.module is not m:
                continue
            n += 1
            for L, name, esc in iteration_aliases(f.node):
                ctx.bad("shared-accumulator:%s:%s" % (q.split(".", 1)[-1], name), "%s:%d" % (rel, esc.lineno),
                        "%s: `%s` is created once, outside the loop at line %d, and each iteration both fills it and hands it out (`%s`): every iteration hands out the same object, so the elements of earlier iterations show up in later ones"
                        % (q, name, L.lineno, ast.unparse(esc)[:60]))
            outer = f.parent.node if f.parent is not None else (f.cls.methods.get("__init__").node if f.cls is not None and f.cls.methods.get("__init__") is not None else None)
            for r, node in reused_buffers(f.node, outer):
                ctx.bad("reused-buffer:%s:%s" % (q.split(".", 1)[-1], r), "%s:%d" % (rel, node.lineno),
                        "%s reads `%s.getvalue()` from a stream that outlives the call and is never truncated: after a longer use the tail of the earlier bytes stays behind the shorter later ones" % (q, r))
            for node, t in class_level_stores(f.node, (f.cls.name,) if f.cls is not None else ()):
                ctx.bad("instance-value-on-class:%s" % q.split(".", 1)[-1], "%s:%d" % (rel, node.lineno),
                        "%s stores a value computed from the instance on the class (`%s = ...`): all instances share the slot, so every other instance (another network, another key) finds the value of the one that filled it first" % (q, t))
            if isinstance(f.node, (ast.FunctionDef, ast.AsyncFunctionDef)):
                adopting = ctx.cache.get("adopting-constructors")
                if adopting is None:
                    adopting = ctx.cache["adopting-constructors"] = adopting_constructors(ctx.p)
                for call, c, prm, arg in shared_tables_handed_to_constructors(ctx.p, f, adopting):
                    ctx.bad("shared-table-handed-to-constructor:%s:%s" % (q.split(".", 1)[-1], prm), "%s:%d" % (rel, call.lineno),
                            "%s creates a %s from `%s`, a table of a module-level object; %s.__init__ keeps that very object in self.%s and the class's methods write into it: every object made this way (one per network) and the module-level owner share one table, "
                            "and what one of them registers replaces the entries of all the others" % (q, c.name, arg, c.name, adopting[c.qualname][1][prm]))
            for prm, node in shared_default_memos(f.node):
                ctx.bad("default-argument-memo:%s:%s" % (q.split(".", 1)[-1], prm), "%s:%d" % (rel, node.lineno),
                        "%s fills AND consults its default argument `%s` (one object shared by every call and every receiver) while reading self: what one call remembered from one object's state is handed to later calls, for another object or after the state changed" % (q, prm))
            for node, t in tests_after_replace(f.node):
                ctx.bad("test-after-replace:%s" % q.split(".", 1)[-1], "%s:%d" % (rel, node.lineno),
                        "%s tests `%s` on a text from which that very string has just been replaced away: the test is always False, so what depends on it (restoring the original line ends, say) never happens" % (q, t))
            for node, t in charset_strips(f.node):
                ctx.bad("strip-is-a-character-set:%s" % q.split(".", 1)[-1], "%s:%d" % (rel, node.lineno),
                        "%s calls `%s`: the argument of strip / rstrip / lstrip is a SET of characters, not a suffix, so characters of the text itself that happen to be in the set are removed as well" % (q, t))
            for node, t in zero_replaced_by_default(f.node):
                ctx.bad("zero-is-a-value:%s" % q.split(".", 1)[-1], "%s:%d" % (rel, node.lineno),
                        "%s computes `%s` from an integer parameter: an explicitly given 0 is falsy and is replaced by the default, so the caller's value is not the one used" % (q, t))
            for node, t in native_struct_formats(f.node):
                ctx.bad("native-struct-format:%s" % q.split(".", 1)[-1], "%s:%d" % (rel, node.lineno),
                        "%s packs / unpacks with the struct format `%s`, which has no byte-order prefix: fields wider than a byte take the machine's byte order and are ALIGNED (padding bytes between a 1-byte and an 8-byte field), unlike the wire format" % (q, t))
        for cname, ci in sorted(m.classes.items()):
            try:
                found = stale_method_aliases(ctx.p, ci)
            except Exception:
                found = []
            for node_, value_eq in cached_methods(ctx.p, ci):
                if value_eq:
                    ctx.bad("cached-method:%s.%s" % (cname, node_.name), "%s:%d" % (rel, node_.lineno),
                            "%s.%s is memoised with the receiver as part of the key, and objects of %s compare BY VALUE (a tuple / value-equality class): two objects that compare equal but differ in what the method reads (other curve parameters, other state) share one entry, and the second gets the first one's result"
                            % (cname, node_.name, cname))
                else:
                    ctx.undecided("cached-method:%s.%s" % (cname, node_.name), "%s:%d" % (rel, node_.lineno), "%s.%s is memoised with the receiver as part of the key; whether the result depends on state that changes is not read here" % (cname, node_.name))
            for alias, meth, anc in found:
                ctx.bad("alias-of-overridden-method:%s.%s" % (cname, alias), "%s:%d" % (rel, ci.node.lineno),
                        "%s overrides %s() but inherits the class-level alias `%s = %s` of %s, which is bound to %s.%s: %s.%s() runs the ancestor's version, not the override" % (cname, meth, alias, meth, anc.name, anc.name, meth, cname, alias))
    ctx.ok("no-object-shared-between-iterations-or-calls", sample={"rule": "accumulators rebound per iteration; outliving streams truncated before reuse", "functions_looked_at": n}, nontrivial=False)


def _fresh_binds(fn):
    """name -> [(assign node, inside a loop?)] for bindings of a new empty list / dict / set; and the names filled in place inside a loop"""
    loops = [n for n in ast.walk(fn) if isinstance(n, (ast.For, ast.While))]
    in_loop = set()
    for L in loops:
        for st in L.body:
            in_loop |= {id(y) for y in ast.walk(st)}
    binds, other, filled = {}, set(), set()
    for n in ast.walk(fn):
        if isinstance(n, (ast.Assign, ast.AnnAssign)) and getattr(n, "value", None) is not None:
            tgts = n.targets if isinstance(n, ast.Assign) else [n.target]
            for t in tgts:
                if isinstance(t, ast.Name):
                    if _is_fresh_mutable(n.value):
                        binds.setdefault(t.id, []).append((n, id(n) in in_loop))
                    else:
                        other.add(t.id)
        if isinstance(n, ast.Call) and isinstance(n.func, ast.Attribute) and isinstance(n.func.value, ast.Name) and n.func.attr in MUTATORS and id(n) in in_loop:
            filled.add(n.func.value.id)
    return binds, other, filled


def hoisted_initialisations(code_fn, ref_fn):
    """names that the reviewed function binds to a new empty container INSIDE a loop (one per iteration) and the function now binds
    only once, outside every loop, while still filling them inside a loop: the container is no longer emptied between iterations"""
    if not isinstance(code_fn, (ast.FunctionDef, ast.AsyncFunctionDef)) or not isinstance(ref_fn, (ast.FunctionDef, ast.AsyncFunctionDef)):
        return []
    cb, co, cf = _fresh_binds(code_fn)
    rb, _ro, rf = _fresh_binds(ref_fn)
    out = []
    emptied = {n.func.value.id for n in ast.walk(code_fn) if isinstance(n, ast.Call) and isinstance(n.func, ast.Attribute) and n.func.attr == "clear" and isinstance(n.func.value, ast.Name)}
    emptied |= {t.value.id for n in ast.walk(code_fn) if isinstance(n, ast.Delete) for t in n.targets if isinstance(t, ast.Subscript) and isinstance(t.value, ast.Name)}
    for name, bs in cb.items():
        if name in co or name not in cf or any(inl for _n, inl in bs) or name in emptied:
            continue
        if name in rb and name in rf and any(inl for _n, inl in rb[name]):
            out.append((name, bs[0][0]))
    return out


_STRUCT_FUNCS = ("struct.pack", "struct.unpack", "struct.Struct", "struct.calcsize", "struct.pack_into", "struct.unpack_from", "struct.iter_unpack")
_ONE_BYTE = set("bBc?x")


def native_struct_formats(fn):
    """[(node, format text)]: a struct format without a byte-order prefix that is more than one single-byte item: it is laid out
    with the machine's byte order AND alignment (padding between fields), not with the wire format's"""
    out = []
    defs = {}
    for n in ast.walk(fn):
        if isinstance(n, ast.Assign) and len(n.targets) == 1 and isinstance(n.targets[0], ast.Name):
            defs.setdefault(n.targets[0].id, []).append(n.value)
    for n in ast.walk(fn):
        if not (isinstance(n, ast.Call) and ast.unparse(n.func) in _STRUCT_FUNCS and n.args):
            continue
        a = n.args[0]
        if isinstance(a, ast.Name) and len(defs.get(a.id, [])) == 1:
            a = defs[a.id][0]
        if isinstance(a, ast.Constant) and isinstance(a.value, (str, bytes)):
            t = a.value if isinstance(a.value, str) else a.value.decode("latin1")
            if t[:1] in "<>!=@" and t[:1] != "@":
                continue
            body = t.lstrip("@")
            items = [c for c in body if not c.isdigit() and not c.isspace()]
            if len(items) > 1 or any(c not in _ONE_BYTE for c in items):
                out.append((n, t))
        elif isinstance(a, ast.Call) and isinstance(a.func, ast.Attribute) and a.func.attr == "join" and isinstance(a.func.value, ast.Constant) and a.func.value.value in ("", b""):
            out.append((n, ast.unparse(a)[:60]))
    return out


def class_level_stores(fn, class_names=()):
    """[(node, target text)]: a method stores a value computed from the instance (`self....`) on the CLASS (`self.__class__.x = ..`,
    `type(self).x = ..`, `ClassName.x = ..`): every instance -- every network, every key -- then finds the value of whichever
    instance got there first"""
    out = []
    if not isinstance(fn, (ast.FunctionDef, ast.AsyncFunctionDef)) or not fn.args.args:
        return out
    me = fn.args.args[0].arg
    if me not in ("self",):
        return out
    for n in ast.walk(fn):
        tgts, val = [], None
        if isinstance(n, ast.Assign):
            tgts, val = n.targets, n.value
        elif isinstance(n, (ast.AugAssign, ast.AnnAssign)) and getattr(n, "value", None) is not None:
            tgts, val = [n.target], n.value
        for t in tgts:
            if not isinstance(t, (ast.Attribute, ast.Subscript)):
                continue
            base = t.value
            while isinstance(base, ast.Subscript):
                base = base.value
            if isinstance(t, ast.Subscript):
                if not isinstance(base, ast.Attribute):
                    continue
                base = base.value
            bt = ast.unparse(base)
            if bt in ("%s.__class__" % me, "type(%s)" % me) or bt in class_names:
                if any(isinstance(x, ast.Name) and x.id == me for x in ast.walk(val)):
                    out.append((n, ast.unparse(t)[:60]))
    return out


def resets_moved_before_loop(code_fn, ref_fn):
    """names N such that the reviewed function resets N to a constant AFTER a loop that assigns N and then accumulates into it
    (N |= .., N += ..), while the function now has that reset only BEFORE the loop: the accumulation starts from what the loop's
    last iteration left in N"""
    if not isinstance(code_fn, (ast.FunctionDef, ast.AsyncFunctionDef)) or not isinstance(ref_fn, (ast.FunctionDef, ast.AsyncFunctionDef)):
        return []

    def shape(fn):
        """name -> list of (position, kind) over the top-level statements: 'reset' (N = const), 'loop' (a loop assigning N), 'acc' (N op= ..)"""
        out = {}
        for pos, st in enumerate(fn.body):
            if isinstance(st, ast.Assign) and len(st.targets) == 1 and isinstance(st.targets[0], ast.Name) and isinstance(st.value, ast.Constant):
                out.setdefault(st.targets[0].id, []).append((pos, "reset"))
            elif isinstance(st, (ast.For, ast.While)):
                for n in ast.walk(st):
                    if isinstance(n, ast.Name) and isinstance(n.ctx, ast.Store):
                        out.setdefault(n.id, []).append((pos, "loop"))
            else:
                for n in ast.walk(st):
                    if isinstance(n, ast.AugAssign) and isinstance(n.target, ast.Name):
                        out.setdefault(n.target.id, []).append((pos, "acc"))
        return out
    cs, rs = shape(code_fn), shape(ref_fn)
    found = []
    for name, ev in rs.items():
        loops = [p for p, k in ev if k == "loop"]
        if not loops:
            continue
        last_loop = max(loops)
        if not any(k == "reset" and p > last_loop for p, k in ev) or not any(k == "acc" and p > last_loop for p, k in ev):
            continue
        cev = cs.get(name, [])
        cloops = [p for p, k in cev if k == "loop"]
        if not cloops:
            continue
        cl = max(cloops)
        if any(k == "acc" and p > cl for p, k in cev) and not any(k == "reset" and p > cl for p, k in cev) and any(k == "reset" and p < min(cloops) for p, k in cev):
            found.append(name)
    return found


def zero_replaced_by_default(fn):
    """[(node, text)]: `P or <default>` (or `<default> if not P else P`) on a parameter annotated as an integer: an explicit 0 -- a
    valid amount, fee, tweak, index -- is falsy and is silently replaced by the default"""
    out = []
    if not isinstance(fn, (ast.FunctionDef, ast.AsyncFunctionDef)):
        return out
    ann = {a.arg: ast.unparse(a.annotation) for a in fn.args.args + fn.args.kwonlyargs + fn.args.posonlyargs if a.annotation is not None}
    ints = {k for k, v in ann.items() if "int" in v.replace("bytes", "") and "bool" not in v}
    stored = {n.id for n in ast.walk(fn) if isinstance(n, ast.Name) and isinstance(n.ctx, ast.Store)}
    for n in ast.walk(fn):
        if isinstance(n, ast.BoolOp) and isinstance(n.op, ast.Or) and isinstance(n.values[0], ast.Name) and n.values[0].id in ints and n.values[0].id not in stored:
            rest = n.values[1:]
            if all(isinstance(r, ast.Constant) and r.value in (0, None, False) for r in rest):
                continue
            out.append((n, ast.unparse(n)[:60]))
        elif isinstance(n, ast.IfExp) and isinstance(n.test, ast.UnaryOp) and isinstance(n.test.op, ast.Not) and isinstance(n.test.operand, ast.Name) and n.test.operand.id in ints \
                and isinstance(n.orelse, ast.Name) and n.orelse.id == n.test.operand.id and not (isinstance(n.body, ast.Constant) and n.body.value in (0, None)):
            out.append((n, ast.unparse(n)[:60]))
    return out


def stale_method_aliases(program, cls):
    """[(alias, method, ancestor)]: an ancestor binds a class-level alias `alias = method` (bound, at class creation, to the ANCESTOR's
    function); the class overrides `method` and does not re-bind the alias, so `obj.alias()` still runs the ancestor's version"""
    out = []
    for anc in program.mro(cls)[1:]:
        for alias, v in anc.attrs.items():
            if isinstance(v, ast.Name) and v.id in anc.methods and v.id in cls.methods and alias not in cls.attrs and alias not in cls.methods:
                # an intermediate class may have re-bound it
                mid = [k for k in program.mro(cls)[1:program.mro(cls).index(anc)] if alias in k.attrs or alias in k.methods]
                if not mid:
                    out.append((alias, v.id, anc))
    return out


def charset_strips(fn):
    """[(node, text)]: `s.rstrip("xyz")` / lstrip / strip with a constant of several DIFFERENT characters, or with a name bound to
    such a constant: the argument is a set of characters, not a suffix -- `"0/1p.pub".rstrip(".pub")` is `"0/1"`"""
    out = []
    consts = {}
    for n in ast.walk(fn):
        if isinstance(n, ast.Assign) and len(n.targets) == 1 and isinstance(n.targets[0], ast.Name) and isinstance(n.value, ast.Constant) and isinstance(n.value.value, (str, bytes)):
            consts.setdefault(n.targets[0].id, []).append(n.value.value)
    for n in ast.walk(fn):
        if isinstance(n, ast.Call) and isinstance(n.func, ast.Attribute) and n.func.attr in ("rstrip", "lstrip", "strip") and len(n.args) == 1:
            a = n.args[0]
            vals = [a.value] if isinstance(a, ast.Constant) and isinstance(a.value, (str, bytes)) else (consts.get(a.id, []) if isinstance(a, ast.Name) else [])
            for v in vals:
                if len(v) > 1 and len(set(v)) > 1 and any((chr(c) if isinstance(c, int) else c).isalnum() for c in v):
                    out.append((n, ast.unparse(n)[:60]))
                    break
    return out


def cached_methods(program, cls):
    """[(method node, why)]: lru_cache / cache on an INSTANCE method: the receiver is part of the key by ITS equality, and the entry
    outlives the object.  Where objects of the class compare by value (a tuple / str / int subclass, a class with __eq__) two objects
    that compare equal but differ in what the method reads share one entry."""
    out = []
    value_eq = None
    for m in cls.methods.values():
        n = m.node
        if not isinstance(n, (ast.FunctionDef, ast.AsyncFunctionDef)) or not n.args.args or n.args.args[0].arg != "self":
            continue
        decs = [ast.unparse(d.func if isinstance(d, ast.Call) else d).split(".")[-1] for d in n.decorator_list]
        if not any(d in ("lru_cache", "cache", "memoize", "memoized", "cached") for d in decs):
            continue
        if value_eq is None:
            mro = program.mro(cls)
            value_eq = any("__eq__" in k.methods for k in mro) or any(b.split("[")[0].split(".")[-1] in ("tuple", "str", "int", "bytes", "frozenset", "Tuple", "NamedTuple") for k in mro for b in k.ext_bases)
        out.append((n, value_eq))
    return out


def tests_after_replace(fn):
    """[(node, text)]: `S in T` where T is (a name bound once to) `X.replace(S, R)` and S does not occur in R: the test is made on the
    text from which S has just been removed, so it is always False (the flag it sets never fires)"""
    out = []
    defs = {}
    for n in ast.walk(fn):
        if isinstance(n, ast.Assign) and len(n.targets) == 1 and isinstance(n.targets[0], ast.Name):
            defs.setdefault(n.targets[0].id, []).append(n.value)
    for n in ast.walk(fn):
        if isinstance(n, ast.Compare) and len(n.ops) == 1 and isinstance(n.ops[0], (ast.In, ast.NotIn)) and isinstance(n.left, ast.Constant) and isinstance(n.left.value, (str, bytes)):
            t = n.comparators[0]
            if isinstance(t, ast.Name) and len(defs.get(t.id, [])) == 1:
                d_ = defs[t.id][0]
                params_ = {a.arg for a in fn.args.args + fn.args.kwonlyargs + fn.args.posonlyargs} if isinstance(fn, (ast.FunctionDef, ast.AsyncFunctionDef)) else set()
                # the binding must come BEFORE the test and be unconditional (a parameter re-bound later, or under an `if`, still
                # holds the original text where it is tested)
                if t.id in params_ or getattr(d_, "lineno", 10 ** 9) >= n.lineno or not any(isinstance(st, ast.Assign) and st.value is d_ for st in fn.body):
                    continue
                t = d_
            if isinstance(t, ast.Call) and isinstance(t.func, ast.Attribute) and t.func.attr == "replace" and len(t.args) >= 2 and all(isinstance(a, ast.Constant) for a in t.args[:2]):
                s_, r_ = t.args[0].value, t.args[1].value
                if s_ == n.left.value and type(s_) is type(r_) and s_ not in r_:
                    out.append((n, ast.unparse(n)[:60]))
    return out


def shared_default_memos(fn):
    """[(parameter, node)]: a parameter whose DEFAULT is a dict / list / set display (one object for every call and every receiver)
    that the function both fills and consults, in a method that reads `self`: what one call computed from one object's state is
    served to the next call, whatever object and whatever state it comes with"""
    out = []
    if not isinstance(fn, (ast.FunctionDef, ast.AsyncFunctionDef)):
        return out
    a = fn.args
    pos = a.posonlyargs + a.args
    defaults = dict(zip([x.arg for x in pos[len(pos) - len(a.defaults):]], a.defaults))
    defaults.update({x.arg: d for x, d in zip(a.kwonlyargs, a.kw_defaults) if d is not None})
    uses_self = any(isinstance(n, ast.Name) and n.id == "self" for n in ast.walk(fn))
    for p, d in defaults.items():
        if not isinstance(d, (ast.Dict, ast.List, ast.Set)) and not (isinstance(d, ast.Call) and ast.unparse(d.func) in _FRESH_CALLS):
            continue
        reads = writes = None
        for n in ast.walk(fn):
            if isinstance(n, ast.Subscript) and isinstance(n.value, ast.Name) and n.value.id == p:
                if isinstance(n.ctx, ast.Load):
                    reads = reads or n
                else:
                    writes = writes or n
            elif isinstance(n, ast.Call) and isinstance(n.func, ast.Attribute) and isinstance(n.func.value, ast.Name) and n.func.value.id == p:
                if n.func.attr in ("get", "__getitem__", "__contains__", "index", "count"):
                    reads = reads or n
                elif n.func.attr in MUTATORS:
                    writes = writes or n
            elif isinstance(n, ast.Compare) and any(isinstance(o, (ast.In, ast.NotIn)) for o in n.ops) and any(isinstance(c, ast.Name) and c.id == p for c in n.comparators):
                reads = reads or n
        if reads is not None and writes is not None and uses_self:
            out.append((p, reads))
    return out


def _self_reads(fn):
    return {n.attr for n in ast.walk(fn) if isinstance(n, ast.Attribute) and isinstance(n.value, ast.Name) and n.value.id == "self" and isinstance(n.ctx, ast.Load)}


def forsaken_public_attributes(fn, ref_fn, cls):
    """[(public attribute, derived attribute)]: a method that used to read the PUBLIC attribute self.A (anyone may re-assign it) and
    now reads instead an attribute the constructor derives from A's value once, while other methods of the class still read A: two
    sources of truth, and re-assigning A moves only one of them"""
    out = []
    if ref_fn is None or cls is None or not isinstance(fn, ast.FunctionDef) or fn.name == "__init__":
        return out
    now, before = _self_reads(fn), _self_reads(ref_fn)
    dropped = sorted(a for a in before - now if not a.startswith("_"))
    added = sorted(now - before)
    if not dropped or not added:
        return out
    init = cls.methods.get("__init__")
    if init is None:
        return out
    stores = {}         # attribute -> value expression, constructor's top-level `self.X = <expr>`
    for st in ast.walk(init.node):
        if isinstance(st, (ast.Assign, ast.AnnAssign)):
            tg = st.targets[0] if isinstance(st, ast.Assign) else st.target
            if isinstance(tg, ast.Attribute) and isinstance(tg.value, ast.Name) and tg.value.id == "self" and st.value is not None:
                stores[tg.attr] = st.value
    others = set()
    for nm, m in cls.methods.items():
        if nm not in ("__init__", fn.name):
            others |= _self_reads(m.node)
    for a in dropped:
        if a not in stores or a not in others:
            continue
        src = {n.id for n in ast.walk(stores[a]) if isinstance(n, ast.Name)}
        for d in added:
            if d in stores and any((isinstance(n, ast.Name) and n.id in src and n.id != "self") or
                                   (isinstance(n, ast.Attribute) and isinstance(n.value, ast.Name) and n.value.id == "self" and n.attr == a) for n in ast.walk(stores[d])):
                out.append((a, d))
                break
    return out


_FLOAT_CALLS = {"math.log", "math.log2", "math.log10", "math.sqrt", "math.pow", "math.exp", "math.log1p", "float", "math.fsum", "math.hypot", "math.cbrt"}


def float_ops(fn):
    """{spelling: node}: operations that take an integer into floating point (53 bits of mantissa): math.log2(x), math.sqrt(x),
    float(x), x ** 0.5, x / y.  Exact for small values, rounded for the 256-bit values this library computes with"""
    out = {}
    if fn is None:
        return out
    for n in ast.walk(fn):
        if isinstance(n, ast.Call) and ast.unparse(n.func) in _FLOAT_CALLS and n.args and not all(isinstance(a, ast.Constant) for a in n.args):
            out.setdefault(ast.unparse(n.func), n)
        elif isinstance(n, ast.BinOp) and isinstance(n.op, ast.Pow) and isinstance(n.right, ast.Constant) and isinstance(n.right.value, float):
            out.setdefault("** %r" % n.right.value, n)
        elif isinstance(n, ast.BinOp) and isinstance(n.op, ast.Div) and not (isinstance(n.left, ast.Constant) and isinstance(n.right, ast.Constant)):
            out.setdefault("/", n)
    return out


def adopting_constructors(program):
    """{class qualname: {parameter: attribute}}: constructors that keep a parameter AS GIVEN in an attribute (self.x = p, or
    `{} if p is None else p`) of a class with a method that changes that attribute in place -- the object writes into whatever
    its creator handed it"""
    out = {}
    for q, c in program.classes.items():
        init = c.methods.get("__init__")
        if init is None:
            continue
        params = set(init.params()[1:])
        kept = {}
        for st in ast.walk(init.node):
            if isinstance(st, (ast.Assign, ast.AnnAssign)):
                tg = st.targets[0] if isinstance(st, ast.Assign) else st.target
                v = st.value
                if v is None or not (isinstance(tg, ast.Attribute) and isinstance(tg.value, ast.Name) and tg.value.id == "self"):
                    continue
                cands = [v] + ([v.body, v.orelse] if isinstance(v, ast.IfExp) else []) + (list(v.values) if isinstance(v, ast.BoolOp) else [])
                for x in cands:
                    if isinstance(x, ast.Name) and x.id in params:
                        kept[x.id] = tg.attr
        if not kept:
            continue
        mutated = set()
        for nm, m in c.methods.items():
            if nm == "__init__":
                continue
            for n in ast.walk(m.node):
                if isinstance(n, ast.Subscript) and isinstance(n.ctx, (ast.Store, ast.Del)) and isinstance(n.value, ast.Attribute) and isinstance(n.value.value, ast.Name) and n.value.value.id == "self":
                    mutated.add(n.value.attr)
                elif isinstance(n, ast.Call) and isinstance(n.func, ast.Attribute) and n.func.attr in MUTATORS and isinstance(n.func.value, ast.Attribute) and isinstance(n.func.value.value, ast.Name) \
                        and n.func.value.value.id == "self":
                    mutated.add(n.func.value.attr)
        kept = {p: a for p, a in kept.items() if a in mutated}
        if kept:
            out[q] = (c, kept)
    return out


def shared_tables_handed_to_constructors(program, f, adopting):
    """[(call, class, parameter, argument text)]: in function f, a constructor of an adopting class is given an attribute of a
    MODULE-LEVEL object (or a module-level table itself) for a parameter it keeps and later writes into"""
    out = []
    if not adopting:
        return out
    byname = {}
    for q, (c, kept) in adopting.items():
        byname.setdefault(c.name, []).append((c, kept))
    locals_ = set(f.params()) | {n.id for n in ast.walk(f.node) if isinstance(n, ast.Name) and isinstance(n.ctx, ast.Store)}
    for n in ast.walk(f.node):
        if not (isinstance(n, ast.Call) and isinstance(n.func, (ast.Name, ast.Attribute))):
            continue
        cname = n.func.id if isinstance(n.func, ast.Name) else n.func.attr
        for c, kept in byname.get(cname, []):
            params = c.methods["__init__"].params()[1:]
            bound = dict(zip(params, n.args))
            bound.update({k.arg: k.value for k in n.keywords if k.arg})
            for p, a in kept.items():
                arg = bound.get(p)
                if arg is None:
                    continue
                root = arg
                while isinstance(root, (ast.Attribute, ast.Subscript)):
                    root = root.value
                if isinstance(root, ast.Name) and root.id not in locals_ and root.id not in ("self", "cls") and (root.id in f.module.assigns or root.id in f.module.imports) and not isinstance(arg, ast.Call):
                    out.append((n, c, p, ast.unparse(arg)))
    return out


def _method_calls(fn):
    return {n.func.attr for n in ast.walk(fn) if isinstance(n, ast.Call) and isinstance(n.func, ast.Attribute)}


def bypassed_overrides(program, fn, ref_fn, is_reviewed):
    """[(old method, new method, base class, subclass)]: a function that used to call x.M(..) and now calls x.N(..) instead, where N
    is a method added since the review to a class B that also defines M, and a subclass S of B overrides M but not N: for objects
    of S the call no longer reaches S's version of the behaviour (the override and its base have drifted apart)"""
    out = []
    if ref_fn is None:
        return out
    before, now = _method_calls(ref_fn), _method_calls(fn)
    dropped, added = before - now, now - before
    if not dropped or not added:
        return out
    # what the function still reaches through the methods it newly calls (two levels): a call moved into a helper is not dropped
    via_new = set()
    frontier = set(added)
    for _hop in range(3):
        nxt = set()
        for c_ in program.classes.values():
            for nm_ in frontier & set(c_.methods):
                calls_ = _method_calls(c_.methods[nm_].node)
                via_new |= calls_
                nxt |= calls_
        for f_ in program.functions.values():
            if getattr(f_, "name", None) in frontier and f_.cls is None and isinstance(f_.node, (ast.FunctionDef, ast.AsyncFunctionDef)):
                via_new |= _method_calls(f_.node)
        frontier = nxt - via_new if _hop else nxt
    dropped = dropped - via_new
    if not dropped:
        return out
    recv = lambda f_, name: {ast.unparse(n.func.value) for n in ast.walk(f_) if isinstance(n, ast.Call) and isinstance(n.func, ast.Attribute) and n.func.attr == name}
    for c in program.classes.values():
        for N in sorted(added & set(c.methods)):
            if is_reviewed(c.methods[N]):
                continue
            for M in sorted(dropped & set(c.methods)):
                # the same receiver is asked N where it was asked M, and N does not itself go through M
                if not (recv(ref_fn, M) & recv(fn, N)) or M in _method_calls(c.methods[N].node):
                    continue
                for S in program.subclasses(c):
                    if M in S.methods and N not in S.methods and not any(N in k.methods for k in program.mro(S) if k is not c and c in program.mro(k)):
                        out.append((M, N, c, S))
    return out
