"""Refutation of an alleged difference between two canonical expressions.

The comparison of canonical forms (sa/sym.py) proves many spellings equal; when two components are still different texts and
the difference is a handful of leaf tokens, that is a *candidate* for "computes something else" -- but `n > 20` / `n >= 21`,
`x & M != M` / `x & M == 0` for a one-bit M, `(55 - n) % 64` / `(119 - n) % 64`, `min(a, b)` / `min(b, a)`, `1 if not c else 0` /
`0 if c else 1` are the same function of their operands.  A verdict needs a WITNESS: a valuation of the operands (the maximal
sub-terms the two expressions share -- names, attributes, calls, subscripts -- taken as independent unknowns) under which the
two expressions evaluate to different values, and under which the path conditions of both components are not false.

The search is a finite enumeration over a small domain per operand: 0..3, the constants occurring in the expressions and their
neighbours, a few powers of two; only non-negative integers unless a negative constant occurs (quantities here are lengths,
counts, indices, amounts, bit masks; a difference that shows only for a negative operand is left undecided), and every
non-integer constant the operand is compared with.  Terms known to be bounded are bounded: len(..) >= 0, x % m in [0, m).

  refute(...) -> True   a witness exists: the two expressions differ (for operands that can take those values)
              -> False  no witness in the domain: no verdict (the caller reports UNDECIDED, never `same`)
              -> None   the difference is not of a kind this module reads (no verdict either)
"""
from __future__ import annotations

import ast
import itertools
import re

PURE = (ast.BinOp, ast.UnaryOp, ast.BoolOp, ast.Compare, ast.IfExp, ast.Constant)
PURE_CALLS = {"min", "max", "abs", "int", "bool", "truthy", "bit", "divmod", "len_"}
MAX_TERMS = 4
MAX_EVALS = 120000


def _clean(text):
    t = re.sub(r"#\d+", "", text)
    t = re.sub(r",? ?__n=\d+", "", t)
    t = t.replace("any{", "any_(").replace("all{", "all_(").replace("}", ")")
    return t


def parse_expr(text):
    try:
        return ast.parse(_clean(text), mode="eval").body
    except Exception:
        return None


_HEAD = re.compile(r"^((?:loop\d+ )?(?:for .+? in |while |[A-Za-z_]\w* := |[A-Za-z_]\w* starts as |return |raise |call |yield |default \w+ = )?)(.*?)((?: in loop\d+)?(?: after .*)?)$", re.S)


def split_head(text):
    """(prefix, [expression texts], suffix) of a component head; a store `T = V` gives two expressions"""
    m = _HEAD.match(text)
    if not m:
        return None
    pre, body, suf = m.group(1), m.group(2), m.group(3)
    if parse_expr(body) is not None:
        return pre, [body], suf
    # a store: target = value (split at the first top-level ` = `)
    depth = 0
    for i, ch in enumerate(body):
        if ch in "([{":
            depth += 1
        elif ch in ")]}":
            depth -= 1
        elif depth == 0 and body.startswith(" = ", i):
            l, r = body[:i], body[i + 3:]
            if parse_expr(l) is not None and parse_expr(r) is not None:
                return pre, [l, r], suf
            break
    return None


def _is_pure(n):
    if isinstance(n, PURE):
        return True
    if isinstance(n, ast.Call) and isinstance(n.func, ast.Name) and n.func.id in PURE_CALLS and not n.keywords:
        return True
    return False


def _dump(n):
    return ast.dump(n) if isinstance(n, ast.AST) else repr(n)


class Unreadable(Exception):
    pass


def _units(a, b, in_slice=False):
    """pairs of sub-expressions that differ, each the largest scalar-valued (arithmetic / comparison / boolean) sub-tree around
    a difference; raises Unreadable for a difference in structure this module does not read"""
    if _dump(a) == _dump(b):
        return []
    if isinstance(a, ast.Slice) and isinstance(b, ast.Slice):
        out = []
        for x, y in ((a.lower, b.lower), (a.upper, b.upper), (a.step, b.step)):
            if (x is None) != (y is None):
                raise Unreadable("slice bound added or removed")
            if x is not None:
                out += _units(x, y, True)
        return out
    if isinstance(a, ast.Call) and isinstance(b, ast.Call) and not _is_pure(a) and not _is_pure(b) and _dump(a.func) != _dump(b.func):
        # two different callees: one may be defined through the other (an accessor inlined, a helper renamed); not read here
        raise Unreadable("different callees")
    if _is_pure(a) and _is_pure(b) and type(a) is type(b) and not isinstance(a, ast.Constant):
        # the same arithmetic around differences that all sit inside non-scalar operands (the arguments of a call, an index):
        # such an operand separates what is inside it from what is around it; the differences are judged inside
        ca, cb = list(ast.iter_child_nodes(a)), list(ast.iter_child_nodes(b))
        if len(ca) == len(cb) and all(type(x) is type(y) for x, y in zip(ca, cb)):
            differing = [(x, y) for x, y in zip(ca, cb) if _dump(x) != _dump(y)]
            if differing and all(isinstance(x, (ast.Call, ast.Subscript)) and not _is_pure(x) and not _is_pure(y) for x, y in differing):
                out = []
                for x, y in differing:
                    out += _units(x, y, in_slice)
                return out
    if _is_pure(a) or _is_pure(b) or isinstance(a, (ast.Name, ast.Attribute)) and isinstance(b, (ast.Name, ast.Attribute)):
        if in_slice:
            # a negative bound counts from the end: its relation to a non-negative one depends on the length of the base
            for side in (a, b):
                if any(isinstance(x, ast.UnaryOp) and isinstance(x.op, ast.USub) or (isinstance(x, ast.Constant) and isinstance(x.value, int) and x.value < 0) for x in ast.walk(side)):
                    raise Unreadable("negative slice bound")
        return [(a, b)]
    if type(a) is not type(b):
        raise Unreadable("different kinds of expression")
    if isinstance(a, ast.Call):
        if len(a.args) != len(b.args) or [k.arg for k in a.keywords] != [k.arg for k in b.keywords]:
            raise Unreadable("different call shape")
        out = _units(a.func, b.func)
        for x, y in zip(a.args, b.args):
            out += _units(x, y)
        for x, y in zip(a.keywords, b.keywords):
            out += _units(x.value, y.value)
        return out
    if isinstance(a, ast.Subscript):
        return _units(a.value, b.value) + _units(a.slice, b.slice, True)
    if isinstance(a, ast.Attribute):
        if a.attr != b.attr:
            return [(a, b)]
        return _units(a.value, b.value)
    if isinstance(a, (ast.Tuple, ast.List, ast.Set)):
        if len(a.elts) != len(b.elts):
            raise Unreadable("different number of elements")
        out = []
        for x, y in zip(a.elts, b.elts):
            out += _units(x, y)
        return out
    if isinstance(a, ast.Starred):
        return _units(a.value, b.value)
    raise Unreadable(type(a).__name__)


class _Abstract(ast.NodeTransformer):
    """replace maximal non-scalar sub-terms by variables t0, t1, ... (same text, same variable)"""

    def __init__(self, table):
        self.table = table

    def visit(self, n):
        if isinstance(n, (ast.expr_context, ast.operator, ast.cmpop, ast.boolop, ast.unaryop)):
            return n
        if isinstance(n, ast.Constant):
            return n
        if isinstance(n, ast.Call) and isinstance(n.func, ast.Name) and n.func.id in PURE_CALLS and not n.keywords:
            n.args = [self.visit(x) for x in n.args]
            return n
        if isinstance(n, (ast.BinOp, ast.UnaryOp, ast.BoolOp, ast.Compare, ast.IfExp)):
            return self.generic_visit(n)
        if isinstance(n, (ast.Tuple, ast.List)) and all(isinstance(x, ast.Constant) for x in n.elts):
            return n
        key = ast.unparse(n)
        if key not in self.table:
            self.table[key] = "t%d" % len(self.table)
        return ast.copy_location(ast.Name(self.table[key], ast.Load()), n)


def _bitwise_terms(n, table_inv):
    """unknowns used as a bit MASK: the right operand of `&` when the left one is not a constant (`x & m`; in `c & x` the unknown
    is the value being masked and takes any value)"""
    out = set()
    for x in ast.walk(n):
        if isinstance(x, ast.BinOp) and isinstance(x.op, ast.BitAnd) and isinstance(x.right, ast.Name) and x.right.id in table_inv and not isinstance(x.left, ast.Constant):
            out.add(x.right.id)
    return out


def _op_exchange_unreadable(a, b):
    """`|`, `^` and `+` agree exactly when the operands' bits do not overlap: a fact about ranges this module does not track"""
    if isinstance(a, ast.BinOp) and isinstance(b, ast.BinOp) and type(a.op) is not type(b.op):
        if {type(a.op), type(b.op)} <= {ast.BitOr, ast.BitXor, ast.Add}:
            return True
    for x, y in zip(ast.iter_child_nodes(a), ast.iter_child_nodes(b)):
        if type(x) is type(y) and _op_exchange_unreadable(x, y):
            return True
    return False


def _consts(n):
    return [x.value for x in ast.walk(n) if isinstance(x, ast.Constant)]


def _domain(consts, term_text):
    ints = sorted({c for c in consts if isinstance(c, int) and not isinstance(c, bool)})
    dom = {0, 1, 2, 3}
    for c in ints:
        if c >= 0:
            dom |= {c, c + 1}
            if c >= 1:
                dom.add(c - 1)
        else:
            dom.add(c)
    for c in ints:
        if 0 < c < (1 << 64) and bin(c).count("1") <= 6:
            bits = [1 << k for k in range(c.bit_length()) if (c >> k) & 1]
            dom |= set(bits)        # the single bits of a mask
            dom |= {x | y for x in bits[:4] for y in bits[:4]}      # and pairs of them
    if any(c >= 128 for c in ints):
        dom |= {255, 256}
    if any(c >= 1 << 30 for c in ints):
        dom |= {(1 << 31) - 1, 1 << 31, (1 << 32) - 1, 1 << 32}
    out = sorted(dom)
    lo = None
    if term_text.startswith("len(") or term_text.endswith(".bit_length()") or term_text.startswith(("ord(", "abs(")):
        lo = 0
    if re.search(r"\.(find|rfind)\(", term_text):
        lo = -1
    if lo is not None:
        out = [v for v in out if v >= lo]
    # one byte: ord() of a one-element slice / an element of a byte string read by a constant index
    if re.fullmatch(r"ord\(.*\[[^\]]*\]\)", term_text):
        out = [v for v in out if v <= 255]
    # an element read by a constant index, compared only with byte-sized constants (128, 0x7f, 0xff ...): an element of a byte
    # string -- a difference that needs a value above 255 there is no witness (the domain only ever withholds verdicts)
    if re.fullmatch(r".*\[-?\d+\]", term_text) and not term_text.startswith("len(") and ints and all(-256 <= c <= 256 for c in ints):
        out = [v for v in out if 0 <= v <= 255]
    out = out[:18] if len(out) > 18 else out
    other = []
    for c in consts:
        if not isinstance(c, int) or isinstance(c, bool):
            if c not in other:
                other.append(c)
    return out + other[:4]


def _links(terms):
    """[(var of T, var of len(T))]: the truth of a sized thing and its length go together"""
    by_text = {t: v for t, v in terms}
    out = []
    for t, v in terms:
        if t.startswith("len(") and t.endswith(")") and t[4:-1] in by_text:
            out.append((by_text[t[4:-1]], v))
    return out


def _consistent(env, links):
    for vt, vl in links:
        try:
            if env[vt] is None or bool(env[vt]) != (env[vl] > 0):
                return False
        except Exception:
            return False
    return True


_ENV = {"min": min, "max": max, "abs": abs, "int": int, "bool": bool, "truthy": bool, "divmod": divmod,
        "bit": lambda v, k: bool((v >> k) & 1), "__builtins__": {}}


def _compile(n):
    e = ast.Expression(n)
    ast.fix_missing_locations(e)
    return compile(e, "<refute>", "eval")


def _kleene(f, val_of_atom):
    """three-valued value of a condition formula: atoms this module cannot evaluate are unknown (None)"""
    if f is True or f is False:
        return f
    tag = f[0]
    if tag == "op":
        return val_of_atom(f[1])
    if tag == "not":
        v = _kleene(f[1], val_of_atom)
        return None if v is None else (not v)
    if tag in ("and", "or"):
        vals = [_kleene(x, val_of_atom) for x in f[1]]
        if tag == "and":
            if any(v is False for v in vals):
                return False
            return True if all(v is True for v in vals) else None
        if any(v is True for v in vals):
            return True
        return False if all(v is False for v in vals) else None
    return None


def _atoms(f, out):
    if f in (True, False):
        return
    if f[0] == "op":
        if isinstance(f[1], str):
            out.add(f[1])
    elif f[0] == "not":
        _atoms(f[1], out)
    elif f[0] in ("and", "or"):
        for x in f[1]:
            _atoms(x, out)


def refute_exprs(pairs, conds=()):
    """pairs: [(ref expr AST, code expr AST)] evaluated together; conds: formulas that must not be false under the witness"""
    table = {}
    try:
        units = []
        for a, b in pairs:
            units += _units(a, b)
    except Unreadable:
        return None
    if not units:
        return False
    # distinct plain things at the same place (two names, two attributes, a name and a constant) outside any arithmetic:
    # independent unknowns, a witness is immediate
    import copy
    abstract = _Abstract(table)
    cu = []
    consts = []
    for a, b in units:
        if _op_exchange_unreadable(a, b):
            return None
        consts += _consts(a) + _consts(b)
        cu.append((abstract.visit(copy.deepcopy(a)), abstract.visit(copy.deepcopy(b))))
    inv = {v: k for k, v in table.items()}
    for a, b in cu:
        na = {x.id for x in ast.walk(a) if isinstance(x, ast.Name) and x.id in inv}
        nb = {x.id for x in ast.walk(b) if isinstance(x, ast.Name) and x.id in inv}
        only_a = [inv[v] for v in na - nb if inv[v].endswith(")")]
        only_b = [inv[v] for v in nb - na if inv[v].endswith(")")]
        if only_a and only_b:
            return None     # a call on one side, another call on the other: one may be defined through the other (an accessor inlined)
    masks = set()
    for a, b in cu:
        masks |= _bitwise_terms(a, inv) | _bitwise_terms(b, inv)
    # atoms of the conditions that speak about the same terms
    atom_texts = set()
    for f in conds:
        _atoms(f, atom_texts)
    atom_code = {}
    for t in atom_texts:
        e = parse_expr(t)
        if e is None:
            continue
        tb = dict(table)
        ab = _Abstract(tb)
        try:
            e2 = ab.visit(copy.deepcopy(e))
        except Exception:
            continue
        if len(tb) != len(table):
            continue        # speaks about something else as well: unknown
        consts += _consts(e)
        try:
            atom_code[t] = _compile(e2)
        except Exception:
            continue
    terms = sorted(table.items(), key=lambda kv: kv[1])
    if len(terms) > MAX_TERMS:
        return None
    try:
        codes = [(_compile(a), _compile(b)) for a, b in cu]
    except Exception:
        return None
    doms = [_domain(consts, text) for text, _v in terms]
    spoken = " ; ".join(list(atom_texts) + [ast.unparse(x) for a, b in units for x in (a, b)])
    for i_, (text, _v) in enumerate(terms):
        if ("%s is None" % text in spoken or "%s is not None" % text in spoken) and ("len(%s)" % text) not in table:
            doms[i_] = [None] + [x for x in doms[i_] if x]      # an object or None (see refute_conditions)
    # an unknown used as a bit mask (or masked) is taken from 0, the powers of two and the constants present: whether it has one
    # bit or several is not known here, and `x & m != 0` / `x & m == m` differ only for a mask of several bits
    cset = {c for c in consts if isinstance(c, int)}
    doms = [[v for v in d if not isinstance(v, int) or isinstance(v, bool) or v in cset or v == 0 or (v > 0 and v & (v - 1) == 0)] if var in masks else d for d, (_t, var) in zip(doms, terms)]
    # the right operand of & is the mask: a mask of no bits is not considered
    right_masks = set()
    for a, b in cu:
        for e in (a, b):
            for x in ast.walk(e):
                if isinstance(x, ast.BinOp) and isinstance(x.op, ast.BitAnd) and isinstance(x.right, ast.Name) and x.right.id in inv:
                    right_masks.add(x.right.id)
    doms = [[v for v in d if v != 0 or isinstance(v, bool)] if var in right_masks else d for d, (_t, var) in zip(doms, terms)]
    total = 1
    for d in doms:
        total *= len(d)
    if total > MAX_EVALS:
        doms = [d[:max(2, int(MAX_EVALS ** (1.0 / max(1, len(doms)))))] for d in doms]
    evaluated = 0
    links = _links(terms)
    for vals in itertools.product(*doms) if doms else [()]:
        env = dict(_ENV)
        for (text, var), v in zip(terms, vals):
            env[var] = v
        if links and not _consistent(env, links):
            continue

        def val_of_atom(t):
            c = atom_code.get(t)
            if c is None:
                return None
            try:
                return bool(eval(c, env))
            except Exception:
                return None
        if any(_kleene(f, val_of_atom) is False for f in conds):
            continue
        for ca, cb in codes:
            try:
                va = eval(ca, env)
                vb = eval(cb, env)
            except Exception:
                continue
            evaluated += 1
            if va != vb or type(va) is not type(vb) and not (isinstance(va, (int, bool)) and isinstance(vb, (int, bool)) and bool(va) == bool(vb) and va == vb):
                return True
    return False if evaluated else None


def refute_heads(ref_head, code_head, conds=()):
    """components given as texts `prefix expr suffix`"""
    a, b = split_head(ref_head), split_head(code_head)
    if a is None or b is None or a[0] != b[0] or a[2] != b[2] or len(a[1]) != len(b[1]):
        if a is not None and b is not None and len(a[1]) == len(b[1]) and a[2] == b[2] and re.sub(r"_v\d+", "_v", a[0]) == re.sub(r"_v\d+", "_v", b[0]):
            pass
        else:
            return None
    pairs = []
    for x, y in zip(a[1], b[1]):
        ex, ey = parse_expr(x), parse_expr(y)
        if ex is None or ey is None:
            return None
        pairs.append((ex, ey))
    return refute_exprs(pairs, conds)


def refute_atoms(ref_atom, code_atom, conds=()):
    ea, eb = parse_expr(ref_atom), parse_expr(code_atom)
    if ea is None or eb is None:
        return None
    return refute_exprs([(ea, eb)], conds)


def _partial(f, val_of_atom):
    """the formula with the atoms that can be evaluated replaced by their values"""
    from . import gi
    if f is True or f is False:
        return f
    tag = f[0]
    if tag == "op":
        v = val_of_atom(f[1]) if isinstance(f[1], str) else None
        return f if v is None else v
    if tag == "not":
        return gi.f_not(_partial(f[1], val_of_atom))
    if tag == "and":
        return gi.f_and(*[_partial(x, val_of_atom) for x in f[1]])
    if tag == "or":
        return gi.f_or(*[_partial(x, val_of_atom) for x in f[1]])
    return f


def refute_conditions(f_ref, f_code):
    """a valuation of the operands of the atoms the two conditions do NOT share under which the conditions -- with every atom
    that speaks about those operands evaluated, the others left free -- are not equivalent"""
    import copy
    from . import sym
    ta, tb = set(), set()
    _atoms(f_ref, ta)
    _atoms(f_code, tb)
    diff = sorted(ta ^ tb)
    if not diff:
        return None
    table = {}
    ab = _Abstract(table)
    code = {}
    consts = []
    for t in diff:
        e = parse_expr(t)
        if e is None:
            return None
        try:
            code[t] = _compile(ab.visit(copy.deepcopy(e)))
        except Exception:
            return None
        consts += _consts(e)
    if len(table) > MAX_TERMS:
        return None
    bitpos = {}
    for t in sorted((ta | tb)):
        if t in code:
            continue
        e = parse_expr(t)
        if e is None:
            continue
        tb2 = dict(table)
        try:
            e2 = _Abstract(tb2).visit(copy.deepcopy(e))
        except Exception:
            continue
        new_terms = [k for k in tb2 if k not in table]
        if new_terms and all(k.startswith("len(") and k.endswith(")") and k[4:-1] in table for k in new_terms) and len(tb2) <= MAX_TERMS + 1:
            table.update({k: tb2[k] for k in new_terms})        # the length of an operand goes with the operand
        elif new_terms:
            continue        # speaks about other things as well: left free
        try:
            code[t] = _compile(e2)
        except Exception:
            continue
        consts += _consts(e)
    terms = sorted(table.items(), key=lambda kv: kv[1])
    doms = [_domain(consts, text) for text, _v in terms]
    # an operand that is compared with None is an object or None: a witness does not rest on a falsy object (0, b'') unless its
    # length is spoken about as well
    for i_, (text, _v) in enumerate(terms):
        if any(t in ("%s is None" % text, "None is %s" % text, "%s == None" % text, "None == %s" % text) for t in (ta | tb)) and ("len(%s)" % text) not in table:
            doms[i_] = [None] + [x for x in doms[i_] if x]
    # a term tested bit by bit takes the values that set exactly those bits
    for t in code:
        for m in re.finditer(r"bit\((.+?), (\d+)\)", t):
            for i_, (text, _v) in enumerate(terms):
                if text == m.group(1):
                    k = int(m.group(2))
                    if k < 64:
                        doms[i_] = sorted(set(x for x in doms[i_] if isinstance(x, int)) | {0, 1 << k}) + [x for x in doms[i_] if not isinstance(x, int)]
    total = 1
    for d in doms:
        total *= len(d)
    if total > 6000:
        doms = [d[:max(2, int(6000 ** (1.0 / max(1, len(doms)))))] for d in doms]
    links = _links(terms)
    seen = False
    for vals in itertools.product(*doms) if doms else [()]:
        env = dict(_ENV)
        for (text, var), v in zip(terms, vals):
            env[var] = v
        if links and not _consistent(env, links):
            continue

        def val_of_atom(t):
            c = code.get(t)
            if c is None:
                return None
            try:
                return bool(eval(c, env))
            except Exception:
                return None
        if any(val_of_atom(t) is None for t in diff):
            continue
        seen = True
        ra, rb = _partial(f_ref, val_of_atom), _partial(f_code, val_of_atom)
        try:
            if not sym._equiv(ra, rb):
                return True
        except Exception:
            return None
    return False if seen else None


def same_operands(atoms_a, atoms_b):
    """the two groups of atoms speak about the same operands (a thing and its length count as one)"""
    import copy

    def operands(atoms):
        table = {}
        ab = _Abstract(table)
        for t in atoms:
            e = parse_expr(t)
            if e is None:
                return None
            try:
                ab.visit(copy.deepcopy(e))
            except Exception:
                return None
        out = set()
        for k in table:
            while k.startswith("len(") and k.endswith(")"):
                k = k[4:-1]
            out.add(k)
        return out
    a, b = operands(atoms_a), operands(atoms_b)
    return a is not None and b is not None and bool(a) and a == b
