"""SYM - flow-sensitive symbolic store with canonical forms.

SymWalker walks a function like gi.GuardWalker, but additionally keeps a store `local name -> expression tree`
in which every expression is written over the function's inputs (parameters, attributes, call results) only:
temporaries are substituted away, joins of branches become conditional expressions, loop-modified names are
havoced.  All expressions handed to rules (exit values, guard atoms, effects) are *canonical*:

  * bound variables of comprehensions / lambdas are renamed positionally,
  * module-level integer / bytes / str constants are replaced by their values and constant arithmetic is folded,
  * `x // 2**k` -> `x >> k`, `x & (2**k - 1)` -> `x % 2**k`, `dict(a=b)` -> `{'a': b}`, `not not x` -> `bool(x)`,
  * comparisons are reduced to the atoms `a == b` (operands ordered) and `a < b`; `!=, >, >=, <=, not in` are
    negations / flips; `x in (a, b)` is a disjunction of equalities; `len(x) > 0`, `len(x) != 0`, `x` (as a
    condition) are the one atom truthy(x).

This makes the rules that consume it insensitive to renaming of locals, introduction or removal of temporaries,
early-return vs nested-if style, De Morgan rewrites, operator flips and named constants, while every value they
compare is still the value the code computes.  No solver and no execution is involved: this is abstract
interpretation over the term domain.
"""
from __future__ import annotations

import ast
import copy

from .pm import AnalysisError, norm
from . import gi, df
from .gi import f_and, f_or, f_not, Exit

MAX_NODES = 1500


def _size(e):
    return sum(1 for _ in ast.walk(e))


class Canon:
    def __init__(self, const_of=None):
        self.const_of = const_of      # callable(expr) -> python value or None, for module-level constants

    # ------------------------------------------------------------- expressions
    def expr(self, e):
        e = copy.deepcopy(e)
        e = self._alpha(e, {}, [0])
        e = self._fold(e)
        return e

    def text(self, e):
        return norm(self.expr(e))

    def _alpha(self, e, ren, ctr):
        if isinstance(e, ast.Name):
            if e.id in ren:
                return ast.Name(ren[e.id], e.ctx)
            return e
        if isinstance(e, (ast.ListComp, ast.SetComp, ast.GeneratorExp, ast.DictComp)):
            ren = dict(ren)
            gens = []
            for g in e.generators:
                it = self._alpha(g.iter, ren, ctr)
                for n in ast.walk(g.target):
                    if isinstance(n, ast.Name):
                        ren[n.id] = "_b%d" % ctr[0]
                        ctr[0] += 1
                tgt = self._alpha(g.target, ren, ctr)
                ifs = [self._alpha(c, ren, ctr) for c in g.ifs]
                gens.append(ast.comprehension(tgt, it, ifs, g.is_async))
            if isinstance(e, ast.DictComp):
                return ast.DictComp(self._alpha(e.key, ren, ctr), self._alpha(e.value, ren, ctr), gens)
            return type(e)(self._alpha(e.elt, ren, ctr), gens)
        if isinstance(e, ast.Lambda):
            ren = dict(ren)
            args = copy.deepcopy(e.args)
            for a in args.posonlyargs + args.args + args.kwonlyargs:
                ren[a.arg] = "_b%d" % ctr[0]
                a.arg = ren[a.arg]
                a.annotation = None
                ctr[0] += 1
            return ast.Lambda(args, self._alpha(e.body, ren, ctr))
        for fld, val in ast.iter_fields(e):
            if isinstance(val, ast.AST):
                setattr(e, fld, self._alpha(val, ren, ctr))
            elif isinstance(val, list):
                setattr(e, fld, [self._alpha(v, ren, ctr) if isinstance(v, ast.AST) else v for v in val])
        return e

    def _fold(self, e):
        for fld, val in ast.iter_fields(e):
            if isinstance(val, ast.AST):
                setattr(e, fld, self._fold(val))
            elif isinstance(val, list):
                setattr(e, fld, [self._fold(v) if isinstance(v, ast.AST) else v for v in val])
        if isinstance(e, (ast.Name, ast.Attribute)) and self.const_of is not None and isinstance(getattr(e, "ctx", None), ast.Load):
            v = self.const_of(e)
            if isinstance(v, (int, bytes, str)) and not isinstance(v, bool):
                return ast.Constant(v)
        if isinstance(e, ast.BinOp):
            a, b = e.left, e.right
            if isinstance(a, ast.Constant) and isinstance(b, ast.Constant) and isinstance(a.value, int) and isinstance(b.value, int) and not isinstance(a.value, bool):
                v = df.const_int(e)
                if v is not None:
                    return ast.Constant(v)
            if isinstance(a, ast.Constant) and isinstance(b, ast.Constant) and isinstance(a.value, (bytes, str)) and type(a.value) is type(b.value) and isinstance(e.op, ast.Add):
                return ast.Constant(a.value + b.value)
            if isinstance(a, ast.Constant) and isinstance(a.value, (bytes, str)) and isinstance(b, ast.Constant) and isinstance(b.value, int) and isinstance(e.op, ast.Mult) and 0 <= b.value <= 4096:
                return ast.Constant(a.value * b.value)
            if isinstance(b, ast.Constant) and isinstance(b.value, int) and not isinstance(b.value, bool) and b.value > 0:
                k = b.value
                if isinstance(e.op, ast.FloorDiv) and k & (k - 1) == 0:
                    return ast.BinOp(a, ast.RShift(), ast.Constant(k.bit_length() - 1))
                if isinstance(e.op, ast.BitAnd) and (k + 1) & k == 0:
                    return ast.BinOp(a, ast.Mod(), ast.Constant(k + 1))
                if isinstance(e.op, ast.Mult) and k & (k - 1) == 0 and k > 1 and not isinstance(a, ast.Constant):
                    return ast.BinOp(a, ast.LShift(), ast.Constant(k.bit_length() - 1))
            if isinstance(a, ast.Constant) and isinstance(a.value, int) and not isinstance(a.value, bool) and isinstance(e.op, ast.Mult) and not isinstance(b, ast.Constant):
                k = a.value
                if k > 1 and k & (k - 1) == 0:
                    return ast.BinOp(b, ast.LShift(), ast.Constant(k.bit_length() - 1))
                return ast.BinOp(b, ast.Mult(), a) if not isinstance(b, (ast.List, ast.Tuple)) else e
        if isinstance(e, ast.UnaryOp) and isinstance(e.operand, ast.Constant) and isinstance(e.operand.value, int) and not isinstance(e.operand.value, bool):
            if isinstance(e.op, ast.USub):
                return ast.Constant(-e.operand.value)
            if isinstance(e.op, ast.Invert):
                return ast.Constant(~e.operand.value)
        if isinstance(e, ast.UnaryOp) and isinstance(e.op, ast.Not) and isinstance(e.operand, ast.UnaryOp) and isinstance(e.operand.op, ast.Not):
            return ast.Call(ast.Name("bool", ast.Load()), [e.operand.operand], [])
        if isinstance(e, ast.Call) and isinstance(e.func, ast.Name) and e.func.id == "dict" and not e.args and all(k.arg for k in e.keywords):
            return ast.Dict([ast.Constant(k.arg) for k in e.keywords], [k.value for k in e.keywords])
        if isinstance(e, ast.Call) and isinstance(e.func, ast.Name) and e.func.id in ("list", "tuple") and len(e.args) == 1 and isinstance(e.args[0], ast.GeneratorExp):
            if e.func.id == "list":
                return ast.ListComp(e.args[0].elt, e.args[0].generators)
        if isinstance(e, ast.Subscript) and isinstance(e.value, ast.Constant) and isinstance(e.value.value, (bytes, str)) and isinstance(e.slice, ast.Constant) and isinstance(e.slice.value, int):
            try:
                return ast.Constant(e.value.value[e.slice.value])
            except Exception:
                return e
        if isinstance(e, ast.Tuple) and isinstance(getattr(e, "ctx", None), ast.Load):
            return e
        return e


# ------------------------------------------------------------------ atoms
def _cmp_atoms(canon, left, op, right, leaf):
    """formula for one comparison, reduced to == and < atoms"""
    lt, rt = norm(left), norm(right)
    if isinstance(op, (ast.Eq, ast.NotEq)):
        a, b = sorted([lt, rt])
        f = leaf(ast.Compare(left if lt == a else right, [ast.Eq()], [right if lt == a else left]), "%s == %s" % (a, b))
        return f if isinstance(op, ast.Eq) else f_not(f)
    if isinstance(op, ast.Lt):
        return leaf(ast.Compare(left, [ast.Lt()], [right]), "%s < %s" % (lt, rt))
    if isinstance(op, ast.Gt):
        return leaf(ast.Compare(right, [ast.Lt()], [left]), "%s < %s" % (rt, lt))
    if isinstance(op, ast.GtE):
        return f_not(leaf(ast.Compare(left, [ast.Lt()], [right]), "%s < %s" % (lt, rt)))
    if isinstance(op, ast.LtE):
        return f_not(leaf(ast.Compare(right, [ast.Lt()], [left]), "%s < %s" % (rt, lt)))
    if isinstance(op, (ast.Is, ast.IsNot)):
        f = leaf(ast.Compare(left, [ast.Is()], [right]), "%s is %s" % (lt, rt))
        return f if isinstance(op, ast.Is) else f_not(f)
    if isinstance(op, (ast.In, ast.NotIn)):
        if isinstance(right, (ast.Tuple, ast.List, ast.Set)) and 0 < len(right.elts) <= 12:
            f = f_or(*[_cmp_atoms(canon, left, ast.Eq(), x, leaf) for x in right.elts])
        elif isinstance(right, ast.Constant) and isinstance(right.value, (str, bytes)) and isinstance(left, ast.Constant):
            f = True if left.value in right.value else False
        else:
            f = leaf(ast.Compare(left, [ast.In()], [right]), "%s in %s" % (lt, rt))
        return f if isinstance(op, ast.In) else f_not(f)
    return leaf(ast.Compare(left, [op], [right]), norm(ast.Compare(left, [op], [right])))


class SymWalker:
    """Walks a function body.  `leaf(expr, text) -> formula` decides how a canonical atom becomes a formula
    (default: opaque atom named by its text); value-set atomizers plug in there."""

    def __init__(self, func_node, canon=None, leaf=None, params=None, keep=()):
        self.canon = canon or Canon()
        self.leaf = leaf or (lambda e, t: ("op", t))
        self.node = func_node
        self.env = {}
        self.exits = []
        self.effects = []       # Effect records in program order
        self.visits = []        # (stmt, reach) like GuardWalker
        self.keep = set(keep)   # local names never substituted (rules that want to talk about them)
        self.loop_stack = []
        self.guards = {}        # id(If / While / Assert node) -> formula of its test at that program point
        self.tests = {}         # id(node) -> canonical test expression

    # ---------------------------------------------------------------- values
    def sub(self, e):
        """expression with locals substituted by their symbolic values, canonicalised"""
        if e is None:
            return None
        env = self.env

        class S(ast.NodeTransformer):
            def __init__(s, bound):
                s.bound = bound

            def visit_Name(s, n):
                if isinstance(n.ctx, ast.Load) and n.id in env and n.id not in s.bound:
                    return copy.deepcopy(env[n.id])
                return n

            def _comp(s, n):
                bound = set(s.bound)
                for g in n.generators:
                    for x in ast.walk(g.target):
                        if isinstance(x, ast.Name):
                            bound.add(x.id)
                inner = S(bound)
                first = True
                for g in n.generators:
                    g.iter = (s if first else inner).visit(g.iter)
                    g.ifs = [inner.visit(c) for c in g.ifs]
                    first = False
                if isinstance(n, ast.DictComp):
                    n.key = inner.visit(n.key)
                    n.value = inner.visit(n.value)
                else:
                    n.elt = inner.visit(n.elt)
                return n
            visit_ListComp = visit_SetComp = visit_GeneratorExp = visit_DictComp = _comp

            def visit_Lambda(s, n):
                bound = set(s.bound) | {a.arg for a in n.args.args + n.args.posonlyargs + n.args.kwonlyargs}
                n.body = S(bound).visit(n.body)
                return n
        out = S(set()).visit(copy.deepcopy(e))
        return self.canon.expr(out)

    def text(self, e):
        return norm(self.sub(e))

    # ----------------------------------------------------------------- atoms
    def atomize(self, t, _subbed=False):
        if not _subbed:
            t = self.sub(t)
        if isinstance(t, ast.BoolOp):
            parts = [self.atomize(v, True) for v in t.values]
            return f_and(*parts) if isinstance(t.op, ast.And) else f_or(*parts)
        if isinstance(t, ast.UnaryOp) and isinstance(t.op, ast.Not):
            return f_not(self.atomize(t.operand, True))
        if isinstance(t, ast.IfExp):
            c = self.atomize(t.test, True)
            return f_or(f_and(c, self.atomize(t.body, True)), f_and(f_not(c), self.atomize(t.orelse, True)))
        if isinstance(t, ast.Call) and isinstance(t.func, ast.Name) and t.func.id == "bool" and len(t.args) == 1:
            return self.atomize(t.args[0], True)
        if isinstance(t, ast.Constant):
            return True if t.value else False
        if isinstance(t, ast.Compare):
            # truthiness spelled with len()
            if len(t.ops) == 1 and isinstance(t.left, ast.Call) and isinstance(t.left.func, ast.Name) and t.left.func.id == "len" and isinstance(t.comparators[0], ast.Constant):
                k = t.comparators[0].value
                x = t.left.args[0]
                if (isinstance(t.ops[0], ast.Gt) and k == 0) or (isinstance(t.ops[0], ast.NotEq) and k == 0) or (isinstance(t.ops[0], ast.GtE) and k == 1):
                    return self.leaf(x, "truthy(%s)" % norm(x))
                if (isinstance(t.ops[0], ast.Eq) and k == 0) or (isinstance(t.ops[0], ast.Lt) and k == 1) or (isinstance(t.ops[0], ast.LtE) and k == 0):
                    return f_not(self.leaf(x, "truthy(%s)" % norm(x)))
            fs = []
            left = t.left
            for op, right in zip(t.ops, t.comparators):
                fs.append(_cmp_atoms(self.canon, left, op, right, self.leaf))
                left = right
            return f_and(*fs)
        return self.leaf(t, "truthy(%s)" % norm(t))

    # ------------------------------------------------------------------ walk
    def run(self, body=None):
        body = body if body is not None else self.node.body
        r = self.block(body, True)
        if r is not False:
            self.exits.append(Exit("fall", None, r))
        return self.exits

    def block(self, body, reach):
        for st in body:
            if reach is False:
                break
            reach = self.stmt(st, reach)
        return reach

    def _assigned(self, stmts):
        out = set()
        for x in stmts:
            for n in ast.walk(x):
                if isinstance(n, ast.Name) and isinstance(n.ctx, (ast.Store, ast.Del)):
                    out.add(n.id)
        return out

    def _bind(self, target, value):
        if isinstance(target, ast.Name):
            if target.id in self.keep or value is None or _size(value) > MAX_NODES:
                self.env.pop(target.id, None)
            else:
                self.env[target.id] = value
        elif isinstance(target, (ast.Tuple, ast.List)):
            if isinstance(value, (ast.Tuple, ast.List)) and len(value.elts) == len(target.elts) and not any(isinstance(x, ast.Starred) for x in target.elts):
                for t, v in zip(target.elts, value.elts):
                    self._bind(t, v)
            else:
                for i, t in enumerate(target.elts):
                    if isinstance(t, ast.Starred):
                        self._bind(t.value, None)
                    else:
                        self._bind(t, ast.Subscript(copy.deepcopy(value), ast.Constant(i), ast.Load()) if value is not None else None)

    def _effect(self, kind, st, reach, **kw):
        self.effects.append(Effect(kind, st, reach, tuple(self.loop_stack), **kw))

    def stmt(self, st, reach):
        if isinstance(st, ast.If):
            c = self.atomize(st.test)
            ctest = self.sub(st.test)
            self.guards[id(st)] = c
            self.tests[id(st)] = ctest
            ra, rb = f_and(reach, c), f_and(reach, f_not(c))
            env0 = dict(self.env)
            a = self.block(st.body, ra)
            env_a = self.env
            self.env = dict(env0)
            b = self.block(st.orelse, rb)
            env_b = self.env
            if a is False and b is False:
                self.env = {}
                return False
            if a is False:
                self.env = env_b
            elif b is False:
                self.env = env_a
            else:
                merged = {}
                for k in set(env_a) | set(env_b):
                    va, vb = env_a.get(k), env_b.get(k)
                    if va is None and vb is None:
                        continue
                    va = va if va is not None else ast.Name(k, ast.Load())
                    vb = vb if vb is not None else ast.Name(k, ast.Load())
                    if norm(va) == norm(vb):
                        merged[k] = va
                    else:
                        m = ast.IfExp(copy.deepcopy(ctest), va, vb)
                        if _size(m) <= MAX_NODES:
                            merged[k] = m
                self.env = merged
            if a == ra and b == rb:
                return reach
            return f_or(a, b)
        if isinstance(st, ast.Return):
            self.exits.append(Exit("return", st, reach, self.sub(st.value) if st.value is not None else None))
            return False
        if isinstance(st, ast.Raise):
            self.exits.append(Exit("raise", st, reach, self.sub(st.exc) if st.exc is not None else None))
            return False
        if isinstance(st, ast.Assert):
            c = self.atomize(st.test)
            self.guards[id(st)] = c
            self.exits.append(Exit("raise", st, f_and(reach, f_not(c)), ast.Call(ast.Name("AssertionError", ast.Load()), [], [])))
            return f_and(reach, c)
        if isinstance(st, (ast.For, ast.AsyncFor, ast.While)):
            assigned = self._assigned(st.body) | (self._assigned([st.target]) if not isinstance(st, ast.While) else set())
            it = self.sub(st.iter) if not isinstance(st, ast.While) else None
            for k in assigned:
                self.env.pop(k, None)
            label = ("for %s in %s" % (norm(st.target), norm(it))) if it is not None else "while"
            self.loop_stack.append(LoopCtx(st, it, norm(st.target) if it is not None else None, reach))
            cond = self.atomize(st.test) if isinstance(st, ast.While) else True
            env0 = dict(self.env)
            self.block(st.body, f_and(reach, cond) if cond is not True else reach)
            self.loop_stack.pop()
            self.env = {k: v for k, v in env0.items() if k not in assigned}
            out = reach
            if st.orelse:
                out = self.block(st.orelse, out)
            return out
        if isinstance(st, (ast.Break, ast.Continue)):
            self._effect("break" if isinstance(st, ast.Break) else "continue", st, reach)
            return False
        if isinstance(st, ast.Try):
            assigned = self._assigned(st.body)
            env0 = dict(self.env)
            body = self.block(st.body, reach)
            env_body = self.env
            outs = [body]
            envs = [env_body] if body is not False else []
            for i, h in enumerate(st.handlers):
                self.env = {k: v for k, v in env0.items() if k not in assigned}
                hc = ("op", "exc@%s" % _handler_label(h))
                o = self.block(h.body, f_and(reach, hc))
                outs.append(o)
                if o is not False:
                    envs.append(self.env)
            r = f_or(*outs)
            if envs:
                keys = set.intersection(*[set(e) for e in envs]) if envs else set()
                self.env = {k: envs[0][k] for k in keys if all(norm(e[k]) == norm(envs[0][k]) for e in envs)}
            else:
                self.env = {}
            if st.orelse and r is not False:
                r = self.block(st.orelse, r)
            if st.finalbody:
                r = self.block(st.finalbody, r if r is not False else reach)
            return r
        if isinstance(st, ast.With):
            for it in st.items:
                if it.optional_vars is not None:
                    self._bind(it.optional_vars, None)
            return self.block(st.body, reach)
        if isinstance(st, (ast.FunctionDef, ast.AsyncFunctionDef, ast.ClassDef)):
            self.env.pop(st.name, None)
            return reach
        self.visits.append((st, reach))
        if isinstance(st, (ast.Assign, ast.AnnAssign)):
            if getattr(st, "value", None) is None:
                return reach
            v = self.sub(st.value)
            tg = st.targets if isinstance(st, ast.Assign) else [st.target]
            for t in tg:
                if isinstance(t, (ast.Name, ast.Tuple, ast.List)):
                    self._bind(t, v)
                elif isinstance(t, ast.Attribute):
                    self._effect("setattr", st, reach, target=self.sub(t.value), attr=t.attr, value=v)
                elif isinstance(t, ast.Subscript):
                    self._effect("setitem", st, reach, target=self.sub(t.value), key=self.sub(t.slice), value=v)
                    if isinstance(t.value, ast.Name):
                        self.env.pop(t.value.id, None)
            self._calls(st.value, st, reach)
            return reach
        if isinstance(st, ast.AugAssign):
            v = self.sub(st.value)
            if isinstance(st.target, ast.Name):
                cur = self.env.get(st.target.id, ast.Name(st.target.id, ast.Load()))
                self._effect("aug", st, reach, target=ast.Name(st.target.id, ast.Load()), op=st.op, value=v, before=copy.deepcopy(cur))
                self._bind(st.target, self.canon.expr(ast.BinOp(copy.deepcopy(cur), st.op, v)))
            elif isinstance(st.target, ast.Attribute):
                self._effect("augattr", st, reach, target=self.sub(st.target.value), attr=st.target.attr, op=st.op, value=v)
            elif isinstance(st.target, ast.Subscript):
                self._effect("augitem", st, reach, target=self.sub(st.target.value), key=self.sub(st.target.slice), op=st.op, value=v)
            self._calls(st.value, st, reach)
            return reach
        if isinstance(st, ast.Delete):
            for t in st.targets:
                if isinstance(t, ast.Subscript):
                    self._effect("delitem", st, reach, target=self.sub(t.value), key=self.sub(t.slice))
                elif isinstance(t, ast.Attribute):
                    self._effect("delattr", st, reach, target=self.sub(t.value), attr=t.attr)
                elif isinstance(t, ast.Name):
                    self.env.pop(t.id, None)
            return reach
        if isinstance(st, ast.Expr):
            self._calls(st.value, st, reach, top=True)
            return reach
        return reach

    def _calls(self, e, st, reach, top=False):
        """record calls (outermost first) as effects; mutator calls on locals havoc the local"""
        if isinstance(e, (ast.Yield, ast.YieldFrom)) and top:
            self._effect("yield", st, reach, value=self.sub(e.value) if e.value is not None else None)
            return
        for n in ast.walk(e):
            if isinstance(n, ast.Call):
                subbed = self.sub(n)
                self._effect("call", st, reach, call=subbed, raw=n, top=(top and n is e))
                f = n.func
                if isinstance(f, ast.Attribute) and isinstance(f.value, ast.Name) and f.attr in MUTATORS and f.value.id in self.env:
                    self.env.pop(f.value.id, None)


MUTATORS = {"append", "extend", "insert", "pop", "remove", "sort", "reverse", "clear", "update", "setdefault", "popitem", "add", "discard", "write"}


def _handler_label(h):
    if h.type is None:
        return "BaseException"
    ts = h.type.elts if isinstance(h.type, ast.Tuple) else [h.type]
    return "|".join(sorted((df.dotted(t) or "?").split(".")[-1] for t in ts))


class LoopCtx:
    def __init__(self, node, iter_expr, target, reach=True):
        self.reach = reach
        self.node = node
        self.iter = iter_expr
        self.target = target

    def __repr__(self):
        return "for %s in %s" % (self.target, norm(self.iter)) if self.iter is not None else "while"


class Effect:
    def __init__(self, kind, node, reach, loops, **kw):
        self.kind = kind
        self.node = node
        self.reach = reach
        self.loops = loops
        self.__dict__.update(kw)

    def text(self):
        k = self.kind
        if k == "call":
            return norm(self.call)
        if k == "setattr":
            return "%s.%s = %s" % (norm(self.target), self.attr, norm(self.value))
        if k == "setitem":
            return "%s[%s] = %s" % (norm(self.target), norm(self.key), norm(self.value))
        if k == "aug":
            return "%s %s= %s" % (norm(self.target), _OPTXT.get(type(self.op), "?"), norm(self.value))
        if k == "augattr":
            return "%s.%s %s= %s" % (norm(self.target), self.attr, _OPTXT.get(type(self.op), "?"), norm(self.value))
        if k == "augitem":
            return "%s[%s] %s= %s" % (norm(self.target), norm(self.key), _OPTXT.get(type(self.op), "?"), norm(self.value))
        if k == "delitem":
            return "del %s[%s]" % (norm(self.target), norm(self.key))
        if k == "yield":
            return "yield %s" % (norm(self.value) if self.value is not None else "")
        return k

    def __repr__(self):
        return "<%s %s>" % (self.kind, self.text()[:80])


_OPTXT = {ast.Add: "+", ast.Sub: "-", ast.Mult: "*", ast.BitOr: "|", ast.BitAnd: "&", ast.BitXor: "^", ast.LShift: "<<", ast.RShift: ">>", ast.Mod: "%", ast.FloorDiv: "//"}


def make_const_of(ctx, fi):
    """resolver of module-level constants for Canon: Names/Attributes that are not parameters or locals of fi"""
    locals_ = set(fi.params()) | set(df.assignments(fi.node))
    p = fi
    while p.parent is not None:
        p = p.parent
        locals_ |= set(p.params()) | set(df.assignments(p.node))
    it = ctx.interp
    cache = {}

    def const_of(e):
        t = norm(e)
        if t in cache:
            return cache[t]
        v = None
        root = e
        while isinstance(root, ast.Attribute):
            root = root.value
        if isinstance(root, ast.Name) and root.id not in locals_ and root.id not in ("self", "cls", "class_"):
            r = ctx.p.resolve_expr_static(fi.module, e)
            if isinstance(r, tuple) and r[0] == "const":
                try:
                    val = it.get(r[1].name, r[2])
                    if isinstance(val, (int, bytes, str)) and not isinstance(val, bool):
                        v = val
                except Exception:
                    v = None
        cache[t] = v
        return v
    return const_of


def mutated_locals(func_node):
    """locals used as receivers of mutator calls / item stores / augmented item stores: never substituted"""
    out = set()
    for n in ast.walk(func_node):
        if isinstance(n, ast.Call) and isinstance(n.func, ast.Attribute) and isinstance(n.func.value, ast.Name) and n.func.attr in MUTATORS:
            out.add(n.func.value.id)
        if isinstance(n, (ast.Subscript, ast.Attribute)) and isinstance(n.ctx, (ast.Store, ast.Del)) and isinstance(n.value, ast.Name):
            out.add(n.value.id)
    return out


def walk(ctx, fi, leaf=None, keep=(), body=None):
    """convenience: canonical walker of a function with module constants resolved"""
    keep = set(keep) | (mutated_locals(fi.node) - set(fi.params()))
    w = SymWalker(fi.node, Canon(make_const_of(ctx, fi)), leaf, keep=keep)
    w.run(body)
    return w


def value_leaf(is_subject, const, truthy_is_nonzero=True):
    """leaf function turning canonical == / < atoms about an integer subject into interval sets
    (same meaning as gi.SymbolicAtomizer.compare)"""
    def pt(c):
        return (1, c[1]) if isinstance(c, tuple) else (0, c)

    def shift(e):
        """subject +/- k -> (True, k)"""
        if is_subject(e):
            return 0
        if isinstance(e, ast.BinOp) and isinstance(e.op, (ast.Add, ast.Sub)) and is_subject(e.left):
            k = df.const_int(e.right)
            if k is not None:
                return k if isinstance(e.op, ast.Add) else -k
        return None

    def leaf(e, text):
        if isinstance(e, ast.Compare) and len(e.ops) == 1:
            l, r, op = e.left, e.comparators[0], e.ops[0]
            for a, b, flip in ((l, r, False), (r, l, True)):
                k = shift(a)
                if k is not None:
                    c = const(b)
                    if c is not None:
                        t, v = pt(c)
                        p = (t, v - k)
                        if isinstance(op, ast.Eq):
                            return ("set", gi.IntSet.cmp("==", p))
                        if isinstance(op, ast.Lt):
                            return ("set", gi.IntSet.cmp(">" if flip else "<", p))
        if text.startswith("truthy(") and is_subject(e) and truthy_is_nonzero:
            return ("set", gi.IntSet.cmp("!=", (0, 0)))
        return ("op", text)
    return leaf


def enclosing_if(root, stmt):
    """innermost `if` whose BODY (not orelse) contains stmt; for asserts the assert itself"""
    if isinstance(stmt, ast.Assert):
        return stmt
    best = None
    for n in ast.walk(root):
        if isinstance(n, ast.If):
            for s in n.body:
                if any(x is stmt for x in ast.walk(s)):
                    best = n
    return best


def guard_reject_set(w, root, pred, univ, empty, pure=False, allow=()):
    """Union, over exits satisfying pred, of the subject values their innermost guard rejects on its own:
    for every truth assignment of the guard's other atoms under which the subject is decisive, the subject values
    that make the guard true.  pure=True keeps only guards whose other atoms are all in `allow`."""
    import itertools
    s = empty
    n = 0
    for e in w.exits:
        if not pred(e) or e.node is None:
            continue
        g = enclosing_if(root, e.node)
        if g is None or id(g) not in w.guards:
            continue
        f = w.guards[id(g)]
        if isinstance(g, ast.Assert):
            f = f_not(f)
        if not gi.involves_subject(f):
            continue
        ops = gi.f_opaques(f)
        if pure and any(o not in allow for o in ops):
            continue
        n += 1
        for bits in itertools.product((False, True), repeat=len(ops)):
            sa = gi.f_eval(f, dict(zip(ops, bits)), univ, empty)
            if not (sa == univ):
                s = s | sa
    return s, n


def int_walk(ctx, fi, subject_texts, sym_texts=(), extra_const=None, keep=(), truthy=True):
    """walker whose atoms about the integer subject (given by canonical texts) are interval sets;
    sym_texts are canonical texts standing for the single symbolic endpoint"""
    subject_texts = set(subject_texts)
    sym_texts = set(sym_texts)

    def is_subject(e):
        return norm(e) in subject_texts

    def const(e):
        t = norm(e)
        if t in sym_texts:
            return ("s", 0)
        if isinstance(e, ast.BinOp) and isinstance(e.op, (ast.Add, ast.Sub)) and norm(e.left) in sym_texts:
            k = df.const_int(e.right)
            if k is not None:
                return ("s", k if isinstance(e.op, ast.Add) else -k)
        v = df.const_int(e)
        if v is not None:
            return v
        if extra_const is not None:
            return extra_const(e)
        return None
    return walk(ctx, fi, value_leaf(is_subject, const, truthy), keep=keep)
