"""Transcription of every function of pycoin/encoding/hexbytes.py as of the reviewed tree (see DESIGN.md section 12).
NEVER IMPORTED OR EXECUTED: parsed and compared in canonical form (sa/sym.py) with the functions in /repo."""


_CONSTS = {

}


# pycoin/encoding/hexbytes.py :: h2b
def q__h2b(h):
    try:
        return binascii.unhexlify(h.encode('ascii'))
    except Exception:
        raise ValueError()


# pycoin/encoding/hexbytes.py :: h2b_rev
def q__h2b_rev(h):
    return h2b(h)[::-1]


# pycoin/encoding/hexbytes.py :: b2h
def q__b2h(the_bytes):
    return binascii.hexlify(the_bytes).decode('utf8')


# pycoin/encoding/hexbytes.py :: b2h_rev
def q__b2h_rev(the_bytes):
    return b2h(bytearray(reversed(the_bytes)))


# pycoin/encoding/hexbytes.py :: bytes_as_revhex.__str__
def q__bytes_as_revhex____str__(self):
    return b2h_rev(self)


# pycoin/encoding/hexbytes.py :: bytes_as_revhex.__repr__
def q__bytes_as_revhex____repr__(self):
    return b2h_rev(self)


# pycoin/encoding/hexbytes.py :: bytes_as_hex.__str__
def q__bytes_as_hex____str__(self):
    return b2h(self)


# pycoin/encoding/hexbytes.py :: bytes_as_hex.__repr__
def q__bytes_as_hex____repr__(self):
    return b2h(self)
