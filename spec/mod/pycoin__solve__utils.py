"""Transcription of every function of pycoin/solve/utils.py as of the reviewed tree (see DESIGN.md section 12).
NEVER IMPORTED OR EXECUTED: parsed and compared in canonical form (sa/sym.py) with the functions in /repo."""


_CONSTS = {

}


# pycoin/solve/utils.py :: build_hash160_lookup
def q__build_hash160_lookup(secret_exponents, generators):
    d = {}
    for secret_exponent in secret_exponents:
        for generator in generators:
            public_pair = secret_exponent * generator
            for compressed in (True, False):
                h160 = public_pair_to_hash160_sec(public_pair, compressed=compressed)
                d[h160] = (secret_exponent, public_pair, compressed, generator)
    return d


# pycoin/solve/utils.py :: build_p2sh_lookup
def q__build_p2sh_lookup(scripts):
    scripts_list = list(scripts)
    d1 = dict(((hash160(s), s) for s in scripts_list))
    d1.update(((hashlib.sha256(s).digest(), s) for s in scripts_list))
    return d1


# pycoin/solve/utils.py :: build_sec_lookup
def q__build_sec_lookup(sec_values):
    d = {}
    for sec in sec_values or []:
        d[hash160(sec)] = sec
    return d
