"""C02 - elliptic-curve group law: structural obligations (DESIGN.md section 4, C02)."""
from __future__ import annotations

import ast

from sa.core import Ob
from sa.pm import AnalysisError, norm, body_nodes
from sa import gi, df, ru, sym
from sa.pm import Undecided
from sa.gi import GuardWalker
from sa.cfg import stmt_paths, struct_dominates

CURVE = "pycoin/ecdsa/Curve.py"
POINT = "pycoin/ecdsa/Point.py"
GEN = "pycoin/ecdsa/Generator.py"
OSSL = "pycoin/ecdsa/native/openssl.py"
SECP = "pycoin/ecdsa/native/secp256k1.py"


def _sat(f):
    from rules.C01 import can_be
    return can_be(f, "\0")


def _native_methods(ctx, rel):
    m = ctx.p.module(rel)
    out = {}
    for n in ast.walk(m.tree):
        if isinstance(n, ast.ClassDef) and n.name == "Optimizations":
            for b in n.body:
                if isinstance(b, ast.FunctionDef):
                    out[b.name] = b
    return m, out


_REF = None


def _ref():
    global _REF
    if _REF is None:
        import os
        _REF = ast.parse(open(os.path.join(os.path.dirname(os.path.dirname(os.path.abspath(__file__))), "spec", "ref_curve.py")).read())
    return _REF


INTS = lambda t: t in ("x0", "y0", "x1", "y1", "x3", "y3", "p", "slope", "lam", "e", "e3", "i", "a", "m", "c", "d", "q", "uc", "vc", "ud", "vd", "x", "y", "alpha", "y0", "order", "mask", "bit", "result_int", "numerator", "denominator") \
    or t.startswith(("self._p", "self._a", "self._b", "self._order", "self.inverse_mod(", "len(", "pow(", "self.modular_sqrt(", "_leftmost_bit(", "p0[", "p1[", "self[", "self._mod_sqrt_power", "self._blinding_factor"))


def _refcheck(ctx, rel, dotted, refname, key, ints=None):
    fi = ctx.p.functions.get(ctx.p.module(rel).name + "." + dotted) or ctx.func(rel, dotted)
    return sym.against_reference(ctx, fi, _ref(), refname, key, ints or INTS)


_UNKNOWN = []


def _pv(e, params, carried, ok_calls, seen=frozenset(), depth=0):
    """is the (substituted) expression a point that went through the on-curve-checking constructor, a parameter or infinity?"""
    if e is None or depth > 14:
        return False
    if isinstance(e, ast.Name):
        if e.id in params or e.id in seen:
            return True          # coinductive: a loop-carried name is fine if its initial value and every update are
        vals = carried.get(e.id)
        if not vals:
            return e.id in ("infinity",)
        return all(_pv(v, params, carried, ok_calls, seen | {e.id}, depth + 1) for v in vals)
    if isinstance(e, ast.Attribute):
        if norm(e) in ("self._infinity", "self._minus_blinding_factor_g"):
            return True
        _UNKNOWN.append(norm(e)[:60])
        return False
    if isinstance(e, ast.Call):
        fn = df.dotted(e.func) or ""
        if fn in ok_calls:
            return True
        if fn == "cast" and len(e.args) == 2:
            return _pv(e.args[1], params, carried, ok_calls, seen, depth + 1)
        if fn in ("list", "tuple") and len(e.args) == 1:
            return _pv(e.args[0], params, carried, ok_calls, seen, depth + 1)
        _UNKNOWN.append(norm(e)[:60])        # the result of something this rule does not know (a memo lookup, a new helper)
        return False
    if isinstance(e, ast.BinOp) and isinstance(e.op, (ast.Add, ast.Sub, ast.Mult)):
        return _pv(e.left, params, carried, ok_calls, seen, depth + 1) or _pv(e.right, params, carried, ok_calls, seen, depth + 1)
    if isinstance(e, ast.UnaryOp) and isinstance(e.op, ast.USub):
        return _pv(e.operand, params, carried, ok_calls, seen, depth + 1)
    if isinstance(e, (ast.Tuple, ast.List)):
        return all(_pv(x, params, carried, ok_calls, seen, depth + 1) for x in e.elts)
    if isinstance(e, (ast.ListComp, ast.GeneratorExp, ast.SetComp)):
        tg = {n.id for g in e.generators for n in ast.walk(g.target) if isinstance(n, ast.Name)}
        return _pv(e.elt, params | tg, carried, ok_calls, seen, depth + 1)
    if isinstance(e, ast.Dict):
        return bool(e.values) and all(_pv(x, params, carried, ok_calls, seen, depth + 1) for x in e.values)
    if isinstance(e, ast.Subscript):
        return _pv(e.value, params, carried, ok_calls, seen, depth + 1)
    if isinstance(e, ast.IfExp):
        return _pv(e.body, params, carried, ok_calls, seen, depth + 1) and _pv(e.orelse, params, carried, ok_calls, seen, depth + 1)
    if not isinstance(e, (ast.Constant, ast.Compare, ast.BoolOp)):
        _UNKNOWN.append(norm(e)[:60])        # a form of expression this rule does not read
    return False


def _carried(w):
    out = {}
    for lid, states in list(w.loop_out.items()) + list(w.loop_in.items()):
        for st in states:
            for k, v in st.env.items():
                if isinstance(k, str) and not k.startswith("\0") and not (isinstance(v, ast.Name) and v.id == k):
                    out.setdefault(k, []).append(v)
    return out


# ------------------------------------------------------------------ C02.1
def c02_1(ctx):
    _refcheck(ctx, POINT, "Point.__init__", "pt_init", "constructor-checks-curve")
    _refcheck(ctx, POINT, "Point.check_on_curve", "pt_check_on_curve", "off-curve-raises")
    _refcheck(ctx, CURVE, "Curve.contains_point", "cv_contains_point", "curve-equation")
    _refcheck(ctx, POINT, "Point.__new__", "pt_new", "point-new")
    _refcheck(ctx, CURVE, "Curve.Point", "cv_point", "curve-point-factory")
    # every value returned by the point-producing functions is a parameter, infinity, a constructor call or the result of another such function
    producers = [(CURVE, "Curve.add"), (CURVE, "Curve.multiply"), (GEN, "Generator.raw_mul"), (GEN, "Generator.__mul__"), (GEN, "Generator.__rmul__"), (POINT, "Point.__neg__"),
                 (POINT, "Point.__add__"), (POINT, "Point.__sub__"), (POINT, "Point.__mul__"), (POINT, "Point.__rmul__"), (GEN, "Generator.points_for_x"), (CURVE, "Curve.Point")]
    funcs = [(ctx.func(r, n), None) for r, n in producers]
    for rel in (OSSL, SECP):
        m, meths = _native_methods(ctx, rel)
        for nm in ("multiply", "raw_mul", "__mul__"):
            if nm in meths:
                funcs.append((None, (m, meths[nm])))
    ok_calls = {"self.Point", "Point", "self._curve.Point", "self._curve.add", "self._curve.multiply", "self.raw_mul", "self.multiply", "self.__mul__", "self.infinity", "self._curve.infinity"}
    for fi, nat in funcs:
        node = fi.node if fi is not None else nat[1]
        name = fi.qualname if fi is not None else "%s.Optimizations.%s" % (nat[0].name, nat[1].name)
        where = ctx.where(fi) if fi is not None else "%s:%d" % (nat[0].relpath, nat[1].lineno)
        params = {a.arg for a in node.args.args}
        w = sym.SymWalker(node, sym.Canon(None, None), keep=sym.mutated_locals(node) - params)
        w.run()
        carried = _carried(w)
        for e in w.exits:
            if e.kind != "return" or e.value is None:
                continue
            if nat is not None and nat[0].relpath == SECP and isinstance(e.value, ast.Constant) and e.value.value is False:
                ctx.note("tabulated: secp256k1 multiply returns False after a failed pubkey_parse of an already validated Point (unreachable)")
                continue
            del _UNKNOWN[:]
            good = _pv(e.value, params, carried, ok_calls)
            if not good and _UNKNOWN:
                ctx.undecided("returns-checked-point:%s" % (name.split(".")[-2] + "." + name.split(".")[-1]), where, "%s returns `%s`, whose origin (`%s`) this rule does not know: neither shown to be a checked point nor built without the check"
                              % (name, norm(e.value)[:70], _UNKNOWN[0]))
                continue
            ctx.check(good, "returns-checked-point:%s" % (name.split(".")[-2] + "." + name.split(".")[-1]), where,
                      "%s returns `%s`, which is neither a parameter, infinity, a Point constructor call (on-curve checked) nor the result of another group operation: results may lie off the curve"
                      % (name, norm(e.value)[:80]), what="%s:%s" % (name, norm(e.value)[:50]), sample={"function": name, "returns": norm(e.value)[:80]} if "add" in name else None)


# ------------------------------------------------------------------ C02.2
def c02_2(ctx):
    f = ctx.func(CURVE, "Curve.add")
    _refcheck(ctx, CURVE, "Curve.add", "cv_add", "group-law")
    # P = Q / P = -Q are decided modulo p: coordinates may be unreduced
    w = sym.walk(ctx, f, int_names=INTS)
    p0, p1 = f.params()[1:3]
    atoms = set()
    for e in w.exits:
        atoms |= set(gi.f_opaques(e.cond)) if e.cond not in (True, False) else set()
    coord = [a for a in atoms if ("%s[" % p0 in a or "%s[" % p1 in a) and " is " not in a and "infinity" not in a]
    for a in coord:
        ctx.check("% self._p" in a, "modular-coordinate-test:%s" % a[:40], ctx.where(f),
                  "Curve.add compares coordinates with `%s`; points may carry unreduced coordinates (the constructor accepts y and y + p alike), so P = -Q / P = Q must be decided modulo p" % a, what="cmp:%s" % a, sample={"comparison": a})
    ctx.check(len(coord) >= 2, "two-case-tests", ctx.where(f), "Curve.add has %d coordinate comparisons, expected the x-equality and the y-opposite tests" % len(coord))
    # which formula for which case: the tangent (its slope has the curve's `a`) is used only when the x coordinates agree, the
    # chord only when they differ -- whatever the locals are called and however the differences are precomputed
    x_eq = sorted(a for a in coord if "%s[0]" % p0 in a and "%s[0]" % p1 in a and "[1]" not in a and " == " in a)
    pts = [e for e in w.exits if e.kind == "return" and e.value is not None and "inverse_mod(" in norm(w.sub(e.value))]
    if not x_eq or not pts:
        ctx.undecided("formula-by-case", ctx.where(f), "Curve.add: no test of the x coordinates' difference modulo p / no slope formula found in a form this rule reads")
    else:
        xe = gi.f_or(*[("op", a) for a in x_eq])
        for e in pts:
            t = norm(w.sub(e.value))
            tangent = "self._a" in t
            okf = sym.entails(e.cond, xe) if tangent else sym.entails(e.cond, gi.f_not(xe))
            ctx.check(okf, "formula-by-case:%s" % ("tangent" if tangent else "chord"), ctx.where(f, e.node),
                      "Curve.add uses the %s formula under `%s`, which does not imply that the x coordinates %s: for two different points with equal y (or the like) the wrong formula gives a value that is not P + Q"
                      % ("tangent (doubling)" if tangent else "chord", str(e.cond)[:140], "agree" if tangent else "differ"), sample={"formula": "tangent" if tangent else "chord", "selected_when_x": "equal" if tangent else "different"})
    _refcheck(ctx, CURVE, "Curve.inverse_mod", "cv_inverse_mod", "inverse-mod")


# ------------------------------------------------------------------ C02.3
def c02_3(ctx):
    impls = []
    f = ctx.func(CURVE, "Curve.multiply")
    impls.append(("Curve.multiply", f.node, ctx.where(f), f.params()[1], f.params()[2]))
    for rel in (OSSL, SECP):
        m, meths = _native_methods(ctx, rel)
        if "multiply" in meths:
            nd = meths["multiply"]
            a = [x.arg for x in nd.args.args]
            impls.append(("%s.Optimizations.multiply" % m.name.split(".")[-1], nd, "%s:%d" % (m.relpath, nd.lineno), a[1], a[2]))
        # any OTHER method of the native class that drives the library's point multiplication itself (a raw_mul that no longer
        # delegates to multiply) is one more implementation of the same decision, held to the same clauses: reduced scalar, and
        # the zero shortcut (the library's affine-coordinate getter fails on the point at infinity and leaves its outputs at 0)
        for mn, nd in sorted(meths.items()):
            if mn != "multiply" and any(isinstance(c, ast.Call) and norm(c.func).endswith(("EC_POINT_mul", "ec_pubkey_tweak_mul")) for c in ast.walk(nd)):
                a = [x.arg for x in nd.args.args]
                if len(a) >= 2:
                    impls.append(("%s.Optimizations.%s" % (m.name.split(".")[-1], mn), nd, "%s:%d" % (m.relpath, nd.lineno), "<the receiver>", a[-1]))
    g = ctx.func(GEN, "Generator.raw_mul")
    for name, node, where, pname, ename in impls + [("Generator.raw_mul", g.node, ctx.where(g), None, g.params()[1])]:
        params = {a.arg for a in node.args.args}
        w = sym.SymWalker(node, sym.Canon(None, lambda t: t == ename), keep=sym.mutated_locals(node) - params)
        w.run()
        # wherever the scalar is looked at -- a bit test, a comparison with 0, an argument of the native call, the start of
        # the ladder -- it is the scalar reduced modulo the group order: in the symbolic store every value and condition
        # mentions the parameter only as `e % order` (however the reduction is spelled: e %= n, a new local, an expression)
        order_texts = {"self._order", "self.order()", "order"}
        raw_uses = []

        no_order = gi.f_or(gi.f_not(("op", "truthy(self._order)")), ("op", "self._order is None"), gi.f_not(("op", "truthy(self.order())")), gi.f_not(("op", "truthy(order)")), ("op", "order is None"))

        def scan(expr, what, cond=True):
            if expr is None:
                return
            if cond is not True and cond is not False and sym.entails(cond, no_order):
                return          # a curve without a known order: nothing to reduce by
            parents = {}
            for n in ast.walk(expr):
                for c in ast.iter_child_nodes(n):
                    parents[id(c)] = n
            for n in ast.walk(expr):
                if isinstance(n, ast.Name) and n.id == ename and isinstance(n.ctx, ast.Load):
                    p_ = parents.get(id(n))
                    if isinstance(p_, ast.BinOp) and isinstance(p_.op, ast.Mod) and p_.left is n and norm(p_.right) in order_texts:
                        continue
                    if isinstance(p_, ast.Call) and isinstance(p_.func, ast.Name) and p_.func.id in ("isinstance", "type"):
                        continue
                    raw_uses.append(what)

        has_order = gi.f_not(no_order)

        def subst(f_, o, val):
            if f_ in (True, False):
                return f_
            if f_[0] == "op":
                return val if f_[1] == o else f_
            if f_[0] == "set":
                return f_
            if f_[0] == "not":
                return gi.f_not(subst(f_[1], o, val))
            parts = [subst(g_, o, val) for g_ in f_[1]]
            return gi.f_and(*parts) if f_[0] == "and" else gi.f_or(*parts)

        def scan_formula(f_, what):
            for o in (gi.f_opaques(f_) if f_ not in (True, False) else []):
                if isinstance(o, str) and ename in o:
                    # does the test matter on the paths where the curve has an order?
                    if sym._equiv(gi.f_and(has_order, subst(f_, o, True)), gi.f_and(has_order, subst(f_, o, False))):
                        continue
                    try:
                        scan(ast.parse(o, mode="eval").body, what + " (condition `%s`)" % o[:50])
                    except SyntaxError:
                        pass
        # a loop that re-binds the scalar's own name (e >>= 1) carries a value DERIVED from what entered the loop: when every
        # entry state holds the reduced scalar, the tests the loop (and what follows it) makes of that name look at the reduced
        # scalar's bits, not at the parameter
        carried_from = None
        for lp in ast.walk(node):
            if isinstance(lp, (ast.For, ast.While)) and id(lp) in w.loop_in and any(isinstance(x, ast.Name) and x.id == ename and isinstance(x.ctx, ast.Store) for x in ast.walk(lp)):
                before = len(raw_uses)
                for st_ in w.loop_in[id(lp)]:
                    v_ = st_.env.get(ename)
                    if isinstance(v_, ast.AST):
                        scan(v_, "the ladder starts with %s = %s" % (ename, norm(v_)[:50]), st_.reach)
                    else:
                        raw_uses.append("the ladder starts with an unknown %s" % ename)
                if len(raw_uses) == before and w.loop_in[id(lp)]:
                    pos = (lp.lineno, lp.col_offset)
                    carried_from = pos if carried_from is None else min(carried_from, pos)
                    entry_atoms = set()
                    for st_ in w.loop_in[id(lp)]:
                        entry_atoms |= set(gi.f_opaques(st_.reach)) if st_.reach not in (True, False) else set()

        def derived(n_):
            return carried_from is not None and n_ is not None and hasattr(n_, "lineno") and (n_.lineno, n_.col_offset) >= carried_from

        def scan_formula_at(f_, what, n_):
            if not derived(n_):
                return scan_formula(f_, what)
            for o in (gi.f_opaques(f_) if f_ not in (True, False) else []):
                if o in entry_atoms:
                    scan_formula(("op", o), what)
        for e in w.exits:
            if not derived(e.node):
                scan(e.value, "%s %s" % (e.kind, norm(e.value)[:50] if e.value is not None else ""), e.cond)
            scan_formula_at(e.cond, "%s" % e.kind, e.node)
        for e in w.effects:
            if not derived(getattr(e, "node", None)):
                for part in e.parts():
                    if isinstance(part, ast.AST):
                        scan(part, "%s %s" % (e.kind, norm(part)[:50]), e.reach)
            scan_formula_at(e.reach, e.kind, getattr(e, "node", None))
        for lst in w.loop_in.values():
            for st_ in lst:
                for k_, v_ in st_.env.items():
                    if isinstance(v_, ast.AST) and not k_.startswith("\0") and k_ != ename:
                        scan(v_, "the ladder starts with %s = %s" % (k_, norm(v_)[:50]), st_.reach)
        mentions = any(isinstance(n, ast.Name) and n.id == ename for n in ast.walk(node))
        ctx.check(mentions and not raw_uses, "scalar-reduced-unconditionally:%s" % name, where,
                  "%s looks at the scalar before reducing it modulo the group order: %s; every scalar (negative, >= order, >= 2*order) must be reduced first" % (name, sorted(set(raw_uses))[:3]),
                  sample={"function": name, "unreduced_uses": sorted(set(raw_uses))[:3]})
        if pname is None:
            continue
        # the zero / infinity shortcut looks at the REDUCED scalar
        infs = [e for e in w.exits if e.kind == "return" and e.value is not None and norm(e.value) in ("self._infinity", "self.infinity()")]
        zero_atoms = []
        ok = bool(infs)
        seen_reduced = False
        for e in infs:
            ops = gi.f_opaques(e.cond) if e.cond not in (True, False) else []
            for o in ops:
                if o.startswith("0 == %s" % ename) and ("% self._order" in o or "% self.order()" in o):
                    seen_reduced = True
                    zero_atoms.append(o)
                elif o == "0 == %s" % ename:
                    zero_atoms.append(o)
                    # the unreduced scalar may be tested only where there is no order to reduce by
                    ok = ok and sym.matters_only_when(e.cond, o, ("not", ("op", "truthy(self._order)")))
        ok = ok and seen_reduced
        ctx.check(ok, "zero-test-after-reduction:%s" % name, where,
                  "%s tests `%s` before the scalar has been reduced modulo the order: multiples of the order (n, -n, 2n) are not recognised as zero and reach the coordinate arithmetic" % (name, zero_atoms or "no zero test"),
                  sample={"function": name, "zero_test": zero_atoms})
    _refcheck(ctx, CURVE, "Curve.multiply", "cv_multiply", "ladder-shape")
    _refcheck(ctx, CURVE, "_leftmost_bit", "cv_leftmost_bit", "leftmost-bit")
    _refcheck(ctx, GEN, "Generator.raw_mul", "gn_raw_mul", "fixed-base-shape")
    _refcheck(ctx, GEN, "Generator.__init__", "gn_init", "power-table")


# ------------------------------------------------------------------ C02.4
def _lin(e):
    """linear form {name: coef} of an expression over + - unary-"""
    if isinstance(e, ast.BinOp) and isinstance(e.op, (ast.Add, ast.Sub)):
        a, b = _lin(e.left), _lin(e.right)
        if a is None or b is None:
            return None
        out = dict(a)
        for k, v in b.items():
            out[k] = out.get(k, 0) + (v if isinstance(e.op, ast.Add) else -v)
        return out
    if isinstance(e, ast.UnaryOp) and isinstance(e.op, ast.USub):
        a = _lin(e.operand)
        return None if a is None else {k: -v for k, v in a.items()}
    if isinstance(e, (ast.Name, ast.Attribute)):
        return {norm(e): 1}
    return None


def c02_4(ctx):
    f = ctx.func(GEN, "Generator.__mul__")
    e_ = f.params()[1]
    rets = df.returns_of(f.node)
    ok = False
    total = None
    if len(rets) == 1 and isinstance(rets[0].value, ast.BinOp) and isinstance(rets[0].value.op, ast.Add):
        terms = df.flatten_add(rets[0].value)
        init = ctx.func(GEN, "Generator.__init__")
        idefs = {norm(st.targets[0]): st.value for st in body_nodes(init.node) if isinstance(st, ast.Assign)}
        total = {}
        ok = True
        for t in terms:
            if isinstance(t, ast.Attribute) and norm(t) in idefs:
                t = idefs[norm(t)]
            if isinstance(t, ast.Call) and norm(t.func) == "self.raw_mul" and len(t.args) == 1:
                l = _lin(t.args[0])
                if l is None:
                    ok = False
                    break
                for k, v in l.items():
                    total[k] = total.get(k, 0) + v
            else:
                ok = False
        total = {k: v for k, v in (total or {}).items() if v != 0}
        ok = ok and total == {e_: 1}
    ctx.check(ok, "blinding-cancels", ctx.where(f), "Generator.__mul__ computes the sum of fixed-base multiples with scalar coefficients %s; the blinding offsets must cancel leaving exactly 1*e" % total,
              sample={"function": f.qualname, "net_scalar": total})
    init = ctx.func(GEN, "Generator.__init__")
    wi = sym.walk(ctx, init, int_names=INTS)
    sets = {}
    for e in wi.effects:
        if e.kind == "setattr" and norm(e.target) == "self" and e.attr in ("_blinding_factor", "_minus_blinding_factor_g"):
            sets.setdefault(e.attr, []).append(e)
    bf = sets.get("_blinding_factor", [])
    mg = sets.get("_minus_blinding_factor_g", [])
    ok = len(bf) == 1 and len(mg) == 1 and sym._equiv(bf[0].reach, mg[0].reach)       # set together (under the constructor's own preconditions)
    if ok:
        v = bf[0].value
        order_p = init.params()[5] if len(init.params()) > 5 else "order"
        fresh = isinstance(v, ast.BinOp) and isinstance(v.op, ast.Mod) and norm(v.right) in (order_p, "self._order") and isinstance(v.left, ast.Call) and norm(v.left.func) == "int.from_bytes" \
            and v.left.args and isinstance(v.left.args[0], ast.Call) and norm(v.left.args[0].func) == "entropy_f"
        m = mg[0].value
        neg = isinstance(m, ast.Call) and norm(m.func) == "self.raw_mul" and len(m.args) == 1 and norm(wi.canon.expr(ast.UnaryOp(ast.USub(), m.args[0]))) in (norm(v), "self._blinding_factor")
        neg = neg or (isinstance(m, ast.Call) and norm(m.func) == "self.raw_mul" and len(m.args) == 1 and norm(m.args[0]) in ("-(%s)" % norm(v), "-self._blinding_factor", norm(wi.canon.expr(ast.UnaryOp(ast.USub(), v)))))
        ok = fresh and neg
    ctx.check(ok, "blinding-setup", ctx.where(init), "the blinding factor is not fresh entropy mod order with its negative multiple cached once (set: %s / %s)" % ([norm(e.value)[:80] for e in bf], [norm(e.value)[:80] for e in mg]))
    stores = [(m.name, norm(st)) for m in ctx.p.cls(GEN, "Generator").methods.values() if m.name != "__init__" for st in body_nodes(m.node)
              if isinstance(st, (ast.Assign, ast.AugAssign)) and "_blinding_factor" in norm(st.targets[0] if isinstance(st, ast.Assign) else st.target)]
    ctx.check(not stores, "blinding-immutable", ctx.where(init), "the blinding factor is reassigned outside __init__: %s" % stores)
    _refcheck(ctx, GEN, "Generator.__rmul__", "gn_rmul", "rmul")
    _refcheck(ctx, GEN, "Generator.__mul__", "gn_mul", "blinded-mul")


# ------------------------------------------------------------------ C02.5
def c02_5(ctx):
    _refcheck(ctx, GEN, "Generator.modular_sqrt", "gn_modular_sqrt", "modular-sqrt")
    _refcheck(ctx, GEN, "Generator.points_for_x", "gn_points_for_x", "even-first")
    _refcheck(ctx, GEN, "Generator.inverse", "gn_inverse", "scalar-inverse")
    # results of the square root must not be shared between generators (curves)
    c = ctx.p.cls(GEN, "Generator")
    ms = ctx.func(GEN, "Generator.modular_sqrt")
    for n in ast.walk(ms.node):
        if isinstance(n, ast.Attribute) and norm(n.value) == "self" and n.attr in c.attrs and isinstance(c.attrs[n.attr], (ast.Dict, ast.List, ast.Set, ast.Call)):
            ctx.bad("sqrt-state-shared:%s" % n.attr, ctx.where(ms, n), "modular_sqrt uses the class-level container self.%s: it is shared by every generator, so a root computed modulo one field is served for another" % n.attr)
    ctx.ok("sqrt-state-scanned")


# ------------------------------------------------------------------ C02.6
def c02_6(ctx):
    n = ctx.func(POINT, "Point.__neg__")
    _refcheck(ctx, POINT, "Point.__neg__", "pt_neg", "negation")
    _neg_builds_plain_point(ctx)
    w = sym.walk(ctx, n, int_names=INTS)
    calc = [e for e in w.exits if e.kind == "return" and e.value is not None and "self._curve.p()" in norm(e.value)]
    if not calc:
        raise Undecided("Point.__neg__ has no exit computing p - y")
    for e in calc:
        ops = gi.f_opaques(e.cond) if e.cond not in (True, False) else []
        guards = [o for o in ops if "is None" in o or "infinity" in o]
        ctx.check(bool(guards) and any(sym.entails(e.cond, ("not", ("op", o))) for o in guards), "negate-infinity", ctx.where(n, e.node),
                  "Point.__neg__ computes p - y without first testing for the point at infinity (y is None): -infinity and P - infinity raise TypeError", sample={"function": n.qualname, "guards": ops})
    _refcheck(ctx, POINT, "Point.__sub__", "pt_sub", "subtraction")
    _refcheck(ctx, POINT, "Point.__add__", "pt_add", "addition")
    # a short-cut that answers `infinity` for P - Q / P + Q has to look at BOTH coordinates: P and -P share their x
    for nm in ("Point.__sub__", "Point.__add__"):
        g = ctx.func(POINT, nm)
        wg = sym.walk(ctx, g, int_names=INTS)
        prm = g.params()
        for e in wg.exits:
            if e.kind != "return" or e.value is None or "infinity" not in norm(wg.sub(e.value)) or ".add(" in norm(wg.sub(e.value)):
                continue
            ops = [o for o in (gi.f_opaques(e.cond) if e.cond not in (True, False) else []) if isinstance(o, str)]
            xs = [o for o in ops if "[0]" in o and len(prm) > 1 and prm[1] in o]
            ys = [o for o in ops if "[1]" in o and len(prm) > 1 and prm[1] in o]
            if xs and not ys:
                ctx.bad("identity-shortcut-both-coordinates:%s" % nm, ctx.where(g, e.node), "%s answers the point at infinity under `%s` alone: equal x also holds for Q = -P, where P - Q is 2P (and P + P is not infinity either)" % (nm, xs[0][:80]))
            elif xs or ys:
                ctx.ok("identity-shortcut-both-coordinates:%s" % nm, sample={"function": nm, "guards": ops[:3]})
        ctx.ok("identity-shortcuts:%s" % nm, nontrivial=False)
    _refcheck(ctx, POINT, "Point.__mul__", "pt_mul", "scalar-multiplication")
    # infinity is recognised before coordinates are unpacked in Curve.add
    a = ctx.func(CURVE, "Curve.add")
    wa = sym.walk(ctx, a, int_names=INTS)
    p0, p1 = a.params()[1:3]
    for e in wa.exits:
        if e.kind == "return" and e.value is not None and ("%s[" % p0 in norm(e.value) or "%s[" % p1 in norm(e.value)):
            ops = gi.f_opaques(e.cond) if e.cond not in (True, False) else []
            inf = [o for o in ops if "infinity" in o]
            ctx.check(len(inf) >= 2 and all(sym.entails(e.cond, ("not", ("op", o))) for o in inf), "add-infinity-before-unpack", ctx.where(a, e.node), "Curve.add uses coordinates on a path where an operand may be infinity")


from sa.refguard import guarded as _guarded


def _c02_resolver(ctx, fi):
    names = {"pycoin.ecdsa.Generator.Generator.__mul__": "gn_mul", "pycoin.ecdsa.Generator.Generator.__init__": "gn_init"}
    if fi.qualname in names:
        return _ref(), names[fi.qualname], INTS
    return None


def _neg_builds_plain_point(ctx):
    f = ctx.func(POINT, "Point.__neg__")
    w = sym.walk(ctx, f)
    for e in w.exits:
        if e.kind == "return" and isinstance(e.value, ast.Call):
            fn_t = norm(e.value.func)
            ctx.check(fn_t not in ("self.__class__", "type(self)", "self.__class__.__new__"), "negation-plain-point", ctx.where(f, e.node),
                      "Point.__neg__ builds its result with `%s`: for a Generator that is the curve-and-point class, whose constructor takes the curve parameters, so -G, P - G and the ladder over G raise TypeError" % fn_t)


# ------------------------------------------------------------------ C02.7
def c02_7(ctx):
    """coordinates are field elements: outside [0, p) nothing is a point (a representative x + p of a point's x is not
    the unique encoding of anything, and its text form does not parse back)"""
    from sa.gi import iv
    U, E = gi.IntSet.all(), gi.IntSet.empty()
    f = ctx.func(CURVE, "Curve.contains_point")
    for coord in f.params()[1:3]:
        w = sym.int_walk(ctx, f, {coord}, {"self._p"}, truthy=False)
        tf = sym.truth_formula(w)
        absent = {o: False for o in (gi.f_opaques(tf) if tf not in (True, False) else []) if isinstance(o, str) and o.endswith(" is None")}      # (None, None) is infinity
        s_ = sym.may_set(tf, U, E, assume=absent) if tf is not False else E
        ctx.check(s_.issubset(iv(0, ("s", -1))), "contains-point-range:%s" % coord, ctx.where(f),
                  "Curve.contains_point can answer True for %s in %s; a coordinate is a field element, 0 <= %s < p" % (coord, s_.fmt("p"), coord), sample={"coordinate": coord, "may_be_true_for": s_.fmt("p")})
    g = ctx.func(GEN, "Generator.points_for_x")
    x = g.params()[1]
    w = sym.int_walk(ctx, g, {x}, {"self._p"}, truthy=False)
    fr = sym.exits_formula(w, lambda e: e.kind == "raise")
    s_ = sym.must_set(fr, U, E) if fr is not False else E
    ctx.check(iv(0, ("s", -1)).complement().issubset(s_), "points-for-x-range", ctx.where(g),
              "Generator.points_for_x refuses x in %s on its own; every x outside [0, p) has to be refused (x + p is the same residue, not the same encoding)" % s_.fmt("p"), sample={"refused": s_.fmt("p")})


# ------------------------------------------------------------------ C02.8  the fixed-base table covers the order
def c02_8(ctx):
    """raw_mul adds one tabulated power of G per bit of the reduced scalar: the table has an entry for every bit of the group
    order and the ladder walks all of it (256 of each is enough for the curves pycoin ships, not for a user's P-384)"""
    f = ctx.func(GEN, "Generator.__init__")
    orderp = [p_ for p_ in f.params() if p_ == "order"] or [f.params()[-2] if len(f.params()) >= 2 else "order"]
    orderp = orderp[0]
    fill = [lp for lp in ast.walk(f.node) if isinstance(lp, ast.For) and any(isinstance(c, ast.Call) and norm(c.func) == "self._powers.append" for c in ast.walk(lp))]
    if len(fill) != 1 or not (isinstance(fill[0].iter, ast.Call) and norm(fill[0].iter.func) == "range" and len(fill[0].iter.args) == 1):
        raise Undecided("Generator.__init__: the table of powers is not filled by one `for _ in range(<count>)` loop")
    sdefs = df.single_defs(f.node)
    cnt = fill[0].iter.args[0]
    while isinstance(cnt, ast.Name) and cnt.id in sdefs:
        cnt = sdefs[cnt.id]
    t = norm(cnt)
    bl = ("%s.bit_length()" % orderp, "self._order.bit_length()", "self.order().bit_length()")
    covers = t in bl or (isinstance(cnt, ast.Call) and norm(cnt.func) == "max" and any(norm(a) in bl for a in cnt.args))
    if covers:
        ctx.ok("table-covers-order", sample={"entries": t})
    elif df.const_int(cnt) is not None:
        ctx.bad("table-covers-order", ctx.where(f, fill[0]), "Generator.__init__ tabulates a fixed %s powers of G whatever the group order: on a curve whose order is longer, raw_mul ignores the high bits of the scalar and "
                "the fixed-base product differs from the plain ladder" % t, sample={"entries": t})
    elif not any(b_.split(".bit_length")[0] in t for b_ in bl):
        ctx.bad("table-covers-order", ctx.where(f, fill[0]), "Generator.__init__ tabulates `%s` powers of G, a count that does not depend on the group order: the order of a curve is not bounded by it "
                "(a curve over GF(p) may have more points than p, and the order may be longer than any fixed or field-derived length), so raw_mul ignores the high bits of a reduced scalar there" % t[:60], sample={"entries": t})
    else:
        ctx.undecided("table-covers-order", ctx.where(f, fill[0]), "the table has `%s` entries; this rule reads order.bit_length() (or a maximum with it) only" % t[:60])
    g = ctx.func(GEN, "Generator.raw_mul")
    walk_ = [lp for lp in ast.walk(g.node) if isinstance(lp, ast.For) and any(isinstance(x, ast.Subscript) and norm(x.value) == "self._powers" for x in ast.walk(lp))]
    if len(walk_) != 1 or not (isinstance(walk_[0].iter, ast.Call) and norm(walk_[0].iter.func) == "range" and len(walk_[0].iter.args) == 1):
        raise Undecided("Generator.raw_mul: the ladder is not one `for bit in range(<count>)` loop over self._powers")
    c2 = walk_[0].iter.args[0]
    gd = df.single_defs(g.node)
    while isinstance(c2, ast.Name) and c2.id in gd:
        c2 = gd[c2.id]
    t2 = norm(c2)
    if t2 == "len(self._powers)" or t2 in bl or (covers and t2 == t):
        ctx.ok("ladder-walks-table", sample={"bits": t2})
    elif df.const_int(c2) is not None:
        ctx.bad("ladder-walks-table", ctx.where(g, walk_[0]), "Generator.raw_mul looks at a fixed %s bits of the reduced scalar: the bits above are ignored on a curve with a longer order" % t2, sample={"bits": t2})
    else:
        ctx.undecided("ladder-walks-table", ctx.where(g, walk_[0]), "raw_mul walks `%s` bits; this rule reads len(self._powers) or the bit length of the order only" % t2[:60])


OBLIGATIONS = [
    Ob("C02.1", "every returned point is built through the on-curve-checking constructor (or is a parameter / infinity)", c02_1, floor=20, engines="SYM,CG"),
    Ob("C02.2", "Curve.add decides P = Q / P = -Q modulo p; slopes; identity cases", c02_2, floor=5, engines="SYM", breaks_if="points with unreduced coordinates (x, -y), (x, 2p - y)"),
    Ob("C02.3", "all multiply implementations reduce the scalar unconditionally before the zero / infinity test", c02_3, floor=8, engines="SIB,SYM", breaks_if="scalars n, -n, 2n; blinded scalars >= 2^256"),
    Ob("C02.4", "blinding offsets cancel (linear form of the fixed-base scalars)", _guarded(c02_4, _c02_resolver), floor=4, engines="LIN,SYM"),
    Ob("C02.5", "square root exponent (p+1)/4; points_for_x returns the even root first", c02_5, floor=4, engines="SYM"),
    Ob("C02.7", "coordinates outside [0, p) are not points: contains_point / points_for_x as interval sets", c02_7, floor=3, engines="SYM,GI", breaks_if="x + p, negative x"),
    Ob("C02.8", "the fixed-base table has an entry per bit of the group order and raw_mul walks all of it", c02_8, floor=2, engines="DF", breaks_if="k * G on P-384 for k >= 2^256"),
    Ob("C02.6", "infinity is tested before any coordinate arithmetic (negation, subtraction, addition)", c02_6, floor=5, engines="SYM", breaks_if="-infinity, P - infinity"),
]
