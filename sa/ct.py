"""CT - codec traces: abstract a writer or a reader of a wire format to a sequence of typed fields."""
from __future__ import annotations

import ast

from .pm import AnalysisError, norm
from . import df, gi


class Item:
    def __init__(self, kind, fmt, value, reach, loop, node):
        self.kind = kind      # fmt | raw | const | struct | call
        self.fmt = fmt        # streamer letter / struct format / None
        self.value = value    # normalised text of the value written (aliases expanded)
        self.reach = reach    # formula (opaque atoms) under which the write happens
        self.loop = loop      # text of the iterable when inside a for loop, else None
        self.node = node

    def key(self):
        return (self.kind, self.fmt, self.value, self.loop, repr(self.reach))

    def __repr__(self):
        r = "" if self.reach is True else " if %s" % fmt_formula(self.reach)
        l = "" if self.loop is None else " for %s" % self.loop
        return "%s:%s=%s%s%s" % (self.kind, self.fmt, self.value, l, r)


def fmt_formula(f):
    if f is True:
        return "True"
    if f is False:
        return "False"
    if f[0] == "op":
        return f[1]
    if f[0] == "not":
        return "not(%s)" % fmt_formula(f[1])
    if f[0] in ("and", "or"):
        return "(" + (" %s " % f[0]).join(fmt_formula(g) for g in f[1]) + ")"
    return repr(f)


def write_trace(func_node, stream="f", defs=None, extra_writers=None):
    """Sequence of writes to `stream` performed by the function, in program order."""
    defs = defs if defs is not None else df.single_defs(func_node)
    out = []

    def val(e):
        return norm(df.expand(e, defs))

    def emit_call(c, reach, loop):
        fn = df.dotted(c.func) or ""
        last = fn.split(".")[-1]
        args = c.args
        if last == "stream_struct" and len(args) >= 2 and isinstance(args[0], ast.Constant) and norm(args[1]) == stream:
            fmt = args[0].value
            vals = args[2:]
            letters = [ch for ch in fmt]
            for i, ch in enumerate(letters):
                v = val(vals[i]) if i < len(vals) else "<missing>"
                out.append(Item("fmt", ch, v, reach, loop, c))
            return True
        if fn == "%s.write" % stream and len(args) == 1:
            a = args[0]
            if isinstance(a, ast.Constant) and isinstance(a.value, bytes):
                out.append(Item("const", None, a.value.hex(), reach, loop, c))
            elif isinstance(a, ast.Call) and (df.dotted(a.func) or "") == "struct.pack" and a.args and isinstance(a.args[0], ast.Constant):
                out.append(Item("struct", a.args[0].value, ",".join(val(x) for x in a.args[1:]), reach, loop, c))
            else:
                out.append(Item("raw", None, val(a), reach, loop, c))
            return True
        if last in ("stream_satoshi_string", "stream_bc_string") and len(args) == 2 and norm(args[0]) == stream:
            out.append(Item("fmt", "S", val(args[1]), reach, loop, c))
            return True
        if last in ("stream_satoshi_int", "stream_bc_int") and len(args) == 2 and norm(args[0]) == stream:
            out.append(Item("fmt", "I", val(args[1]), reach, loop, c))
            return True
        if last in ("stream", "stream_header", "stream_unspents") and args and norm(args[0]) == stream and isinstance(c.func, ast.Attribute):
            kw = ",".join("%s=%s" % (k.arg, norm(k.value)) for k in c.keywords)
            out.append(Item("call", last + ("(%s)" % kw if kw else ""), val(c.func.value), reach, loop, c))
            return True
        if extra_writers:
            r = extra_writers(c, reach, loop, val)
            if r:
                out.extend(r)
                return True
        return False

    def block(body, reach, loop):
        for st in body:
            if reach is False:
                return False
            reach = stmt(st, reach, loop)
        return reach

    def stmt(st, reach, loop):
        if isinstance(st, ast.If):
            c = ("op", norm(st.test)) if not (isinstance(st.test, ast.UnaryOp) and isinstance(st.test.op, ast.Not)) else ("not", ("op", norm(st.test.operand)))
            a = block(st.body, gi.f_and(reach, c), loop)
            b = block(st.orelse, gi.f_and(reach, gi.f_not(c)), loop)
            if a == gi.f_and(reach, c) and b == gi.f_and(reach, gi.f_not(c)):
                return reach
            return gi.f_or(a, b)
        if isinstance(st, (ast.For, ast.AsyncFor)):
            it = norm(df.expand(st.iter, defs))
            block(st.body, reach, (loop + " / " if loop else "") + "%s in %s" % (norm(st.target), it))
            return reach
        if isinstance(st, ast.While):
            block(st.body, reach, (loop + " / " if loop else "") + "while %s" % norm(st.test))
            return reach
        if isinstance(st, (ast.Return, ast.Raise)):
            if isinstance(st, ast.Return) and st.value is not None:
                for c in [n for n in ast.walk(st.value) if isinstance(n, ast.Call)]:
                    emit_call(c, reach, loop)
            return False
        if isinstance(st, ast.Try):
            r = block(st.body, reach, loop)
            for h in st.handlers:
                block(h.body, gi.f_and(reach, ("op", "exc@%d" % h.lineno)), loop)
            return r if r is not False else reach
        if isinstance(st, ast.With):
            return block(st.body, reach, loop)
        if isinstance(st, (ast.FunctionDef, ast.ClassDef, ast.AsyncFunctionDef)):
            return reach
        if isinstance(st, ast.Expr) and isinstance(st.value, ast.Call):
            emit_call(st.value, reach, loop)
        elif isinstance(st, ast.AugAssign) and norm(st.target) == stream and isinstance(st.op, ast.Add):
            for part in df.flatten_add(st.value):
                _bytes_part(part, reach, loop)
        elif isinstance(st, ast.Expr):
            pass
        return reach

    def _bytes_part(part, reach, loop):
        if isinstance(part, ast.Constant) and isinstance(part.value, bytes):
            out.append(Item("const", None, part.value.hex(), reach, loop, part))
        elif isinstance(part, ast.Call) and (df.dotted(part.func) or "") == "struct.pack" and part.args and isinstance(part.args[0], ast.Constant):
            out.append(Item("struct", part.args[0].value, ",".join(val(x) for x in part.args[1:]), reach, loop, part))
        else:
            out.append(Item("raw", None, val(part), reach, loop, part))

    def extend_call(c, reach, loop, v):
        return None

    body = func_node.body
    # bytearray builders: ba.extend(x) / ba += x are handled when stream names the bytearray
    for st in body:
        pass
    # treat `<stream>.extend(expr)` as raw writes of the concatenation parts
    def ext(c, reach, loop, v):
        fn = df.dotted(c.func) or ""
        if fn == "%s.extend" % stream and len(c.args) == 1:
            items = []
            a = c.args[0]
            if isinstance(a, ast.List):
                for e in a.elts:
                    items.append(Item("byte", None, v(e), reach, loop, c))
                return items
            for part in df.flatten_add(a):
                if isinstance(part, ast.Constant) and isinstance(part.value, bytes):
                    items.append(Item("const", None, part.value.hex(), reach, loop, c))
                elif isinstance(part, ast.Call) and (df.dotted(part.func) or "") == "struct.pack" and part.args and isinstance(part.args[0], ast.Constant):
                    items.append(Item("struct", part.args[0].value, ",".join(v(x) for x in part.args[1:]), reach, loop, c))
                else:
                    items.append(Item("raw", None, v(part), reach, loop, c))
            return items
        return None
    if extra_writers is None:
        extra_writers = ext
    block(body, True, None)
    return out


def parse_struct_calls(func_node):
    """(format string, call node) for every parse_struct(FMT, f) in the function"""
    out = []
    for c in df.calls_in(func_node):
        fn = df.dotted(c.func) or ""
        if fn.split(".")[-1] == "parse_struct" and c.args and isinstance(c.args[0], ast.Constant) and isinstance(c.args[0].value, str):
            out.append((c.args[0].value, c))
    return out


def split_layout(fmt):
    """'L[#]#' -> ['L', '[#]', '#']"""
    out = []
    i = 0
    while i < len(fmt):
        if fmt[i] == "[":
            j = fmt.index("]", i)
            out.append(fmt[i:j + 1])
            i = j + 1
        else:
            out.append(fmt[i])
            i += 1
    return out
