#!/bin/bash
# seedrun2.sh [Cxx ...]: round-2 variants straight from /tmp/seed2 (breaking b*, refactoring r*), via scratch copies (VERIF_REPO), /repo untouched
cd /verif
for d in ${SEED_ROOT:-/tmp/seed2}/C*/out/*; do
  [ -f $d/patch.diff ] || continue
  pid=$(echo $d | cut -d/ -f4); k=$(basename $d)
  if [ $# -gt 0 ] && [[ ! " $* " =~ " $pid " ]]; then continue; fi
  td=$(mktemp -d /tmp/vs-XXXXXX); cp -r /repo/pycoin $td/pycoin
  (cd $td && patch -p1 -s --no-backup-if-mismatch -i $d/patch.diff) || { echo "$pid-$k: patch failed"; rm -rf $td; continue; }
  out=$(VERIF_REPO=$td ./check $pid --no-evidence 2>&1); code=$?
  rm -rf $td
  rules=$(echo "$out" | grep -E "^VIOLATED" | awk '{print $2}' | sort -u | tr '\n' ' ')
  case "$k" in
    b*) if [ $code -eq 1 ]; then echo "$pid-$k: CAUGHT by $rules"; elif [ $code -eq 2 ]; then echo "$pid-$k: breaking -> analysis-error: $(echo "$out" | grep ANALYSIS-ERROR | head -1 | cut -c1-160)"; else echo "$pid-$k: MISSED"; fi;;
    r*) if [ $code -eq 0 ]; then echo "$pid-$k: silent"; elif [ $code -eq 1 ]; then echo "$pid-$k: FALSE ALARM by $rules"; else echo "$pid-$k: twin -> analysis-error: $(echo "$out" | grep ANALYSIS-ERROR | head -1 | cut -c1-160)"; fi;;
  esac
done
