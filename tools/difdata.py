#!/venv/bin/python
"""difdata.py <seed-name>: features of every non-`same` call-tree comparison under a seeded variant, as JSON lines (lenient pairing)."""
import os, shutil, subprocess, sys, tempfile, json, difflib
os.environ["VERIF_DIFF_POLICY"] = "lenient"
sys.path.insert(0, os.path.dirname(os.path.dirname(os.path.abspath(__file__))))
seed = sys.argv[1]
pid = seed.split("-")[0]
d = "/verif/seeded/" + seed
td = tempfile.mkdtemp(prefix="vs-", dir="/tmp")
shutil.copytree("/repo/pycoin", td + "/pycoin")
subprocess.run(["patch", "-p1", "-s", "--no-backup-if-mismatch", "-i", d + "/patch.diff"], cwd=td, check=True)
os.environ["VERIF_REPO"] = td
try:
    from sa import core, modref, sym, gi
    import importlib
    mod = importlib.import_module("rules." + pid)
    orig_cmp = sym.compare_summaries
    cur = {}

    def feats(a, b):
        ta, tb = sym._tokens(a or ""), sym._tokens(b or "")
        ch = 0; structural = False
        for tag, i1, i2, j1, j2 in difflib.SequenceMatcher(None, ta, tb, autojunk=False).get_opcodes():
            if tag == "equal":
                continue
            da, db = ta[i1:i2], tb[j1:j2]
            if any(t in ("(", ")", "[", "]", "{", "}", ",", ":", "for", "in", "if", "else", "lambda") for t in da + db):
                structural = True
            ch += max(len(da), len(db))
        return {"changed": ch, "structural": structural, "len": len(ta)}

    def cmp(code, ref, near=0.7):
        st, det = orig_cmp(code, ref, near)
        ga, _ = code.grouped(); gb, _ = ref.grouped()
        out = []
        for x in det:
            f = {"kind": x[0], "item": x[1], "ratio": round(x[4], 3)}
            if x[0] == "condition":
                k = (x[1], x[2].rsplit(" when ", 1)[0])
                fa, fb = ga.get(k), gb.get(k)
                at = lambda f_: set(a for a in (gi.f_opaques(f_) if f_ not in (True, False) else []) if isinstance(a, str))
                a_, b_ = at(fa), at(fb)
                f.update(only_code=len(a_ - b_), only_ref=len(b_ - a_), common=len(a_ & b_))
                if len(a_ - b_) == 1 and len(b_ - a_) == 1:
                    f.update(atom=feats(list(b_ - a_)[0], list(a_ - b_)[0]))
            elif x[0] == "differs":
                f.update(feats(x[2], x[3]))
            out.append(f)
        cur["last"] = (st, out)
        cur["extra"] = [list(x) for x in sym.LAST_EXTRA]
        return st, det
    sym.compare_summaries = cmp
    orig = sym.reference_status

    def rs(ctx, f, tree, rn, ints, *a, **k):
        cur.pop("last", None)
        r = orig(ctx, f, tree, rn, ints, *a, **k)
        if r[0] != "same" and "last" in cur:
            print(json.dumps({"seed": seed, "fn": rn, "status": r[0], "details": cur["last"][1], "extra": cur.get("extra", [])}))
        return r
    modref.sym.reference_status = rs
    ob = modref.obligation(pid, getattr(mod, "INTS", None))
    core.run_property(pid, [ob], "quick", None, quiet=True)
finally:
    shutil.rmtree(td, ignore_errors=True)
