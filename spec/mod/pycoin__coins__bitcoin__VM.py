"""Transcription of every function of pycoin/coins/bitcoin/VM.py as of the reviewed tree (see DESIGN.md section 12).
NEVER IMPORTED OR EXECUTED: parsed and compared in canonical form (sa/sym.py) with the functions in /repo."""


_CONSTS = {
    'VERIFY_MINIMALDATA': 64,
    'errno.INVALID_STACK_OPERATION': 17,
    'errno.UNKNOWN_ERROR': 1,
}


# pycoin/coins/bitcoin/VM.py :: BitcoinVM.pop_int
def q__BitcoinVM__pop_int(self):
    return self.IntStreamer.int_from_script_bytes(self.pop(), require_minimal=bool(self.flags & VERIFY_MINIMALDATA))


# pycoin/coins/bitcoin/VM.py :: BitcoinVM.pop_nonnegative
def q__BitcoinVM__pop_nonnegative(self):
    v = self.pop_int()
    if v < 0:
        raise ScriptError()
    return v


# pycoin/coins/bitcoin/VM.py :: BitcoinVM.push_int
def q__BitcoinVM__push_int(self, v):
    self.append(self.IntStreamer.int_to_script_bytes(v))


# pycoin/coins/bitcoin/VM.py :: BitcoinVM.bool_from_script_bytes
def q__BitcoinVM__bool_from_script_bytes(class_, v, require_minimal=False):
    int_v = class_.IntStreamer.int_from_script_bytes(v, require_minimal=require_minimal)
    if require_minimal:
        if int_v not in (class_.VM_FALSE, class_.VM_TRUE):
            raise ScriptError()
    return bool(int_v)


# pycoin/coins/bitcoin/VM.py :: BitcoinVM.bool_to_script_bytes
def q__BitcoinVM__bool_to_script_bytes(class_, v):
    return class_.VM_TRUE if v else class_.VM_FALSE


# pycoin/coins/bitcoin/VM.py :: BitcoinVM.generator_for_signature_type
def q__BitcoinVM__generator_for_signature_type(class_, signature_type):
    return secp256k1_generator
