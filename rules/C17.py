"""C17 - signed messages: structural obligations (DESIGN.md section 4, C17)."""
from __future__ import annotations

import ast

from sa.core import Ob
from sa.pm import AnalysisError, norm, body_nodes
from sa import gi, df, ru, ct, sym
from sa.pm import Undecided
from sa.gi import IntSet, iv, GuardWalker, SymbolicAtomizer
from sa.ex import EX
from rules import netbind
from rules.C18 import INFEASIBLE as PARSE_INFEASIBLE
from sa.ex import attributed

MSG = "pycoin/contrib/msg_signing.py"
U, E = IntSet.all(), IntSet.empty()

INFEASIBLE = {
    ("AssertionError", "pycoin.ecdsa.Curve.Curve.inverse_mod"): "the modulus is the prime group order and pair_for_message_hash admits only 1 <= r < order (checked by C17.3), so gcd(r, n) = 1",
    ("AssertionError", "pycoin.ecdsa.Generator.Generator.inverse"): "every shipped generator has an order",
    ("AssertionError", "pycoin.ecdsa.Generator.Generator.raw_mul"): "every shipped generator has an order",
    ("AssertionError", "pycoin.ecdsa.Curve._leftmost_bit"): "multiply returns early for e == 0",
    ("UnicodeEncodeError", "pycoin.contrib.msg_signing.MessageSigner.hash_for_signing"): "the message (not the signature) is assumed to be encodable text; the property quantifies over arbitrary SIGNATURE text",
    ("OverflowError", "pycoin.encoding.bytes32.to_bytes_32"): "recovered coordinates are reduced modulo p < 2^256",
    ("struct.error", "pycoin.satoshi.satoshi_int.stream_satoshi_int"): "each struct.pack is guarded by the value interval of its format (checked by C07.3); lengths are non-negative",
}


# ------------------------------------------------------------------ C17.1
def c17_1(ctx):
    ex = ctx.cache.setdefault("ex", EX(ctx.p, extra_resolve=netbind.make_resolver(ctx)))
    f = ctx.func(MSG, "MessageSigner.verify_message")
    # what applications call is network.msg.verify: whatever the network factory binds there is an entry point as well (a
    # wrapper around verify_message owes the same totality)
    entries = [f]
    nb = netbind.build(ctx)
    for c in ast.walk(nb["factory"].node):
        if isinstance(c, ast.Call) and isinstance(c.func, ast.Name) and c.func.id == "NetworkMsg":
            for k in c.keywords:
                if k.arg != "verify":
                    continue
                if isinstance(k.value, ast.Attribute) and k.value.attr == "verify_message":
                    ctx.ok("msg.verify-binding", sample={"network.msg.verify": norm(k.value)})
                    continue
                tg = nb["targets_of"](k.value)
                if not tg:
                    ctx.undecided("msg.verify-binding", ctx.where(nb["factory"], k.value), "network.msg.verify is bound to `%s`, which this rule cannot resolve to a function" % norm(k.value)[:60])
                for t in tg:
                    if t is not f and t not in entries:
                        entries.append(t)
    escs = [e for ent in entries for e in ex.escapes(ent)]
    for e in escs:
        owner = attributed(ctx.p, e)        # code moved into a new helper keeps the disposition of the function it came from
        why = INFEASIBLE.get((e.exc, owner)) or next((w for (ent, exc, fn), w in PARSE_INFEASIBLE.items() if exc == e.exc and fn == owner), None)
        ctx.check(why is not None, "escape:%s:%s" % (e.exc, e.func.split(".")[-1]), e.where,
                  "the message verifier (MessageSigner.verify_message / what network.msg.verify is bound to) can raise %s (from %s: `%s`, via %s): malformed or unrecoverable signature text must yield False"
                  % (e.exc, e.func.split(".", 1)[-1], e.what[:70], " -> ".join(v.split(".")[-1] for v in e.via[:6]) or "itself"),
                  what="escape:%s:%s" % (e.exc, e.func), sample={"exception": e.exc, "raised_in": e.func, "construct": e.what[:80], "disposition": why})
    ctx.ok("verify_message analysed", sample={"raw_escapes": len(escs)})
    # what verify_message itself converts
    w = sym.walk(ctx, f)
    dec = sym.calls_matching(w, ".pair_for_message_hash")
    if not dec:
        raise Undecided("verify_message does not call pair_for_message_hash")
    for e in dec:
        names = set()
        tries = sym.enclosing_tries(f.node, e.node)
        for t in tries:
            names |= sym.handler_names(t)
        ctx.check(bool(names & {"EncodingError", "ValueError", "Exception", "BaseException"}), "decode-errors-to-false", ctx.where(f, e.node), "verify_message does not convert decoding errors to False")
    # what happens on the paths where decoding raised: every one of them ends in `return False` (through a handler that
    # returns False, or through one that hands back a marker the caller turns into False)
    caught = [e for e in w.exits if e.cond not in (True, False) and any(isinstance(o, str) and o.startswith("exc@") for o in gi.f_opaques(e.cond)) and sym.entails(e.cond, gi.f_or(*[("op", o) for o in gi.f_opaques(e.cond) if isinstance(o, str) and o.startswith("exc@")]))]
    if not caught:
        raise Undecided("verify_message: no path on which a decoding error was caught")
    for e in caught:
        ctx.check(e.kind == "return" and isinstance(e.value, ast.Constant) and e.value.value is False, "handler-returns-false", ctx.where(f, e.node), "after a decoding error verify_message ends with `%s %s`, not `return False`" % (e.kind, norm(e.value) if e.value is not None else ""))
    # empty message is a message: the digest is chosen by `message is not None`
    msgp = f.params()[3]
    hs = sym.calls_matching(w, ".hash_for_signing")
    if not hs:
        raise Undecided("verify_message does not call hash_for_signing")
    r = gi.f_or(*[e.reach for e in hs])
    atom = ("op", "%s is None" % msgp)
    ops = gi.f_opaques(r) if r not in (True, False) else []
    r_dec = gi.f_or(*[e.reach for e in dec])        # of the calls that get as far as decoding, exactly those with a message hash it
    ctx.check(sym._equiv(r, gi.f_and(r_dec, gi.f_not(atom))), "message-presence-test", ctx.where(f), "verify_message hashes the message under `%s`; an empty message is still a message: the digest must be chosen by `message is not None` alone" % ops, sample={"guards": ops})
    # text that is no address of this network cannot have signed anything: the answer is False (not an AttributeError on None)
    is_false = lambda e: e.kind == "return" and isinstance(e.value, ast.Constant) and e.value.value is False
    ctx.check(sym.guard_present(w, is_false, lambda o: o.endswith(" is None") and ".parse.address(" in o), "unparseable-address-is-false", ctx.where(f),
              "verify_message does not answer False when the text it was given parses to no address (the comparison then runs on None)")
    _refcheck(ctx, "MessageSigner.verify_message", "ms_verify_message", "verify-pipeline")


_REF = None


def _ref():
    global _REF
    if _REF is None:
        import os
        _REF = ast.parse(open(os.path.join(os.path.dirname(os.path.dirname(os.path.abspath(__file__))), "spec", "ref_msg.py")).read())
    return _REF


INTS = lambda t: t in ("first", "recid", "r", "s", "x", "order", "y_parity", "flags", "header", "msg_hash") or t.startswith(("len(", "self._generator.sign_with_recid(", "self._generator.order()", "self._generator.p()", "from_bytes_32(", "sig[0]", "a2b_base64(signature)[0]")) or t.startswith("self._decode_signature(signature)[") and not t.endswith("[0]")


def _refcheck(ctx, dotted, refname, key, rel=MSG, ints=None):
    return sym.against_reference(ctx, ctx.func(rel, dotted), _ref(), refname, key, ints or INTS)


# ------------------------------------------------------------------ C17.2
def c17_2(ctx):
    d = ctx.func(MSG, "MessageSigner._decode_signature")
    sigp = d.params()[1]
    SIG = "a2b_base64(%s)" % sigp
    w = sym.int_walk(ctx, d, {"%s[0]" % SIG})
    fr_ = sym.exits_formula(w, ru.is_raise)
    s, n = sym.decisive_set(fr_, U, E)
    if s == E:
        unread = [o for e in w.exits for o in (gi.f_opaques(e.cond) if e.cond not in (True, False) else []) if isinstance(o, str) and "%s[0]" % SIG in o]
        if unread:
            raise Undecided("_decode_signature tests the header byte as `%s` (a table lookup or another form this rule does not read)" % unread[0][:80])
    if s == E:
        # the header byte reaches the range test under another name for the same byte (one field of a struct.unpack of the blob)
        alt = [o for e in w.exits for o in (gi.f_opaques(e.cond) if e.cond not in (True, False) else []) if isinstance(o, str) and ("< 27" in o or "< 35" in o or "34 <" in o or "26 <" in o) and SIG in o]
        if alt:
            raise Undecided("_decode_signature tests the header byte as `%s`; this rule reads `<decoded blob>[0]`" % alt[0][:80])
    ctx.check(s == iv(27, 34).complement(), "header-range", ctx.where(d), "_decode_signature rejects header bytes %s, must be exactly outside 27..34" % s.fmt(), sample={"subject": "first byte", "rejected": s.fmt()})
    w2 = sym.int_walk(ctx, d, {"len(%s)" % SIG})
    s2, n2 = sym.decisive_set(sym.exits_formula(w2, ru.is_raise), U, E)
    ctx.check(s2 == iv(65, 65).complement(), "signature-length", ctx.where(d), "_decode_signature rejects lengths %s, must be exactly != 65" % s2.fmt())
    _refcheck(ctx, "MessageSigner._decode_signature", "ms_decode_signature", "header-fields")
    _refcheck(ctx, "MessageSigner.signature_for_message_hash", "ms_signature_for_message_hash", "header-writer")
    # base64 errors become EncodingError
    w3 = sym.walk(ctx, d)
    b64 = sym.calls_matching(w3, lambda t: t == "a2b_base64")
    if not b64:
        raise Undecided("_decode_signature does not call a2b_base64")
    names = set()
    for t in sym.enclosing_tries(d.node, b64[0].node):
        names |= sym.handler_names(t)
    ctx.check(bool(names & {"ValueError", "Error", "Exception", "BaseException"}), "base64-errors", ctx.where(d), "_decode_signature does not turn base64 errors into EncodingError")


# ------------------------------------------------------------------ C17.3
def c17_3(ctx):
    f = ctx.func(MSG, "MessageSigner.pair_for_message_hash")
    sigp = f.params()[1]
    DEC = "self._decode_signature(%s)" % sigp
    for subj, idx in (("r", 2), ("s", 3)):
        w = sym.int_walk(ctx, f, {"%s[%d]" % (DEC, idx)}, {"self._generator.order()"})
        s, n = sym.decisive_set(sym.exits_formula(w, ru.is_raise), U, E)
        ctx.check(s == iv(1, ("s", -1)).complement(), "recovery-range:%s" % subj, ctx.where(f), "pair_for_message_hash rejects %s in %s, must be exactly outside [1, n-1]" % (subj, s.fmt("n")), sample={"subject": subj, "rejected": s.fmt("n")})
    # the point at infinity is no public key: a signature that `recovers` it is invalid
    wp = sym.walk(ctx, f)
    ctx.check(sym.guard_present(wp, ru.is_raise, lambda o: "infinity" in o and "possible_public_pairs_for_signature(" in o), "recovered-infinity-refused", ctx.where(f),
              "pair_for_message_hash hands out the point at infinity as the signer's key when the recovery yields it")
    _refcheck(ctx, "MessageSigner.pair_for_message_hash", "ms_pair_for_message_hash", "recovery-arithmetic")
    _refcheck(ctx, "MessageSigner.pair_matches_key", "ms_pair_matches_key", "key-comparison")
    _flagged_encoding_only(ctx)
    _refcheck(ctx, "Generator.possible_public_pairs_for_signature", "gen_possible_public_pairs", "recovery", rel="pycoin/ecdsa/Generator.py", ints=lambda t: t in ("r", "s", "value", "y_parity", "inv_r", "s_over_r") or t.startswith(("signature[", "self.inverse(")))


def _flagged_encoding_only(ctx):
    """an address target is compared with the hash of the recovered key in ONE encoding, the one the signature's
    compression flag names (the other encoding is another address, not the signer's)"""
    f = ctx.func(MSG, "MessageSigner.pair_matches_key")
    params = f.params()
    flag = params[3] if len(params) > 3 else None
    if flag is None:
        raise Undecided("pair_matches_key no longer takes (key, pair, is_compressed)")
    w = sym.walk(ctx, f)
    calls = [c for c in ast.walk(f.node) if isinstance(c, ast.Call) and norm(c.func).endswith("public_pair_to_hash160_sec")]
    if not calls:
        raise Undecided("pair_matches_key does not hash the recovered pair with public_pair_to_hash160_sec; this rule does not read how the address is compared")
    bound = {}       # names bound by a comprehension or a for loop of the function
    for n in ast.walk(f.node):
        if isinstance(n, ast.comprehension) or isinstance(n, ast.For):
            for x in ast.walk(n.target):
                if isinstance(x, ast.Name):
                    bound[x.id] = n.iter
    sdefs = df.single_defs(f.node)
    for c in calls:
        kw = [k.value for k in c.keywords if k.arg == "compressed"]
        a = kw[0] if kw else (c.args[1] if len(c.args) > 1 else None)
        if a is None:
            ctx.bad("flagged-encoding-only", ctx.where(f, c), "pair_matches_key hashes the recovered key in the default encoding, whatever the signature's compression flag says")
            continue
        while isinstance(a, ast.Name) and a.id in sdefs and a.id not in bound:
            a = sdefs[a.id]
        t = norm(a)
        if t in (flag, "bool(%s)" % flag, "not not %s" % flag):
            ctx.ok("flagged-encoding-only", sample={"compressed": t})
        elif isinstance(a, ast.Name) and a.id in bound:
            ctx.bad("flagged-encoding-only", ctx.where(f, c), "pair_matches_key hashes the recovered key with compressed=`%s`, which ranges over `%s`: a signature also verifies for the address of the OTHER encoding of the key, "
                    "which is not the signer's address" % (t, norm(bound[a.id])[:60]), sample={"compressed": t, "ranges_over": norm(bound[a.id])[:80]})
        elif isinstance(a, ast.Constant):
            ctx.bad("flagged-encoding-only", ctx.where(f, c), "pair_matches_key hashes the recovered key with the fixed encoding compressed=%s, whatever the signature's compression flag says" % t)
        else:
            ctx.undecided("flagged-encoding-only", ctx.where(f, c), "pair_matches_key hashes the recovered key with compressed=`%s`; this rule only reads the compression flag itself" % t[:60])


# ------------------------------------------------------------------ C17.4
def c17_4(ctx):
    f = ctx.func(MSG, "MessageSigner.hash_for_signing")
    msg = f.params()[1]
    asg = df.assignments(f.node)
    ctx.check(msg not in asg, "message-unmodified", ctx.where(f), "hash_for_signing rewrites the message before hashing it (`%s`): two different texts share one digest" % [norm(st) for v, st in asg.get(msg, [])],
              sample={"reassignments": [norm(st) for v, st in asg.get(msg, [])]})
    _refcheck(ctx, "MessageSigner.hash_for_signing", "ms_hash_for_signing", "digest")
    _refcheck(ctx, "MessageSigner.msg_magic_for_netcode", "ms_magic", "magic")
    _refcheck(ctx, "MessageSigner.sign_message", "ms_sign_message", "sign-pipeline")
    _refcheck(ctx, "MessageSigner.parse_sections", "ms_parse_sections", "armour-sections")
    # the message parse_signed_message hands back is the section of the armour as parse_sections cut it: no substitution, no
    # stripping, no case folding on the way (sign_message writes the message verbatim, so anything `undone` here was never done)
    ps = ctx.func(MSG, "MessageSigner.parse_signed_message")
    wps = sym.walk(ctx, ps)
    rets_ = [e for e in wps.exits if e.kind == "return" and isinstance(e.value, ast.Tuple) and e.value.elts]
    if not rets_:
        ctx.undecided("parsed-message-verbatim", ctx.where(ps), "parse_signed_message returns no tuple this rule can read")
    for e in rets_:
        m0 = e.value.elts[0]
        rewr = [c for c in ast.walk(m0) if isinstance(c, ast.Call) and (norm(c.func) in ("re.sub", "re.subn") or (isinstance(c.func, ast.Attribute) and c.func.attr in ("replace", "strip", "lstrip", "rstrip", "lower", "upper", "translate", "expandtabs", "sub")))]
        ctx.check(not rewr, "parsed-message-verbatim", ctx.where(ps, e.node), "parse_signed_message returns the message as `%s`: the text is rewritten after it was cut out of the armour, so a message that happens to contain what is rewritten no longer equals the signed one (and no longer verifies)" % norm(m0)[:90],
                  sample={"message_returned_as": norm(m0)[:80]})
    # the armour is split at "\n" (after DOS line ends were folded): str.splitlines() also breaks at \x0b \x0c \x1c-\x1e \x85
    # U+2028 U+2029 and a bare \r, which are legal inside the signed message and would come back as newlines
    n_sites = 0
    for fn in ("MessageSigner.parse_sections", "MessageSigner.parse_signed_message"):
        g = ctx.func(MSG, fn)
        for c in ast.walk(g.node):
            if isinstance(c, ast.Call) and isinstance(c.func, ast.Attribute):
                n_sites += 1
                ctx.check(c.func.attr != "splitlines", "armour-line-breaks:%s" % fn.split(".")[-1], ctx.where(g, c),
                          "%s breaks the text with str.splitlines(), which also splits at \\x0b, \\x0c, \\x1c-\\x1e, \\x85, U+2028, U+2029 and a bare \\r: a message containing one of them does not parse back to itself"
                          % fn, what="line-breaks:%s:%d" % (fn.split(".")[-1], n_sites))
    _refcheck(ctx, "MessageSigner.parse_signed_message", "ms_parse_signed_message", "armour-header")


OBLIGATIONS = [
    Ob("C17.1", "exception escape of verify_message is empty modulo tabulated infeasible pairs; message presence test", c17_1, floor=5, engines="EX,SYM", breaks_if="non-base64 text, r without curve point, recovery ids 2/3, empty message"),
    Ob("C17.2", "compact signature header: accepted 27..34, compressed = bit 2, recid = low two bits, length 65", c17_2, floor=5, engines="SYM,GI", breaks_if="header byte bumped by 2"),
    Ob("C17.3", "recovery arithmetic: r,s in [1,n-1]; x = r + order exactly for recid > 1; no order on key coordinates", c17_3, floor=5, engines="SYM,GI"),
    Ob("C17.4", "digest = dsha256(varstr(magic) || varstr(message)), message unmodified", c17_4, floor=6, engines="SYM", breaks_if="messages differing only in CRLF vs LF"),
]
