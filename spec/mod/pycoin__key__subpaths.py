"""Transcription of every function of pycoin/key/subpaths.py as of the reviewed tree (see DESIGN.md section 12).
NEVER IMPORTED OR EXECUTED: parsed and compared in canonical form (sa/sym.py) with the functions in /repo."""


_CONSTS = {

}


# pycoin/key/subpaths.py :: subpaths_for_path_range
def q__subpaths_for_path_range(path_range, hardening_chars="'pH"):
    if path_range == '':
        yield ''
        return

    def range_iterator(the_range):
        for r in the_range.split(','):
            is_hardened = r[-1] in hardening_chars
            hardened_char = hardening_chars[-1] if is_hardened else ''
            if is_hardened:
                r = r[:-1]
            if '-' in r:
                low, high = [int(x) for x in r.split('-', 1)]
                for t in range(low, high + 1):
                    yield ('%d%s' % (t, hardened_char))
            else:
                yield ('%s%s' % (r, hardened_char))
    components = path_range.split('/')
    iterators = [range_iterator(c) for c in components]
    for v in itertools.product(*iterators):
        yield '/'.join(v)


# pycoin/key/subpaths.py :: subpaths_for_path_range.range_iterator
def q__subpaths_for_path_range__range_iterator(the_range):
    for r in the_range.split(','):
        is_hardened = r[-1] in hardening_chars
        hardened_char = hardening_chars[-1] if is_hardened else ''
        if is_hardened:
            r = r[:-1]
        if '-' in r:
            low, high = [int(x) for x in r.split('-', 1)]
            for t in range(low, high + 1):
                yield ('%d%s' % (t, hardened_char))
        else:
            yield ('%s%s' % (r, hardened_char))
