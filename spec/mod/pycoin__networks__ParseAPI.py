"""Transcription of every function of pycoin/networks/ParseAPI.py as of the reviewed tree (see DESIGN.md section 12).
NEVER IMPORTED OR EXECUTED: parsed and compared in canonical form (sa/sym.py) with the functions in /repo."""


_CONSTS = {

}


# pycoin/networks/ParseAPI.py :: hparse
def q__hparse(api, pub_prv, key_type, s):
    data = api.parse_b58_hashed(s)
    attr_name = '_%s_%s_prefix' % (key_type, pub_prv)
    prefix = getattr(api, attr_name, None)
    if data is None or prefix is None or (not data.startswith(prefix)):
        return None
    if len(data) != 78:
        return None
    parse_method_name = '%s_deserialize' % key_type
    parse_method = getattr(api._network.keys, parse_method_name, lambda *args: None)
    try:
        return parse_method(data)
    except ValueError:
        return None


# pycoin/networks/ParseAPI.py :: ParseAPI.__init__
def q__ParseAPI____init__(self, network, bip32_prv_prefix=None, bip32_pub_prefix=None, bip49_prv_prefix=None, bip49_pub_prefix=None, bip84_prv_prefix=None, bip84_pub_prefix=None, address_prefix=None, pay_to_script_prefix=None, bech32_hrp=None, wif_prefix=None, sec_prefix=None):
    self._network = network
    self._bip32_prv_prefix = bip32_prv_prefix
    self._bip32_pub_prefix = bip32_pub_prefix
    self._bip49_prv_prefix = bip49_prv_prefix
    self._bip49_pub_prefix = bip49_pub_prefix
    self._bip84_prv_prefix = bip84_prv_prefix
    self._bip84_pub_prefix = bip84_pub_prefix
    self._address_prefix = address_prefix
    self._pay_to_script_prefix = pay_to_script_prefix
    self._bech32_hrp = bech32_hrp
    self._wif_prefix = wif_prefix
    self._sec_prefix = sec_prefix


# pycoin/networks/ParseAPI.py :: ParseAPI.parse_b58_hashed
def q__ParseAPI__parse_b58_hashed(self, s):
    return parse_b58_double_sha256(s)


# pycoin/networks/ParseAPI.py :: ParseAPI.bip32_seed
def q__ParseAPI__bip32_seed(self, s):
    pair = parse_colon_prefix(s)
    if pair is None or pair[0] not in 'HP':
        return None
    try:
        if pair[0] == 'H':
            master_secret = h2b(pair[1])
        else:
            master_secret = pair[1].encode('utf8')
        return self._network.keys.bip32_seed(master_secret)
    except ValueError:
        return None


# pycoin/networks/ParseAPI.py :: ParseAPI.hd_seed
def q__ParseAPI__hd_seed(self, s):
    pair = parse_colon_prefix(s)
    if pair is None or pair[0] not in 'HP':
        return None
    try:
        if pair[0] == 'H':
            master_secret = h2b(pair[1])
        else:
            master_secret = pair[1].encode('utf8')
        return self._network.keys.bip32_seed(master_secret)
    except ValueError:
        return None


# pycoin/networks/ParseAPI.py :: ParseAPI.bip32_prv
def q__ParseAPI__bip32_prv(self, s):
    return hparse(self, 'prv', 'bip32', s)


# pycoin/networks/ParseAPI.py :: ParseAPI.bip32_pub
def q__ParseAPI__bip32_pub(self, s):
    return hparse(self, 'pub', 'bip32', s)


# pycoin/networks/ParseAPI.py :: ParseAPI.bip32
def q__ParseAPI__bip32(self, s):
    s = parseable_str(s)
    return self.bip32_prv(s) or self.bip32_pub(s)


# pycoin/networks/ParseAPI.py :: ParseAPI.bip49_prv
def q__ParseAPI__bip49_prv(self, s):
    return hparse(self, 'prv', 'bip49', s)


# pycoin/networks/ParseAPI.py :: ParseAPI.bip49_pub
def q__ParseAPI__bip49_pub(self, s):
    return hparse(self, 'pub', 'bip49', s)


# pycoin/networks/ParseAPI.py :: ParseAPI.bip49
def q__ParseAPI__bip49(self, s):
    s = parseable_str(s)
    return self.bip49_prv(s) or self.bip49_pub(s)


# pycoin/networks/ParseAPI.py :: ParseAPI.bip84_prv
def q__ParseAPI__bip84_prv(self, s):
    return hparse(self, 'prv', 'bip84', s)


# pycoin/networks/ParseAPI.py :: ParseAPI.bip84_pub
def q__ParseAPI__bip84_pub(self, s):
    return hparse(self, 'pub', 'bip84', s)


# pycoin/networks/ParseAPI.py :: ParseAPI.bip84
def q__ParseAPI__bip84(self, s):
    s = parseable_str(s)
    return self.bip84_prv(s) or self.bip84_pub(s)


# pycoin/networks/ParseAPI.py :: ParseAPI._electrum_to_blob
def q__ParseAPI___electrum_to_blob(self, s):
    pair = parse_colon_prefix(s)
    if pair is None or pair[0] != 'E':
        return None
    try:
        return h2b(pair[1])
    except ValueError:
        return None


# pycoin/networks/ParseAPI.py :: ParseAPI.electrum_seed
def q__ParseAPI__electrum_seed(self, s):
    blob = self._electrum_to_blob(s)
    if blob and len(blob) == 16:
        blob_hex = b2h(blob)
        try:
            return self._network.keys.electrum_seed(seed=blob_hex)
        except ValueError:
            return None
    return None


# pycoin/networks/ParseAPI.py :: ParseAPI.electrum_prv
def q__ParseAPI__electrum_prv(self, s):
    blob = self._electrum_to_blob(s)
    if blob and len(blob) == 32:
        mpk = from_bytes_32(blob)
        try:
            return self._network.keys.electrum_private(master_private_key=mpk)
        except ValueError:
            return None
    return None


# pycoin/networks/ParseAPI.py :: ParseAPI.electrum_pub
def q__ParseAPI__electrum_pub(self, s):
    blob = self._electrum_to_blob(s)
    if blob and len(blob) == 64:
        try:
            return self._network.keys.electrum_public(master_public_key=blob)
        except ValueError:
            return None
    return None


# pycoin/networks/ParseAPI.py :: ParseAPI.p2pkh
def q__ParseAPI__p2pkh(self, s):
    data = self.parse_b58_hashed(s)
    if data is None or self._address_prefix is None or (not data.startswith(self._address_prefix)):
        return None
    size = len(self._address_prefix)
    if len(data) != size + 20:
        return None
    script = self._network.contract.for_p2pkh(data[size:])
    script_info = self._network.contract.info_for_script(script)
    return Contract(script_info, self._network)


# pycoin/networks/ParseAPI.py :: ParseAPI.p2sh
def q__ParseAPI__p2sh(self, s):
    data = self.parse_b58_hashed(s)
    if None in (data, self._pay_to_script_prefix) or not data.startswith(self._pay_to_script_prefix):
        return None
    size = len(self._pay_to_script_prefix)
    if len(data) != size + 20:
        return None
    script = self._network.contract.for_p2sh(data[size:])
    script_info = self._network.contract.info_for_script(script)
    return Contract(script_info, self._network)


# pycoin/networks/ParseAPI.py :: ParseAPI._bech32m
def q__ParseAPI___bech32m(self, s, expected_version, blob_len, segwit_attr):
    v = parse_bech32(s)
    if v is None:
        return None
    hr_prefix, version, decoded_data, spec = v
    script_f = getattr(self._network.contract, segwit_attr, None)
    if script_f is None:
        return None
    if hr_prefix != self._bech32_hrp:
        return None
    if len(decoded_data) != blob_len:
        return None
    if expected_version != version:
        return None
    if version == 0 and spec != bech32m.Encoding.BECH32:
        return None
    if version != 0 and spec != bech32m.Encoding.BECH32M:
        return None
    script = script_f(decoded_data)
    script_info = self._network.contract.info_for_script(script)
    return Contract(script_info, self._network)


# pycoin/networks/ParseAPI.py :: ParseAPI.p2pkh_segwit
def q__ParseAPI__p2pkh_segwit(self, s):
    return self._bech32m(s, 0, 20, 'for_p2pkh_wit')


# pycoin/networks/ParseAPI.py :: ParseAPI.p2sh_segwit
def q__ParseAPI__p2sh_segwit(self, s):
    return self._bech32m(s, 0, 32, 'for_p2sh_wit')


# pycoin/networks/ParseAPI.py :: ParseAPI.p2tr
def q__ParseAPI__p2tr(self, s):
    return self._bech32m(s, 1, 32, 'for_p2tr')


# pycoin/networks/ParseAPI.py :: ParseAPI.script
def q__ParseAPI__script(self, s):
    try:
        script = self._network.script.compile(s)
        script_info = self._network.contract.info_for_script(script)
        return Contract(script_info, self._network)
    except Exception:
        return None


# pycoin/networks/ParseAPI.py :: ParseAPI.as_number
def q__ParseAPI__as_number(self, s):
    try:
        return int(s)
    except ValueError:
        pass
    try:
        return int(s, 16)
    except ValueError:
        pass
    return None


# pycoin/networks/ParseAPI.py :: ParseAPI.wif
def q__ParseAPI__wif(self, s):
    data = self.parse_b58_hashed(s)
    if data is None or self._wif_prefix is None or (not data.startswith(self._wif_prefix)):
        return None
    data = data[len(self._wif_prefix):]
    if len(data) not in (32, 33):
        return None
    is_compressed = len(data) == 33
    if is_compressed:
        if data[-1:] != b'\x01':
            return None
        data = data[:-1]
    se = from_bytes_32(data)
    try:
        return self._network.keys.private(se, is_compressed=is_compressed)
    except ValueError:
        return None


# pycoin/networks/ParseAPI.py :: ParseAPI.secret_exponent
def q__ParseAPI__secret_exponent(self, s):
    v = self.as_number(s)
    if v:
        try:
            return self._network.keys.private(v)
        except ValueError:
            pass
    return None


# pycoin/networks/ParseAPI.py :: ParseAPI.public_pair
def q__ParseAPI__public_pair(self, s):
    point = None
    Key = self._network.keys.private
    generator = Key(1)._generator
    for c in ',/':
        if c in s:
            s0, s1 = s.split(c, 1)
            v0 = self.as_number(s0)
            if v0:
                if s1 in ('even', 'odd'):
                    is_y_odd = s1 == 'odd'
                    try:
                        point = generator.points_for_x(v0)[is_y_odd]
                    except ValueError:
                        return None
                v1 = self.as_number(s1)
                if v1:
                    if generator.contains_point(v0, v1):
                        point = generator.Point(v0, v1)
    if point:
        return self._network.keys.public(point)
    return None


# pycoin/networks/ParseAPI.py :: ParseAPI.sec
def q__ParseAPI__sec(self, s):
    pair = parse_colon_prefix(s)
    if pair is not None and self._sec_prefix == pair[0] + ':':
        s = pair[1]
    try:
        sec = h2b(s)
        return self._network.keys.public(sec)
    except Exception:
        pass
    return None


# pycoin/networks/ParseAPI.py :: ParseAPI.address
def q__ParseAPI__address(self, s):
    ps = parseable_str(s)
    return self.p2pkh(ps) or self.p2sh(ps) or self.p2pkh_segwit(ps) or self.p2sh_segwit(ps) or self.p2tr(ps)


# pycoin/networks/ParseAPI.py :: ParseAPI.payable
def q__ParseAPI__payable(self, s):
    ps = parseable_str(s)
    return self.address(ps) or self.script(ps)


# pycoin/networks/ParseAPI.py :: ParseAPI.hierarchical_key
def q__ParseAPI__hierarchical_key(self, s):
    ps = parseable_str(s)
    for f in [self.bip32_seed, self.bip32, self.bip49, self.bip84, self.electrum_seed, self.electrum_prv, self.electrum_pub]:
        v = f(ps)
        if v:
            return v
    return None


# pycoin/networks/ParseAPI.py :: ParseAPI.private_key
def q__ParseAPI__private_key(self, s):
    ps = parseable_str(s)
    for f in [self.wif, self.secret_exponent]:
        v = f(ps)
        if v:
            return v
    return None


# pycoin/networks/ParseAPI.py :: ParseAPI.secret
def q__ParseAPI__secret(self, s):
    ps = parseable_str(s)
    for f in [self.private_key, self.hierarchical_key]:
        v = f(ps)
        if v:
            return v
    return None


# pycoin/networks/ParseAPI.py :: ParseAPI.public_key
def q__ParseAPI__public_key(self, s):
    ps = parseable_str(s)
    for f in [self.public_pair, self.sec]:
        v = f(ps)
        if v:
            return v
    return None


# pycoin/networks/ParseAPI.py :: ParseAPI.input
def q__ParseAPI__input(self, s):
    return None


# pycoin/networks/ParseAPI.py :: ParseAPI.tx
def q__ParseAPI__tx(self, s):
    return None


# pycoin/networks/ParseAPI.py :: ParseAPI.spendable
def q__ParseAPI__spendable(self, s):
    return None


# pycoin/networks/ParseAPI.py :: ParseAPI.script_preimage
def q__ParseAPI__script_preimage(self, s):
    return None


# pycoin/networks/ParseAPI.py :: ParseAPI.__call__
def q__ParseAPI____call__(self, s):
    ps = parseable_str(s)
    return self.payable(ps) or self.secret(ps)
