"""Transcription of every function of pycoin/satoshi/satoshi_streamer.py as of the reviewed tree (see DESIGN.md section 12).
NEVER IMPORTED OR EXECUTED: parsed and compared in canonical form (sa/sym.py) with the functions in /repo."""


_CONSTS = {

}


