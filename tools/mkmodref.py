#!/usr/bin/env python3
"""mkmodref.py <relpath> ... : write /verif/spec/mod/<module>.py, the transcription of EVERY function (methods and nested
functions included) of a module of /repo, with the module-level constants they use.  Used once, when a module's functions are
accepted as the reviewed baseline; the checks only PARSE these files (never import or run them)."""
import ast
import os
import sys
sys.path.insert(0, "/verif")
from sa.pm import Program, norm          # noqa: E402
from sa.core import Ctx                  # noqa: E402
from sa import sym                       # noqa: E402

p = Program()
ctx = Ctx(p, "quick")
out_dir = "/verif/spec/mod"
os.makedirs(out_dir, exist_ok=True)
open(os.path.join(out_dir, "__init__.py"), "a").close()


def clean(f, name):
    node = ast.parse(ast.unparse(f.node)).body[0]
    node.name = name
    node.decorator_list = []
    for fn in ast.walk(node):
        if isinstance(fn, (ast.FunctionDef, ast.AsyncFunctionDef, ast.Lambda)):
            for a in fn.args.args + fn.args.kwonlyargs + fn.args.posonlyargs + ([fn.args.vararg] if fn.args.vararg else []) + ([fn.args.kwarg] if fn.args.kwarg else []):
                a.annotation = None
            if not isinstance(fn, ast.Lambda):
                fn.returns = None
    for n in ast.walk(node):
        if isinstance(n, (ast.FunctionDef, ast.ClassDef)) and n.body and isinstance(n.body[0], ast.Expr) and isinstance(n.body[0].value, ast.Constant) and isinstance(n.body[0].value.value, str):
            n.body = n.body[1:] or [ast.Pass()]
        if isinstance(n, ast.Raise) and isinstance(n.exc, ast.Call):
            n.exc.args = []
            n.exc.keywords = []

    class T(ast.NodeTransformer):
        def visit_AnnAssign(self, n):
            if n.value is None:
                return None
            return ast.copy_location(ast.Assign([n.target], n.value), n)
    node = T().visit(node)
    ast.fix_missing_locations(node)
    return ast.unparse(node)


for rel in sys.argv[1:]:
    m = p.module(rel)
    funcs = sorted([(q, f) for q, f in p.functions.items() if f.module is m and not isinstance(f.node, ast.Lambda)], key=lambda kv: kv[1].node.lineno)
    consts = {}
    parts = []
    for q, f in funcs:
        dotted = q[len(m.name) + 1:]
        co = sym.make_const_of(ctx, f)
        for n in ast.walk(f.node):
            if isinstance(n, (ast.Name, ast.Attribute)) and isinstance(getattr(n, "ctx", None), ast.Load):
                v = co(n)
                if isinstance(v, (int, bytes, str)) and not isinstance(v, bool):
                    consts[norm(n)] = v
                elif isinstance(v, (tuple, list)) and all(isinstance(x, (int, bytes, str)) for x in v):
                    consts[norm(n)] = tuple(v)
        parts.append("# %s :: %s\n%s\n" % (rel, dotted, clean(f, "q__" + dotted.replace(".", "__").replace("<", "").replace(">", ""))))
    hdr = '"""Transcription of every function of %s as of the reviewed tree (see DESIGN.md section 12).\nNEVER IMPORTED OR EXECUTED: parsed and compared in canonical form (sa/sym.py) with the functions in /repo."""\n\n\n_CONSTS = {\n%s\n}\n\n\n' % (
        rel, "\n".join("    %r: %r," % (k, consts[k]) for k in sorted(consts)))
    dest = os.path.join(out_dir, m.name.replace(".", "__") + ".py")
    open(dest, "w").write(hdr + "\n\n".join(parts))
    ast.parse(open(dest).read())
    print(rel, len(funcs), "functions,", len(consts), "constants ->", dest)
