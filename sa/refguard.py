"""Older rules read particular spellings.  `guarded(fn, resolver)` makes such a rule subordinate to the reference
transcription of the function it looks at: a failure on a function whose canonical form EQUALS the reviewed transcription
is dropped (the spelling changed, not the behaviour); on a function organised differently (components of the reference
without a counterpart) it is reported as undecided; when every component has a counterpart and some differ -- decisively
or not: two witnesses, the rule and the shape -- or when no reference exists, it stands.

resolver(ctx, fi) -> (reference tree, reference name(s), int_names) or None."""
from __future__ import annotations

import ast
import os

from .pm import AnalysisError, Undecided
from . import sym


def func_at(ctx, where):
    try:
        rel, line = where.rsplit(":", 1)
        line = int(line)
        m = ctx.p.module(rel)
    except Exception:
        return None
    best = None
    for f in ctx.p.functions.values():
        if f.module is m and not isinstance(f.node, ast.Lambda) and f.node.lineno <= line <= (f.node.end_lineno or f.node.lineno):
            if best is None or f.node.lineno >= best.node.lineno:
                best = f
    return best


def status(ctx, fi, resolver):
    cache = ctx.cache.setdefault("refguard", {})
    if fi.qualname in cache:
        return cache[fi.qualname]
    r = resolver(ctx, fi)
    if r is None:
        st = ("none", [])
    else:
        tree, names, ints = r
        try:
            s, details, s_ref, rn = sym.reference_status(ctx, fi, tree, names, ints)
            st = (s, details)
        except Exception as e:      # the engine could not read the function: no information
            st = ("unrecognised", [("error", "engine", str(e)[:80], None, 0.0)])
    cache[fi.qualname] = st
    return st


def guarded(fn, resolver, near_stands=True):
    """near_stands=False for rules that only match source text: on a function whose every component has a counterpart but
    differs by more than a token they have no evidence of their own"""
    def run(ctx):
        orig_bad = ctx.bad

        def bad(key, where, msg, sample=None):
            if os.environ.get("VERIF_NO_GUARD") == "1":     # self-test: on the reviewed tree every guarded rule must hold on its own
                return orig_bad(key, where, msg, sample)
            fi = func_at(ctx, where)
            st = status(ctx, fi, resolver)[0] if fi is not None else "none"
            if st == "same":
                ctx.ok("spelling-only:%s" % key, nontrivial=False)
            elif st == "unrecognised" or (st == "near" and not near_stands):
                ctx.undecided(key, where, msg)
            else:
                orig_bad(key, where, msg, sample)

        def check(cond, key, where, msg, what=None, sample=None, text=False, semantic=False):
            if cond:
                ctx.ok(what or key, sample)
                return True
            if semantic:
                # a clause about what ANY correct spelling must contain (a necessary condition of the behaviour): it has evidence
                # of its own on a function organised differently from the transcription
                orig_bad(key, where, msg, sample)
                return False
            if text and os.environ.get("VERIF_NO_GUARD") != "1":
                # a check that reads spelling: on a function whose every component has a counterpart but differs by more than
                # a token it has no evidence of its own
                fi = func_at(ctx, where)
                if fi is not None and status(ctx, fi, resolver)[0] == "near":
                    ctx.undecided(key, where, msg)
                    return False
            bad(key, where, msg, sample)
            return False
        ctx.bad, ctx.check = bad, check
        try:
            fn(ctx)
        except AnalysisError as e:
            raise Undecided("the older rule could not read the code (%s)" % e)
        finally:
            ctx.__dict__.pop("bad", None)
            ctx.__dict__.pop("check", None)
    run.__name__ = getattr(fn, "__name__", "rule")
    return run
