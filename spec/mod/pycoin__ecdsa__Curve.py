"""Transcription of every function of pycoin/ecdsa/Curve.py as of the reviewed tree (see DESIGN.md section 12).
NEVER IMPORTED OR EXECUTED: parsed and compared in canonical form (sa/sym.py) with the functions in /repo."""


_CONSTS = {

}


# pycoin/ecdsa/Curve.py :: _leftmost_bit
def q___leftmost_bit(x):
    assert x > 0
    result = 1
    while result <= x:
        result <<= 1
    return result >> 1


# pycoin/ecdsa/Curve.py :: Curve.__init__
def q__Curve____init__(self, p, a, b, order=None):
    self._p = p
    self._a = a
    self._b = b
    self._order = order
    self._infinity = Point(None, None, self)


# pycoin/ecdsa/Curve.py :: Curve.p
def q__Curve__p(self):
    return self._p


# pycoin/ecdsa/Curve.py :: Curve.order
def q__Curve__order(self):
    return self._order


# pycoin/ecdsa/Curve.py :: Curve.infinity
def q__Curve__infinity(self):
    return self._infinity


# pycoin/ecdsa/Curve.py :: Curve.contains_point
def q__Curve__contains_point(self, x, y):
    if x is None and y is None:
        return True
    assert x is not None and y is not None
    if not (0 <= x < self._p and 0 <= y < self._p):
        return False
    return (y * y - (x * x * x + self._a * x + self._b)) % self._p == 0


# pycoin/ecdsa/Curve.py :: Curve.add
def q__Curve__add(self, p0, p1):
    p = self._p
    infinity = self._infinity
    if p0 == infinity:
        return p1
    if p1 == infinity:
        return p0
    x0, y0 = p0
    x1, y1 = p1
    assert x0 is not None and y0 is not None
    assert x1 is not None and y1 is not None
    if (x0 - x1) % p == 0:
        if (y0 + y1) % p == 0:
            return infinity
        else:
            slope = (3 * x0 * x0 + self._a) * self.inverse_mod(2 * y0, p) % p
    else:
        slope = (y1 - y0) * self.inverse_mod(x1 - x0, p) % p
    x3 = (slope * slope - x0 - x1) % p
    y3 = (slope * (x0 - x3) - y0) % p
    return self.Point(x3, y3)


# pycoin/ecdsa/Curve.py :: Curve.multiply
def q__Curve__multiply(self, p, e):
    if self._order:
        e %= self._order
    if p == self._infinity or e == 0:
        return self._infinity
    e3 = 3 * e
    i = _leftmost_bit(e3) >> 1
    result = p
    while i > 1:
        result += result
        if e3 & i:
            v = [result, result + p]
        else:
            v = [result - p, result]
        result = v[0 if e & i else 1]
        i >>= 1
    return result


# pycoin/ecdsa/Curve.py :: Curve.inverse_mod
def q__Curve__inverse_mod(self, a, m):
    if a < 0 or m <= a:
        a = a % m
    c, d = (a, m)
    uc, vc, ud, vd = (1, 0, 0, 1)
    while c != 0:
        q, c, d = divmod(d, c) + (c,)
        uc, vc, ud, vd = (ud - q * uc, vd - q * vc, uc, vc)
    assert d == 1
    if ud > 0:
        return ud
    else:
        return ud + m


# pycoin/ecdsa/Curve.py :: Curve.Point
def q__Curve__Point(self, x, y):
    return Point(x, y, self)


# pycoin/ecdsa/Curve.py :: Curve.__repr__
def q__Curve____repr__(self):
    return '{}({!r},{!r},{!r})'.format(self.__class__.__name__, self._p, self._a, self._b)


# pycoin/ecdsa/Curve.py :: Curve.__str__
def q__Curve____str__(self):
    return 'y^2 = x^3 + {}*x + {} (mod {})'.format(self._a, self._b, self._p)
