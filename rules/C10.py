"""C10 - WIF / SEC / DER encodings: structural obligations (DESIGN.md section 4, C10)."""
from __future__ import annotations

import ast
import re

from sa.core import Ob
from sa.pm import AnalysisError, norm, body_nodes
from sa import gi, df, ru
from sa.gi import IntSet, FinSet, iv, GuardWalker, SymbolicAtomizer, FiniteAtomizer, reach_sets
from sa.cfg import stmt_paths, struct_dominates

SEC = "pycoin/encoding/sec.py"
KEY = "pycoin/key/Key.py"
DER = "pycoin/satoshi/der.py"
PARSE = "pycoin/networks/ParseAPI.py"
U, E = IntSet.all(), IntSet.empty()


# ------------------------------------------------------------------ C10.1
def c10_1(ctx):
    f = ctx.func(SEC, "sec_to_public_pair")
    secp, genp, strictp = f.params()[:3]
    it = ctx.interp
    from sa.interp import Frame
    mv = it.module(f.module.name)
    B = 32
    lens = {"c": 1 + B, "u": 1 + 2 * B, "o": 10, "e": 0, "u+1": 2 + 2 * B, "c-1": B}
    domain = [(p, k) for p in range(256) for k in lens]
    defs = df.single_defs(f.node)

    def evalf(expr, v):
        p, k = v
        sec = (bytes([p]) + b"\0" * (lens[k] - 1)) if lens[k] else b""
        env = {secp: sec, "byte_count": B}
        for nm in ("sec0",):
            if nm in defs:
                env[nm] = it.eval(defs[nm], Frame(mv, None, dict(env)))
        val = it.eval(expr, Frame(mv, None, env))
        from sa.interp import Unknown
        if isinstance(val, Unknown):
            raise ValueError("unknown")
        return bool(val)
    fa = FiniteAtomizer(domain, evalf)
    w = GuardWalker(fa)
    exits = w.run(f.node.body)
    rets = [e for e in exits if e.kind == "return"]
    if not rets:
        raise AnalysisError("sec_to_public_pair: no returning exit")
    strict_atom = strictp
    acc = fa.empty()
    lenient = fa.empty()
    for e in rets:
        acc = acc | gi.sat_set(e.cond, fa.univ(), fa.empty(), assume={strict_atom: True})
        lenient = lenient | gi.sat_set(e.cond, fa.univ(), fa.empty(), assume={strict_atom: False})
    ops = set()
    for e in exits:
        ops |= set(gi.f_opaques(e.cond))
    if strict_atom not in ops:
        raise AnalysisError("sec_to_public_pair: the `%s` flag is not a recognisable guard atom (%s)" % (strictp, sorted(ops)))
    want = {(4, "u"), (2, "c"), (3, "c")}
    ctx.check(acc.m == want, "strict-decision-table", ctx.where(f),
              "sec_to_public_pair(strict=True) accepts (prefix byte, length class) %s; the unique encodings are exactly %s"
              % (sorted(acc.m)[:12], sorted(want)),
              sample={"function": f.qualname, "domain": "256 prefix bytes x %d length classes" % len(lens), "strict_accepts": sorted(acc.m),
                      "lenient_accepts": sorted(lenient.m)[:20], "cells": fa.evaluated})
    ctx.note("lenient (consensus) row: %d cells accepted" % len(lenient.m))
    # every failing cell raises EncodingError (no fall-through / None)
    other = [e for e in exits if e.kind not in ("return", "raise")]
    ctx.check(not other, "sec-fails-by-raising", ctx.where(f), "sec_to_public_pair has an exit that neither returns a point nor raises")
    bad_r = [e for e in exits if e.kind == "raise" and not ru.is_raise_of("EncodingError")(e) and e.value is not None]
    ctx.check(not bad_r, "sec-error-type", ctx.where(f), "sec_to_public_pair raises something other than EncodingError")
    # coordinates compared with the field prime before a point is returned
    const = ru.const_resolver(ctx, f, {"%s.p()" % genp})
    for coord in ("x", "y"):
        uses = [e for e in rets if coord in df.names_in(df.expand(e.value, {}))] if coord == "y" else rets
        if not uses:
            ctx.bad("coordinate-%s-used" % coord, ctx.where(f), "no returning exit uses %s" % coord)
            continue
        w2 = GuardWalker(SymbolicAtomizer(ru.subject({coord}), const))
        ex2 = w2.run(f.node.body)
        for e in ex2:
            if e.kind != "return":
                continue
            if coord == "y" and "y" not in df.names_in(e.value):
                continue
            s = gi.sat_set(e.cond, U, E, assume={genp: True})
            want_s = iv(None, ("s", -1))
            ctx.check(s.issubset(want_s), "coordinate-below-p:%s:%s" % (coord, norm(e.value)[:30]), ctx.where(f, e.node),
                      "sec_to_public_pair returns `%s` for %s in %s: a coordinate >= p is accepted, so one point has several encodings (and addresses)"
                      % (norm(e.value)[:60], coord, s.fmt("p")),
                      sample={"exit": norm(e.value)[:60], "coordinate": coord, "accepted": s.fmt("p")})
    # byte_count derived from the field size
    bc = defs.get("byte_count")
    ctx.check(bc is not None and "%s.p().bit_length()" % genp in norm(bc), "byte-count", ctx.where(f), "byte_count is not derived from generator.p().bit_length()")
    # Key.from_sec uses the strict default
    g = ctx.func(KEY, "Key.from_sec")
    cs = [c for c in df.calls_in(g.node) if df.last_attr(c) == "sec_to_public_pair"]
    ok = len(cs) == 1 and not any(k.arg == "strict" for k in cs[0].keywords) and len(cs[0].args) <= 2
    a = f.node.args
    dflt = dict(zip([x.arg for x in a.args][len(a.args) - len(a.defaults):], a.defaults))
    ok = ok and isinstance(dflt.get(strictp), ast.Constant) and dflt[strictp].value is True
    ctx.check(ok, "from-sec-strict", ctx.where(g), "Key.from_sec does not decode in strict mode")
    # encoder: prefix 2 + parity / 4, 32-byte big-endian coordinates
    h = ctx.func(SEC, "public_pair_to_sec")
    txt = norm(h.node)
    ctx.check("bytes([2 + (public_pair[1] & 1)]) + x_str" in txt and "b'\\x04' + x_str + y_str" in txt, "sec-encoder", ctx.where(h),
              "public_pair_to_sec does not emit 02/03||x (parity of y) or 04||x||y")


# ------------------------------------------------------------------ C10.2
def c10_2(ctx):
    f = ctx.func(KEY, "Key.__init__")
    const = ru.const_resolver(ctx, f, {"self._generator.order()"})
    w = GuardWalker(SymbolicAtomizer(ru.subject({"self._secret_exponent"}), const, truthy_is_nonzero=False))
    exits = w.run(f.node.body)
    pred = lambda e: ru.is_raise_of("InvalidSecretExponentError")(e)
    s = E
    for e in exits:
        if pred(e):
            s = s | gi.sat_set(e.cond, U, E, assume={"self._secret_exponent is not None": True})
    want = iv(1, ("s", -1)).complement()
    ctx.check(s == want, "secret-exponent-range", ctx.where(f),
              "Key.__init__ refuses secret exponents in %s; the property requires exactly %s" % (s.fmt("n"), want.fmt("n")),
              sample={"subject": "self._secret_exponent", "refused": s.fmt("n")})
    w = GuardWalker(ru.opaque)
    exits = w.run(f.node.body)
    pp = [e for e in exits if ru.is_raise_of("InvalidPublicPairError")(e)]
    ok = len(pp) == 1
    if ok:
        ops = gi.f_opaques(pp[0].cond)
        ok = any(o.startswith("None in") for o in ops) and any("contains_point(*self._public_pair)" in o for o in ops)
        # raised when None in pair OR not contains_point
        ok = ok and gi.f_equiv(gi.f_or(*[("op", o) if o.startswith("None in") else ("not", ("op", o)) for o in ops if o.startswith("None in") or "contains_point" in o]),
                               _project(pp[0].cond, [o for o in ops if o.startswith("None in") or "contains_point" in o]))
    ctx.check(ok, "public-pair-validated", ctx.where(f), "Key.__init__ does not raise InvalidPublicPairError exactly when the pair contains None or is off the curve")
    one = [e for e in exits if e.kind == "raise" and ru.is_raise_of("ValueError")(e)]
    ok = len(one) >= 1 and any(".count(None) != 1" in o for o in gi.f_opaques(one[0].cond))
    ctx.check(ok, "exactly-one-of", ctx.where(f), "Key.__init__ does not insist on exactly one of secret_exponent / public_pair")


def _project(f, keep):
    """existentially quantify the opaque atoms not in keep (returns a formula over `keep` as a truth table disjunction)"""
    import itertools
    ops = gi.f_opaques(f)
    rest = [o for o in ops if o not in keep]
    dom, emp = FinSet({0}, frozenset({0})), FinSet((), frozenset({0}))
    terms = []
    for bits in itertools.product((False, True), repeat=len(keep)):
        a = dict(zip(keep, bits))
        sat = False
        for b2 in itertools.product((False, True), repeat=len(rest)):
            a2 = dict(a)
            a2.update(zip(rest, b2))
            if not gi.f_eval(f, a2, dom, emp).is_empty():
                sat = True
                break
        if sat:
            terms.append(gi.f_and(*[("op", k) if v else ("not", ("op", k)) for k, v in a.items()]))
    return gi.f_or(*terms)


# ------------------------------------------------------------------ C10.3
def c10_3(ctx):
    f = ctx.func(PARSE, "ParseAPI.wif")
    body = f.node.body
    strips = [st for st in body_nodes(f.node) if isinstance(st, ast.Assign) and isinstance(st.value, ast.Subscript)
              and isinstance(st.value.slice, ast.Slice) and st.value.slice.lower is not None and "len(self._wif_prefix)" in norm(st.value.slice.lower)
              and st.value.slice.upper is None]
    if len(strips) != 1:
        ctx.bad("wif-prefix-strip", ctx.where(f), "ParseAPI.wif: no single statement stripping exactly len(self._wif_prefix) bytes")
        return
    strip = strips[0]
    payload = norm(strip.targets[0])
    paths = stmt_paths(f.node)
    # every test of the payload length must come after the strip
    tests = []
    for n in body_nodes(f.node):
        if isinstance(n, ast.Compare) and ("len(%s)" % payload) in norm(n):
            st = _stmt_of(f.node, n)
            tests.append((n, st))
    for n, st in tests:
        ctx.check(struct_dominates(paths, strip, st), "length-test-after-strip", ctx.where(f, st),
                  "ParseAPI.wif: `%s` is evaluated before the network prefix (1 or 2 bytes) has been stripped: payload lengths are "
                  "wrong on networks with a two-byte WIF prefix" % norm(n), what="len-test:%s" % norm(n))
    # walk the statements after the strip
    owner_block = None
    for n in ast.walk(f.node):
        for name in ("body", "orelse"):
            blk = getattr(n, name, None)
            if isinstance(blk, list) and strip in blk:
                owner_block = blk
    rest = owner_block[owner_block.index(strip) + 1:]
    const = ru.const_resolver(ctx, f, set())
    w = GuardWalker(SymbolicAtomizer(ru.subject({"len(%s)" % payload}), const))
    w.run(rest)
    calls = [(st, r) for st, r in w.visits if any(isinstance(c, ast.Call) and norm(c.func).endswith("keys.private") for c in ast.walk(st))]
    for e in w.exits:
        if e.kind == "return" and e.value is not None and any(isinstance(c, ast.Call) and norm(c.func).endswith("keys.private") for c in ast.walk(e.value)):
            calls.append((e.node, e.cond))
    if not calls:
        raise AnalysisError("ParseAPI.wif: call of keys.private not found after the strip")
    for st, r in calls:
        s = gi.sat_set(r, U, E)
        want = iv(32, 33)
        ctx.check(s == want, "wif-payload-length", ctx.where(f, st),
                  "ParseAPI.wif builds a key for payload lengths %s; a WIF payload is 32 bytes, or 33 with the compression marker" % s.fmt(),
                  sample={"subject": "len(%s) after prefix strip" % payload, "accepted": s.fmt()})
        # marker: with 33 bytes the last byte must have been compared with 01
        ops = gi.f_opaques(r)
        mk = [o for o in ops if ("%s[-1" % payload in o or "%s[32" % payload in o) and ("\\x01" in o or " 1" in o)]
        ctx.check(bool(mk), "wif-marker-checked", ctx.where(f, st), "ParseAPI.wif does not compare the 33rd byte with the compression marker 01 (guards: %s)" % ops,
                  sample={"guards": ops})
        # is_compressed <=> 33 bytes
        kws = [k for c in ast.walk(st) if isinstance(c, ast.Call) and norm(c.func).endswith("keys.private") for k in c.keywords if k.arg == "is_compressed"]
        okc = False
        if kws:
            v = kws[0].value
            fml = w.env.get(norm(v)) if isinstance(v, ast.Name) else None
            if fml is None and isinstance(v, ast.Name):
                d = df.single_defs(f.node).get(v.id)
                if d is not None:
                    fml = SymbolicAtomizer(ru.subject({"len(%s)" % payload}), const)(d) if not isinstance(d, ast.BoolOp) else None
            if fml is not None:
                okc = gi.sat_set(fml, U, E) == iv(33, 33) or gi.sat_set(gi.f_and(fml, r), U, E) == iv(33, 33)
        ctx.check(okc, "wif-compressed-flag", ctx.where(f, st), "ParseAPI.wif: is_compressed is not `payload has 33 bytes`")
    # ValueError from the key constructor is converted to None
    tries = [n for n in body_nodes(f.node) if isinstance(n, ast.Try) and any(isinstance(c, ast.Call) and norm(c.func).endswith("keys.private") for s in n.body for c in ast.walk(s))]
    ok = any(h.type is not None and {"ValueError", "InvalidSecretExponentError", "Exception"} & {(df.dotted(x) or "").split(".")[-1] for x in (h.type.elts if isinstance(h.type, ast.Tuple) else [h.type])}
             for t in tries for h in t.handlers)
    ctx.check(ok, "wif-range-error-to-none", ctx.where(f), "ParseAPI.wif lets the out-of-range exponent error of the key constructor escape")
    # writer
    g = ctx.func(KEY, "Key.wif")
    txt = norm(g.node)
    ctx.check("blob = to_bytes_32(secret_exponent)" in txt and "blob += b'\\x01'" in txt and "self._network.wif_for_blob(blob)" in txt, "wif-writer", ctx.where(g),
              "Key.wif does not write 32-byte exponent + optional 01 marker")


def _stmt_of(func_node, node):
    best = None
    for st in body_nodes(func_node):
        if isinstance(st, ast.stmt):
            if any(x is node for x in ast.walk(st)):
                if best is None or any(x is st for x in ast.walk(best)):
                    best = st
    return best


# ------------------------------------------------------------------ C10.4
def c10_4(ctx):
    f = ctx.func(DER, "sigdecode_der")
    flag = f.params()[1]
    # trailing data of each decoding step must be tested (and raise in strict mode) before it is overwritten
    pending = {}
    consumed_ok = True
    top = f.node.body
    for st in top:
        if isinstance(st, ast.Assign) and isinstance(st.targets[0], ast.Tuple) and isinstance(st.value, ast.Call) and len(st.targets[0].elts) == 2:
            callee = df.last_attr(st.value)
            restname = norm(st.targets[0].elts[1])
            argnames = {n.id for a in st.value.args for n in ast.walk(a) if isinstance(n, ast.Name)}
            for nm in list(pending):
                if nm in argnames:
                    del pending[nm]          # consumed by the next decoding step
            if restname in pending:
                ctx.bad("trailing-overwritten:%s" % pending[restname][0], ctx.where(f, st),
                        "sigdecode_der: the bytes left over by %s (`%s`) are overwritten before being tested: trailing bytes after the DER %s are accepted in strict mode"
                        % (pending[restname][0], restname, "SEQUENCE" if pending[restname][0] == "remove_sequence" else "integers"))
                consumed_ok = False
            pending[restname] = (callee, st)
        elif isinstance(st, ast.If):
            names = df.names_in(st.test)
            for nm in list(pending):
                if nm in names:
                    w = GuardWalker(ru.opaque)
                    ex = w.run([st])
                    rs = [e for e in ex if ru.is_raise_of("UnexpectedDER")(e)]
                    ok = any(gi.f_equiv(e.cond, gi.f_and(("op", nm), ("not", ("op", flag)))) for e in rs)
                    ctx.check(ok, "trailing-raises:%s" % pending[nm][0], ctx.where(f, st),
                              "sigdecode_der: left-over bytes of %s do not raise UnexpectedDER exactly when present and strict" % pending[nm][0],
                              sample={"step": pending[nm][0], "guard": norm(st.test)})
                    del pending[nm]
    for nm, (callee, st) in pending.items():
        ctx.bad("trailing-untested:%s" % callee, ctx.where(f, st), "sigdecode_der: the bytes left over by %s (`%s`) are never tested" % (callee, nm))
    ctx.check(consumed_ok, "trailing-order", ctx.where(f), "sigdecode_der: decoding steps overwrite untested remainders")
    # integers: tag, length inside the buffer, sign handling only in lenient mode
    g = ctx.func(DER, "remove_integer")
    w = GuardWalker(ru.opaque)
    ex = w.run(g.node.body)
    rs = [e for e in ex if ru.is_raise_of("UnexpectedDER")(e)]
    conds = [repr(e.cond) for e in rs]
    ctx.check(any("startswith(b'\\\\x02')" in c for c in conds), "integer-tag", ctx.where(g), "remove_integer does not insist on tag 0x02")
    ctx.check(any("len(string) < 1 + llen + length" in c for c in conds), "integer-length-in-buffer", ctx.where(g), "remove_integer does not check that the integer fits the buffer")
    neg = [st for st, r in w.visits if isinstance(st, ast.AugAssign) and norm(st.target) == "v"]
    ok = len(neg) == 1
    if ok:
        r = dict((id(st), r) for st, r in w.visits)[id(neg[0])]
        ok = any("not" in repr(r) and g.params()[1] in o for o in gi.f_opaques(r))
    ctx.check(ok, "negative-only-lenient", ctx.where(g), "remove_integer: two's-complement handling is not restricted to the non-OpenSSL mode")
    # ord() of a possibly empty slice must be dominated by an emptiness guard that raises UnexpectedDER
    for fn in ("read_length", "remove_integer"):
        h = ctx.func(DER, fn)
        paths = stmt_paths(h.node)
        ords = [c for c in df.calls_in(h.node) if norm(c.func) == "ord" and c.args and isinstance(c.args[0], ast.Subscript)]
        guards = [n for n in body_nodes(h.node) if isinstance(n, ast.If) and any(isinstance(s, ast.Raise) and (df.exc_name(s) or "").endswith("UnexpectedDER") for s in n.body)
                  and re.match(r"^((len\(\w+\)|\w+) (== 0|< 1)|not \w+)$", norm(n.test))]
        for c in ords:
            st = _stmt_of(h.node, c)
            ok = any(struct_dominates(paths, gd, st) for gd in guards)
            ctx.check(ok, "ord-of-empty-slice:%s" % fn, ctx.where(h, st),
                      "%s: `%s` is reached without a dominating emptiness guard raising UnexpectedDER; on truncated input ord(b'') raises TypeError, "
                      "which no caller of the decoder handles" % (fn, norm(c)), what="%s:%s" % (fn, norm(c)))
    # encoder: 00 pad iff top bit set
    e = ctx.func(DER, "encode_integer")
    w = GuardWalker(ru.opaque)
    ex = w.run(e.node.body)
    rets = {repr(x.cond): norm(x.value) for x in ex if x.kind == "return"}
    ok = any("<= 127" in c and "not" not in c and "b'\\x00'" not in v for c, v in rets.items()) and any("<= 127" in c and "not" in c and "b'\\x00' + s" in v for c, v in rets.items())
    ctx.check(ok, "encoder-pad", ctx.where(e), "encode_integer does not add the 00 pad exactly when the top bit is set: %s" % rets)
    s_ = ctx.func(DER, "sigencode_der")
    ctx.check("encode_sequence(encode_integer(r), encode_integer(s))" in norm(s_.node), "encoder-order", ctx.where(s_), "sigencode_der does not encode SEQUENCE(r, s)")
    # callers of the lenient/strict decoder handle exactly the documented errors
    for rel, fn in (("pycoin/satoshi/checksigops.py", "checksigs"), (KEY, "Key.verify")):
        c = ctx.func(rel, fn)
        hs = [h for n in body_nodes(c.node) if isinstance(n, ast.Try) for h in n.handlers]
        names = set()
        for h in hs:
            if h.type is not None:
                names |= {(df.dotted(x) or "").split(".")[-1] for x in (h.type.elts if isinstance(h.type, ast.Tuple) else [h.type])}
        ctx.check({"UnexpectedDER", "ValueError"} <= names or "Exception" in names, "decoder-errors-handled:%s" % fn, ctx.where(c),
                  "%s does not handle both UnexpectedDER and ValueError from the DER decoder (handles %s)" % (fn, sorted(names)))


OBLIGATIONS = [
    Ob("C10.1", "SEC decoder: strict (prefix, length) decision table; coordinates below p before acceptance", c10_1, floor=8, engines="GI(finite),MK,DF",
       breaks_if="02||(x+p); hybrid prefixes 06/07 in strict mode; wrong lengths", exhaustive=True),
    Ob("C10.2", "Key.__init__: secret exponent accepted exactly on [1, n-1]; public pair validated", c10_2, floor=3, engines="GI"),
    Ob("C10.3", "WIF: payload length {32,33} measured after the prefix strip, marker 01, flag = 33 bytes", c10_3, floor=5, engines="GI,DF,CFG",
       breaks_if="two-byte WIF prefixes (DCR); marker byte != 01; 34-byte payload; exponent 0"),
    Ob("C10.4", "strict DER: both trailing-byte guards, integer framing, documented error type", c10_4, floor=10, engines="DF,CFG,EX",
       breaks_if="sig + b'\\x00' in strict mode; truncated 30 / 30 02 02"),
]
