#!/venv/bin/python
"""refdiff.py <seed-dir|seed-name|-> <Cxx> [substring]: apply a seeded patch to a scratch copy, run the call-tree comparison and print, for every
function that is not `same`, each differing component in full (reference first).  Debugging aid for canonical forms."""
import os, shutil, subprocess, sys, tempfile
sys.path.insert(0, os.path.dirname(os.path.dirname(os.path.abspath(__file__))))
seed, pid = sys.argv[1], sys.argv[2]
sub = sys.argv[3] if len(sys.argv) > 3 else ""
td = None
if seed != "-":
    d = seed if os.path.isdir(seed) else "/verif/seeded/" + seed
    td = tempfile.mkdtemp(prefix="vs-", dir="/tmp")
    shutil.copytree("/repo/pycoin", td + "/pycoin")
    subprocess.run(["patch", "-p1", "-s", "--no-backup-if-mismatch", "-i", d + "/patch.diff"], cwd=td, check=True)
    os.environ["VERIF_REPO"] = td
try:
    from sa import core, modref, sym
    import importlib
    mod = importlib.import_module("rules." + pid)
    orig = sym.reference_status

    def rs(ctx, f, tree, rn, ints, *a, **k):
        r = orig(ctx, f, tree, rn, ints, *a, **k)
        if r[0] != "same" and sub in str(rn):
            print("==", rn, r[0])
            for d in r[1]:
                a_, b_ = d[2] or "", d[3] or ""
                i = next((k_ for k_ in range(min(len(a_), len(b_))) if a_[k_] != b_[k_]), 0)
                print("  --", d[0], d[1], "first difference at", i, "ratio %.2f" % d[4])
                print("     REF :", a_[max(0, i - 60):i + 300])
                print("     CODE:", b_[max(0, i - 60):i + 300])
        return r
    modref.sym.reference_status = rs
    ob = modref.obligation(pid, getattr(mod, "INTS", None))
    core.run_property(pid, [ob], "quick", None, quiet=True)
finally:
    if td:
        shutil.rmtree(td, ignore_errors=True)
