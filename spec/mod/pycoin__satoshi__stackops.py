"""Transcription of every function of pycoin/satoshi/stackops.py as of the reviewed tree (see DESIGN.md section 12).
NEVER IMPORTED OR EXECUTED: parsed and compared in canonical form (sa/sym.py) with the functions in /repo."""


_CONSTS = {
    'errno.BAD_OPCODE': 15,
    'errno.OP_RETURN': 3,
}


# pycoin/satoshi/stackops.py :: do_OP_NOP
def q__do_OP_NOP(s):
    pass


# pycoin/satoshi/stackops.py :: do_OP_VER
def q__do_OP_VER(stack):
    raise ScriptError()


# pycoin/satoshi/stackops.py :: do_OP_RESERVED1
def q__do_OP_RESERVED1(stack):
    raise ScriptError()


# pycoin/satoshi/stackops.py :: do_OP_RESERVED2
def q__do_OP_RESERVED2(stack):
    raise ScriptError()


# pycoin/satoshi/stackops.py :: do_OP_RETURN
def q__do_OP_RETURN(stack):
    raise ScriptError()


# pycoin/satoshi/stackops.py :: do_OP_2DROP
def q__do_OP_2DROP(stack):
    stack.pop()
    stack.pop()


# pycoin/satoshi/stackops.py :: do_OP_2DUP
def q__do_OP_2DUP(stack):
    stack.append(stack[-2])
    stack.append(stack[-2])


# pycoin/satoshi/stackops.py :: do_OP_3DUP
def q__do_OP_3DUP(stack):
    stack.append(stack[-3])
    stack.append(stack[-3])
    stack.append(stack[-3])


# pycoin/satoshi/stackops.py :: do_OP_2OVER
def q__do_OP_2OVER(stack):
    stack.append(stack[-4])
    stack.append(stack[-4])


# pycoin/satoshi/stackops.py :: do_OP_2ROT
def q__do_OP_2ROT(stack):
    stack.append(stack.pop(-6))
    stack.append(stack.pop(-6))


# pycoin/satoshi/stackops.py :: do_OP_2SWAP
def q__do_OP_2SWAP(stack):
    stack.append(stack.pop(-4))
    stack.append(stack.pop(-4))


# pycoin/satoshi/stackops.py :: _cast_to_bool
def q___cast_to_bool(v):
    if not isinstance(v, (bytes, bytearray)):
        return bool(v)
    for i, b in enumerate(v):
        if b != 0:
            return not (i == len(v) - 1 and b == 128)
    return False


# pycoin/satoshi/stackops.py :: do_OP_IFDUP
def q__do_OP_IFDUP(stack):
    if _cast_to_bool(stack[-1]):
        stack.append(stack[-1])


# pycoin/satoshi/stackops.py :: do_OP_DROP
def q__do_OP_DROP(stack):
    stack.pop()


# pycoin/satoshi/stackops.py :: do_OP_DUP
def q__do_OP_DUP(stack):
    stack.append(stack[-1])


# pycoin/satoshi/stackops.py :: do_OP_NIP
def q__do_OP_NIP(stack):
    v = stack.pop()
    stack.pop()
    stack.append(v)


# pycoin/satoshi/stackops.py :: do_OP_OVER
def q__do_OP_OVER(stack):
    stack.append(stack[-2])


# pycoin/satoshi/stackops.py :: do_OP_ROT
def q__do_OP_ROT(stack):
    stack.append(stack.pop(-3))


# pycoin/satoshi/stackops.py :: do_OP_SWAP
def q__do_OP_SWAP(stack):
    stack.append(stack.pop(-2))


# pycoin/satoshi/stackops.py :: do_OP_TUCK
def q__do_OP_TUCK(stack):
    v1 = stack.pop()
    v2 = stack.pop()
    stack.append(v1)
    stack.append(v2)
    stack.append(v1)


# pycoin/satoshi/stackops.py :: do_OP_CAT
def q__do_OP_CAT(stack):
    v1 = stack.pop()
    v2 = stack.pop()
    stack.append(v2 + v1)


# pycoin/satoshi/stackops.py :: do_OP_RIPEMD160
def q__do_OP_RIPEMD160(stack):
    stack.append(ripemd160(stack.pop()).digest())


# pycoin/satoshi/stackops.py :: do_OP_SHA1
def q__do_OP_SHA1(stack):
    stack.append(hashlib.sha1(stack.pop()).digest())


# pycoin/satoshi/stackops.py :: do_OP_SHA256
def q__do_OP_SHA256(stack):
    stack.append(hashlib.sha256(stack.pop()).digest())


# pycoin/satoshi/stackops.py :: do_OP_HASH160
def q__do_OP_HASH160(stack):
    stack.append(hash160(stack.pop()))


# pycoin/satoshi/stackops.py :: do_OP_HASH256
def q__do_OP_HASH256(stack):
    stack.append(double_sha256(stack.pop()))
