"""WH - width hygiene of 32-bit hash arithmetic written with Python's unbounded integers.

Python integers do not wrap: a 32-bit algorithm is correct only if every value is brought back into 0 .. 2^32-1 before an operation
that looks at its high bits -- a right shift (the low half of a rotate, the xor-shift of a finaliser) -- and before it is handed
out.  A three-valued abstract interpretation of one module decides, for every right shift, whether its operand is

  CLEAN    certainly in 0 .. 2^32-1      (`e & M` with 0 <= M < 2^32, a small constant, `e % M`, or / xor of CLEAN values,
                                           a right shift of a CLEAN value, a struct.unpack of at most 4 bytes)
  DIRTY    possibly outside              (a sum, product, left shift, negation or complement; a parameter of a public function,
                                           whose callers may pass anything; a parameter of a private function some call passes a
                                           DIRTY value to; or / xor with a DIRTY operand)
  UNKNOWN  anything else                 (lengths, loop counters, subscripts, results of calls the analysis does not know)

Only DIRTY operands are findings.  Statements are interpreted in order; branches join; loop bodies are iterated to a fixpoint;
private helpers get the join of what their call sites pass (module-wide fixpoint).  Nothing is executed."""
from __future__ import annotations

import ast

CLEAN, UNKNOWN, DIRTY = 0, 1, 2
M32 = 1 << 32
NAMES = {CLEAN: "clean", UNKNOWN: "unknown", DIRTY: "possibly wider than 32 bits or negative"}


def join(a, b):
    if a == b:
        return a
    if DIRTY in (a, b):
        return DIRTY
    return UNKNOWN


class Module:
    def __init__(self, tree, consts=None):
        self.tree = tree
        self.funcs = {}
        for n in ast.walk(tree):
            if isinstance(n, (ast.FunctionDef, ast.AsyncFunctionDef)):
                self.funcs.setdefault(n.name, n)
        self.consts = dict(consts or {})
        for st in tree.body:
            if isinstance(st, ast.Assign) and len(st.targets) == 1 and isinstance(st.targets[0], ast.Name):
                v = _const(st.value, self.consts)
                if v is not None:
                    self.consts[st.targets[0].id] = v
        self.param_state = {}       # (func name, index) -> state from call sites
        self.ret_state = {}         # func name -> state of the returned value
        self.findings = []
        self.shifts = 0

    def run(self):
        for _round in range(4):
            before = (dict(self.param_state), dict(self.ret_state))
            self.findings, self.shifts = [], 0
            for name, fn in self.funcs.items():
                Walker(self, fn).run()
            if before == (self.param_state, self.ret_state):
                break
        return self.findings


def _const(e, consts):
    if isinstance(e, ast.Constant) and isinstance(e.value, int) and not isinstance(e.value, bool):
        return e.value
    if isinstance(e, ast.Name) and isinstance(consts.get(e.id), int):
        return consts[e.id]
    if isinstance(e, ast.UnaryOp) and isinstance(e.op, ast.USub):
        v = _const(e.operand, consts)
        return -v if v is not None else None
    if isinstance(e, ast.BinOp):
        a, b = _const(e.left, consts), _const(e.right, consts)
        if a is None or b is None:
            return None
        try:
            if isinstance(e.op, ast.Add):
                return a + b
            if isinstance(e.op, ast.Sub):
                return a - b
            if isinstance(e.op, ast.Mult):
                return a * b
            if isinstance(e.op, ast.LShift) and 0 <= b < 128:
                return a << b
            if isinstance(e.op, ast.Pow) and 0 <= b < 128:
                return a ** b
            if isinstance(e.op, ast.BitAnd):
                return a & b
            if isinstance(e.op, ast.BitOr):
                return a | b
        except Exception:
            return None
    return None


class Walker:
    def __init__(self, mod, fn):
        self.mod = mod
        self.fn = fn
        self.env = {}
        a = fn.args
        public = not fn.name.startswith("_")
        params = [x.arg for x in a.posonlyargs + a.args]
        for i, p in enumerate(params):
            if p in ("self", "cls"):
                self.env[p] = UNKNOWN
            elif public:
                self.env[p] = DIRTY
            else:
                self.env[p] = mod.param_state.get((fn.name, i), UNKNOWN)
        for p in [x.arg for x in a.kwonlyargs]:
            self.env[p] = DIRTY if public else UNKNOWN
        self.ret = None

    # ---------------------------------------------------------------- expressions
    def ev(self, e):
        c = _const(e, self.mod.consts)
        if c is not None:
            return CLEAN if 0 <= c < M32 else DIRTY
        if isinstance(e, ast.Name):
            return self.env.get(e.id, UNKNOWN)
        if isinstance(e, ast.BinOp) and isinstance(e.op, ast.BitAnd):
            # (x >> k) & M with M < 2^(32-k) keeps only bits k .. 31 of x: the same as (x & 0xFFFFFFFF) >> k, whatever x is
            for sh, mk in ((e.left, e.right), (e.right, e.left)):
                m = _const(mk, self.mod.consts)
                if isinstance(sh, ast.BinOp) and isinstance(sh.op, ast.RShift) and m is not None:
                    k = _const(sh.right, self.mod.consts)
                    if k is not None and 0 <= k < 32 and 0 <= m < (1 << (32 - k)):
                        self.ev(sh.left)
                        self.mod.shifts += 1
                        return CLEAN
        if isinstance(e, ast.BinOp):
            l, r = self.ev(e.left), self.ev(e.right)
            op = e.op
            if isinstance(op, ast.RShift):
                self.mod.shifts += 1
                if l == DIRTY:
                    self.mod.findings.append((self.fn.name, e, "the operand `%s` of the right shift `%s` is %s here: its bits above bit 31 (or its sign) are shifted into the result"
                                              % (ast.unparse(e.left)[:50], ast.unparse(e)[:60], NAMES[DIRTY])))
                return l
            if isinstance(op, ast.BitAnd):
                if CLEAN in (l, r):
                    return CLEAN
                return UNKNOWN
            if isinstance(op, (ast.BitOr, ast.BitXor)):
                if DIRTY in (l, r):
                    return DIRTY
                return CLEAN if l == r == CLEAN else UNKNOWN
            if isinstance(op, ast.Mod):
                m = _const(e.right, self.mod.consts)
                if m is not None and 0 < m <= M32:
                    return CLEAN
                return UNKNOWN
            if isinstance(op, ast.FloorDiv):
                return l if l != DIRTY else DIRTY
            if isinstance(op, ast.LShift):
                lc = _const(e.left, self.mod.consts)
                return UNKNOWN if lc is not None else DIRTY
            if isinstance(op, (ast.Add, ast.Sub, ast.Mult, ast.Pow)):
                # the data-independent bookkeeping of a loop (i + 1, 32 - r) stays UNKNOWN; arithmetic on hash state is DIRTY
                if l == UNKNOWN and r in (UNKNOWN, CLEAN) and _const(e.right, self.mod.consts) is not None:
                    return UNKNOWN
                if r == UNKNOWN and l in (UNKNOWN, CLEAN) and _const(e.left, self.mod.consts) is not None:
                    return UNKNOWN
                if l == UNKNOWN and r == UNKNOWN:
                    return UNKNOWN
                return DIRTY
            return UNKNOWN
        if isinstance(e, ast.UnaryOp):
            s = self.ev(e.operand)
            if isinstance(e.op, (ast.Invert, ast.USub)):
                return DIRTY if s != UNKNOWN or isinstance(e.op, ast.Invert) else UNKNOWN
            return s
        if isinstance(e, ast.IfExp):
            self.ev(e.test)
            return join(self.ev(e.body), self.ev(e.orelse))
        if isinstance(e, ast.BoolOp):
            s = None
            for v in e.values:
                t = self.ev(v)
                s = t if s is None else join(s, t)
            return s
        if isinstance(e, ast.Compare):
            self.ev(e.left)
            for c_ in e.comparators:
                self.ev(c_)
            return UNKNOWN
        if isinstance(e, ast.Subscript):
            self.ev(e.value)
            if not isinstance(e.slice, ast.Slice):
                self.ev(e.slice)
            # one element of what struct.unpack of <= 4-byte items returns is CLEAN; everything else is not known
            if isinstance(e.value, ast.Call) and ast.unparse(e.value.func).endswith("unpack") and e.value.args and isinstance(e.value.args[0], ast.Constant) \
                    and isinstance(e.value.args[0].value, str) and not any(ch in e.value.args[0].value for ch in "qQdfnN"):
                return CLEAN
            return UNKNOWN
        if isinstance(e, ast.Call):
            states = [self.ev(a.value if isinstance(a, ast.Starred) else a) for a in e.args]
            for k in e.keywords:
                self.ev(k.value)
            name = e.func.id if isinstance(e.func, ast.Name) else None
            if name in self.mod.funcs:
                callee = self.mod.funcs[name]
                if callee.name.startswith("_") and not any(isinstance(a, ast.Starred) for a in e.args):
                    for i, s in enumerate(states):
                        key = (name, i)
                        old = self.mod.param_state.get(key)
                        self.mod.param_state[key] = s if old is None else join(old, s)
                    cp = [x.arg for x in callee.args.posonlyargs + callee.args.args]
                    for k in e.keywords:
                        if k.arg in cp:
                            key = (name, cp.index(k.arg))
                            s = self.ev(k.value)
                            old = self.mod.param_state.get(key)
                            self.mod.param_state[key] = s if old is None else join(old, s)
                return self.mod.ret_state.get(name, UNKNOWN)
            if name in ("int", "abs", "len", "ord", "min", "max", "sum"):
                return UNKNOWN
            return UNKNOWN
        if isinstance(e, (ast.Tuple, ast.List)):
            for x in e.elts:
                self.ev(x.value if isinstance(x, ast.Starred) else x)
            return UNKNOWN
        if isinstance(e, (ast.ListComp, ast.GeneratorExp, ast.SetComp)):
            saved = dict(self.env)
            for g in e.generators:
                self.ev(g.iter)
                for t in ast.walk(g.target):
                    if isinstance(t, ast.Name):
                        self.env[t.id] = UNKNOWN
                for c_ in g.ifs:
                    self.ev(c_)
            self.ev(e.elt)
            self.env = saved
            return UNKNOWN
        for c_ in ast.iter_child_nodes(e):
            if isinstance(c_, ast.expr):
                self.ev(c_)
        return UNKNOWN

    # ---------------------------------------------------------------- statements
    def bind(self, target, value_state, value=None):
        if isinstance(target, ast.Name):
            self.env[target.id] = value_state
        elif isinstance(target, (ast.Tuple, ast.List)):
            if isinstance(value, (ast.Tuple, ast.List)) and len(value.elts) == len(target.elts):
                states = [self.ev(v) for v in value.elts]        # all right-hand sides first (simultaneous assignment)
                for t, s in zip(target.elts, states):
                    self.bind(t, s)
            else:
                for t in target.elts:
                    self.bind(t.value if isinstance(t, ast.Starred) else t, UNKNOWN if value_state != DIRTY else DIRTY)

    def block(self, body):
        for st in body:
            self.stmt(st)

    def stmt(self, st):
        if isinstance(st, ast.Assign):
            if len(st.targets) == 1 and isinstance(st.targets[0], (ast.Tuple, ast.List)) and isinstance(st.value, (ast.Tuple, ast.List)):
                self.bind(st.targets[0], UNKNOWN, st.value)
                return
            s = self.ev(st.value)
            for t in st.targets:
                self.bind(t, s, st.value)
        elif isinstance(st, ast.AnnAssign):
            if st.value is not None:
                self.bind(st.target, self.ev(st.value), st.value)
        elif isinstance(st, ast.AugAssign):
            s = self.ev(ast.BinOp(st.target if not isinstance(st.target, ast.Name) else ast.Name(st.target.id, ast.Load()), st.op, st.value))
            self.bind(st.target, s)
        elif isinstance(st, ast.Return):
            if st.value is not None:
                s = self.ev(st.value)
                self.ret = s if self.ret is None else join(self.ret, s)
        elif isinstance(st, ast.Expr):
            self.ev(st.value)
        elif isinstance(st, ast.If):
            self.ev(st.test)
            saved = dict(self.env)
            self.block(st.body)
            a = self.env
            self.env = dict(saved)
            self.block(st.orelse)
            self.env = {k: join(a.get(k, UNKNOWN), self.env.get(k, UNKNOWN)) for k in set(a) | set(self.env)}
        elif isinstance(st, (ast.For, ast.While)):
            if isinstance(st, ast.For):
                self.ev(st.iter)
            n_find, n_sh = len(self.mod.findings), self.mod.shifts
            for _i in range(4):
                del self.mod.findings[n_find:]
                self.mod.shifts = n_sh
                before = dict(self.env)
                if isinstance(st, ast.For):
                    for t in ast.walk(st.target):
                        if isinstance(t, ast.Name):
                            self.env[t.id] = UNKNOWN
                else:
                    self.ev(st.test)
                self.block(st.body)
                self.env = {k: join(before.get(k, self.env.get(k, UNKNOWN)), self.env.get(k, before.get(k, UNKNOWN))) for k in set(before) | set(self.env)}
                if self.env == before:
                    break
            self.block(st.orelse)
        elif isinstance(st, ast.Try):
            self.block(st.body)
            for h in st.handlers:
                self.block(h.body)
            self.block(st.orelse)
            self.block(st.finalbody)
        elif isinstance(st, ast.With):
            for it in st.items:
                self.ev(it.context_expr)
            self.block(st.body)
        elif isinstance(st, (ast.Assert, ast.Raise)):
            pass
        elif isinstance(st, (ast.FunctionDef, ast.AsyncFunctionDef, ast.ClassDef)):
            pass

    def run(self):
        self.block(self.fn.body)
        if self.ret is not None:
            old = self.mod.ret_state.get(self.fn.name)
            self.mod.ret_state[self.fn.name] = self.ret
        return self.ret
