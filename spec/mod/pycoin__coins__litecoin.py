"""Transcription of every function of pycoin/coins/litecoin/__init__.py as of the reviewed tree (see DESIGN.md section 12).
NEVER IMPORTED OR EXECUTED: parsed and compared in canonical form (sa/sym.py) with the functions in /repo."""


_CONSTS = {

}


# pycoin/coins/litecoin/__init__.py :: LTCTx.parse
def q__LTCTx__parse(class_, f):
    version, = parse_struct('L', f)
    v1 = ord(f.read(1))
    is_segwit = v1 == 0
    has_mweb = False
    if is_segwit:
        flag = ord(f.read(1))
        if flag == 0:
            raise ValueError()
        has_mweb = flag & 8 != 0
        is_segwit = flag & 1 != 0
        v1 = None
    count = parse_satoshi_int(f, v=v1)
    txs_in = []
    for i in range(count):
        txs_in.append(class_.TxIn.parse(f))
    count = parse_satoshi_int(f)
    txs_out = []
    for i in range(count):
        txs_out.append(class_.TxOut.parse(f))
    if is_segwit:
        for tx_in in txs_in:
            stack = []
            count = parse_satoshi_int(f)
            for i in range(count):
                stack.append(parse_satoshi_string(f))
            tx_in.witness = stack
    if has_mweb:
        mweb_tx_type = ord(f.read(1))
        if mweb_tx_type:
            pass
    lock_time, = parse_struct('L', f)
    return class_(version, txs_in, txs_out, lock_time)
