#!/venv/bin/python
"""Regenerate /verif/MANIFEST.json from the rule files that exist (one check per property with obligations)."""
import importlib
import json
import os
import sys

HERE = os.path.dirname(os.path.dirname(os.path.abspath(__file__)))
sys.path.insert(0, HERE)
sys.dont_write_bytecode = True

NOT_DECIDED = {
    "C01": "that the equation holds for honest signatures; numeric equality with RFC 6979; what the C libraries behind ctypes compute; recovery completeness",
    "C02": "associativity / commutativity, k*P = repeated addition, pure vs native coordinate equality, ladder correctness (numerical)",
    "C03": "equivalence with Bitcoin Core's interpreter as a whole: operand semantics of each operation beyond the listed clauses, multisig matching order, everything quantified over programs",
    "C04": "digest values as numbers",
    "C05": "that produced scripts validate under the policy flag set, order independence of partial signing, completeness over puzzle kinds",
    "C06": "the accept/reject consequence of each individual mutation (follows from the commitment contents only under the trusted hash)",
    "C07": "value equality of round trips beyond trace symmetry; boundary arithmetic inside struct",
    "C08": "injectivity of base58/bech32 (C11); classification of arbitrary scripts beyond the template/minimal-push clauses",
    "C09": "agreement with the BIP32 vectors, commutation as a numerical fact",
    "C10": "losslessness of the round trips as such",
    "C11": "exact inversion including leading zeros as a numerical fact; the <= 4-error detection guarantee of the BCH code",
    "C12": "bijection over all integers; byte-for-byte recompilation of arbitrary scripts",
    "C13": "the arithmetic identity itself beyond the divmod polynomial identity; decimal conversions as numbers",
    "C14": "acceptance of every honest proof / rejection of every corruption",
    "C15": "that the reported chain is heaviest for every delivery history, equivalence under batching, tie-breaking stability: only the structural clauses are decided",
    "C16": "value equality after the round trip beyond trace symmetry",
    "C17": "that signatures verify for the signer only; armour round trip",
    "C18": "equality of re-parsed objects",
    "C19": "digest equality for all inputs",
    "C20": "nothing beyond the listed clauses: the check is two-sided on every numeric rule, but acceptance of 'every well-formed transaction' also depends on the serializer (C07)",
}
STATE = (" + refusal-as-entailment over the inputs (sym.must_refuse), stale-memo criteria (hit test vs state the kept value was computed from, weak keys, invalidation coverage over the class's state-changing methods), "
         "state lints of the call tree (module-level objects frozen after import, shared accumulators, reused buffers, hoisted initialisations, class-level stores, native struct formats, default-argument memos, derived copies of public attributes, tables of module-level objects adopted by constructors, floating point in integer kernels, overrides bypassed by a new method)")
COMMON = ("trace-partitioned abstract interpretation over a term domain (sa/sym.py: symbolic store, canonical forms: renaming, temporaries, De Morgan, early returns, named constants, "
          "integer linear forms, loop <-> comprehension, helper inlining) ")
TECH = {
    "C01": COMMON + "+ guard -> interval sets with the group order as symbolic endpoint (r, s, hash, nonce candidates), nonce loop transformer, bits2octets path condition, canonical equality with reviewed reference transcriptions of verify / sign / recover / RFC 6979",
    "C02": COMMON + "+ on-curve-by-construction return analysis over the symbolic store (coinductive on loop-carried points), modular-comparison atoms, sibling comparison of the scalar reduction in all multiply implementations, linear blinding identity, reference transcriptions of the group law",
    "C03": "abstract interpretation of the import-time dispatch table (256 entries) vs a consensus table; guard intervals; " + COMMON + "+ canonical equality of all 135 handler / VM / checker functions with reviewed reference transcriptions; older spelling-sensitive rules are subordinate to that comparison",
    "C04": COMMON + "+ finite partition of all 256 hash types through the branch guards (explicit sets as guard atoms), ordered stream effects of the BIP143 pre-image and sub-hashes, Groestlcoin clone check modulo the hash function, freshness / effect analysis",
    "C05": COMMON + "+ effect set with freshness, path conditions of the script / witness writes (failed validation), low-S guard as a linear integer atom entailed by the emission's path condition, reference transcriptions of solver and lookups",
    "C06": "effect / freshness analysis of the validation call tree, cache-scope def-use; " + COMMON + "+ interval sets on the unspent guard, coinbase exemption set, shared sighash partitions (C04)",
    "C07": COMMON + "+ ordered stream effects of writers / readers compared with reviewed reference transcriptions; compact-size partition as interval sets over the write effects' path conditions",
    "C08": "configuration table predicates over all symbol files; " + COMMON + "+ payload-length sets relative to the matched prefix, entailment of HRP / version / checksum-variant atoms, network-independence of cached verdicts, template agreement",
    "C09": COMMON + "+ entailment of the hardened-from-public refusal by the derivation calls' path conditions, index interval, memo-key vs argument comparison, memo freshness, per-item hardening in range expansion, reference transcriptions of CKD / serialization",
    "C10": COMMON + "+ finite decision table (prefix byte x length class x strict) through the SEC decoder's guards, interval sets vs field prime / order, WIF payload set measured after the prefix strip, reference transcriptions of the DER codec",
    "C11": "literal tables vs the standards; " + COMMON + "+ must-reject interval sets of the segwit decoder, checksum-equality entailment, canonical any/all atoms, reference transcriptions of base58 / bech32",
    "C12": "abstract interpretation of the push encoder / decoder registries (captured constants); " + COMMON + "+ finite partition of the disassembler over 256 opcodes, reference transcriptions of push codec and script-number codec",
    "C13": COMMON + "+ guards-before-writes on effects, skip conditions of the comparison loop, exact-decimal lint, reference transcriptions of the split / fee / validation functions",
    "C14": COMMON + "+ memo-effectiveness analysis of the block hash, default-argument table of the merkle check, reference transcriptions of header codec, merkle tree and the BIP37 proof verifier (bit-test atoms)",
    "C15": "structural clauses only: " + COMMON + "+ effect sequence of memo reset, add/remove vs index-map lock-step per loop, work-set consumption lint, entailment of the known-hash skip, reference transcriptions of chain selection and the finder",
    "C16": "exhaustive layout / letter table by abstract interpretation; " + COMMON + "+ canonical exits of every codec lambda / function, network class arguments, reference transcriptions of array packing and object codecs",
    "C17": "exception-escape analysis of verify_message; " + COMMON + "+ header-byte and r / s interval sets, message-presence path condition, reference transcriptions of the compact-signature codec, recovery and armour parsing",
    "C18": "exception-escape analysis of all parse entry points; " + COMMON + "+ payload-length sets, cache-key table, network-independence of cached decoders, prefix-comparison entailment, binding completeness",
    "C19": "RIPEMD-160 tables re-derived from the specification's permutations; width hygiene by a three-valued abstract interpretation of the 32-bit arithmetic (sa/wh.py: clean / dirty / unknown, loops to a fixpoint, private helpers by call-site join); " + COMMON + "+ canonical equality of compression / padding / MurmurHash3 / BIP37 addressing with reviewed reference transcriptions (lane transformers, tail switch decided on len & 3)",
    "C20": COMMON + "+ interval sets with per-coin symbolic endpoints (values, running total, coinbase script length, size), duplicate-outpoint key fields, null-outpoint predicate as formula equivalence",
}

props = {}
for l in open(os.path.join(HERE, "properties.jsonl")):
    d = json.loads(l)
    props[d["id"]] = d

checks = []
na = []
for i in range(1, 21):
    pid = "C%02d" % i
    path = os.path.join(HERE, "rules", pid + ".py")
    if not os.path.exists(path):
        na.append({"property_id": pid, "reason": "check not built yet (build in progress; see DESIGN.md section 9)"})
        continue
    mod = importlib.import_module("rules." + pid)
    obs = mod.OBLIGATIONS
    n = len(obs)
    from rules import shared as _shared
    lent = list(_shared.DEPENDS.get(pid, ()))
    checks.append({
        "property_id": pid,
        "quick_cmd": "./check %s --tier quick" % pid,
        "thorough_cmd": "./check %s --tier thorough" % pid,
        "evidence_file": "/verif/evidence/%s.json" % pid,
        "replay_cmd_template": "./check --replay {path}",
        "engine": "sa",
        "level_claimed": {
            "category": "other",
            "text": ("static analysis of /repo's working tree: %d structural obligations (%s), each a necessary condition of %s%s, plus the call-tree obligation %s.T "
                     "(every function of the anchor modules against its reviewed transcription; state lints); the check decides those clauses "
                     "on every run and does not decide the behavioural universal statement"
                     % (n, ", ".join(o.id for o in obs), pid, ("; %d obligations of the mechanisms it rests on, evaluated inside this check (%s)" % (len(lent), ", ".join(lent))) if lent else "", pid)),
            "design_ref": "DESIGN.md section 4, %s" % pid,
        },
        "level_note": "not decided: %s. Trusted: CPython ast, the reference tables in /verif/spec, semantics of struct/hashlib/hmac/binascii, the abstract interpreter /verif/sa/interp.py; Any-typed receivers resolved by method name." % NOT_DECIDED[pid],
        "technique": TECH[pid] + STATE,
    })

manifest = {
    "version": 1,
    "setup_cmd": "true",
    "hooks": {
        "guard": "PYCOIN_VERIF",
        "enable": "none: static analysis reads /repo's working tree, no instrumentation exists (the guard name is unused)",
        "baseline_off_cmd": "cd /repo && /venv/bin/python -m pytest -ra -q -p no:cacheprovider --timeout=900 --continue-on-collection-errors",
        "source_commits": [],
        "add_only": True,
    },
    "engines": [{"name": "sa", "path": "/verif/sa", "serves_properties": [c["property_id"] for c in checks],
                 "kind_free_text": "repository-specific static analysis: program model over ast, abstract interpreter for import-time tables, guard->value-set abstraction, "
                                   "CFG/dominance, codec traces, effect/freshness, exception escape"}],
    "checks": checks,
    "notes": "All checks are interpreted (no build step). Genuine defects found on the pinned tree were repaired in /repo by unguarded 'fix:' commits and are listed in /verif/known_findings.json as fixed.",
    "not_applicable": na,
}
json.dump(manifest, open(os.path.join(HERE, "MANIFEST.json"), "w"), indent=1)
print("checks:", len(checks), "not_applicable:", len(na))
