"""Which obligations of other properties each property borrows, because its statement rests on their mechanism.

C01 signs and verifies through the group arithmetic of C02 and the DER codec of C10; C03 evaluates scripts through the number and
push codecs of C12, the key decoder of C10 and the signature hashes of C04; C05 signs what C04 hashes, with the nonce of C01 and
the DER / push encoders; addresses (C08), extended keys (C09), WIF (C10), signed messages (C17) and text parsing (C18) are written
through the base58 / bech32 codecs of C11; blocks (C14) and messages (C16) embed the transaction codec of C07.  Only obligations
that are decided semantically (sets, traces, entailments) are lent; obligations with known findings stay with their owner."""

DEPENDS = {
    "C01": ["C02.3", "C02.6", "C02.8", "C02.2", "C10.4"],
    "C03": ["C12.1", "C12.2", "C12.4", "C10.1", "C04.1", "C04.2", "C04.3"],
    "C05": ["C04.1", "C04.2", "C04.3", "C04.4", "C01.4", "C01.5", "C01.6", "C10.4", "C12.1"],
    "C06": ["C03.17", "C03.9", "C20.6", "C13.4"],
    "C08": ["C11.1", "C11.2", "C11.3", "C11.4", "C11.5", "C12.1", "C18.2"],
    "C09": ["C11.3", "C11.4", "C11.5", "C10.1", "C02.3"],
    "C10": ["C11.3", "C11.4", "C11.5"],
    "C13": ["C07.4", "C07.6", "C20.1"],
    "C14": ["C07.1", "C07.3", "C07.6", "C19.4"],
    "C16": ["C07.1", "C07.3", "C07.6", "C14.1", "C14.3"],
    "C17": ["C11.3", "C11.4", "C11.5", "C10.1", "C01.1", "C01.2"],
    "C18": ["C11.2", "C11.3", "C11.4", "C11.5", "C10.1", "C10.2", "C09.4"],
    "C20": ["C07.3"],
}
