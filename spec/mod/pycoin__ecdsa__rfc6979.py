"""Transcription of every function of pycoin/ecdsa/rfc6979.py as of the reviewed tree (see DESIGN.md section 12).
NEVER IMPORTED OR EXECUTED: parsed and compared in canonical form (sa/sym.py) with the functions in /repo."""


_CONSTS = {

}


# pycoin/ecdsa/rfc6979.py :: deterministic_generate_k
def q__deterministic_generate_k(generator_order, secret_exponent, val, hash_f=hashlib.sha256):
    n = generator_order
    bln = n.bit_length()
    order_size = (bln + 7) // 8
    hash_size = hash_f().digest_size
    v = b'\x01' * hash_size
    k = b'\x00' * hash_size
    priv = secret_exponent.to_bytes(order_size, 'big')
    shift = 8 * hash_size - bln
    if shift > 0:
        val >>= shift
    if val >= n:
        val -= n
    h1 = val.to_bytes(order_size, 'big')
    k = hmac.new(k, v + b'\x00' + priv + h1, hash_f).digest()
    v = hmac.new(k, v, hash_f).digest()
    k = hmac.new(k, v + b'\x01' + priv + h1, hash_f).digest()
    v = hmac.new(k, v, hash_f).digest()
    while 1:
        t = bytearray()
        while len(t) < order_size:
            v = hmac.new(k, v, hash_f).digest()
            t.extend(v)
        k1 = int.from_bytes(bytes(t), 'big')
        k1 >>= len(t) * 8 - bln
        if k1 >= 1 and k1 < n:
            return k1
        k = hmac.new(k, v + b'\x00', hash_f).digest()
        v = hmac.new(k, v, hash_f).digest()
