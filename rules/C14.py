"""C14 - blocks and merkle proofs: structural obligations (DESIGN.md section 4, C14)."""
from __future__ import annotations

import ast

from sa.core import Ob
from sa.pm import AnalysisError, norm, body_nodes
from sa import gi, df, ru, ct, sym
from sa.pm import Undecided
from sa.gi import IntSet, iv, GuardWalker, SymbolicAtomizer, reach_sets
from sa.cfg import stmt_paths, struct_dominates

BLOCK = "pycoin/block.py"
MERKLE = "pycoin/merkle.py"
MPP = "pycoin/message/make_parser_and_packer.py"
U, E = IntSet.all(), IntSet.empty()
HEADER_FIELDS = ["version", "previous_block_hash", "merkle_root", "timestamp", "difficulty", "nonce"]


_REF = None


def _ref():
    global _REF
    if _REF is None:
        import os
        _REF = ast.parse(open(os.path.join(os.path.dirname(os.path.dirname(os.path.abspath(__file__))), "spec", "ref_block.py")).read())
    return _REF


INTS = lambda t: t in ("count", "i", "idx", "r", "flag_index", "level_index", "node_index", "mask", "left", "byte_index", "bit_index", "tx_count", "leaf_level") or t.startswith(("len(", "flags[", "level_widths[", "d['total_transactions']", "parse_struct('I', f)"))


def _refcheck(ctx, rel, dotted, refname, key, ints=None):
    return sym.against_reference(ctx, ctx.func(rel, dotted), _ref(), refname, key, ints or INTS)


# ------------------------------------------------------------------ C14.1
def c14_1(ctx):
    _refcheck(ctx, BLOCK, "Block.stream_header", "blk_stream_header", "header-writer")
    _refcheck(ctx, BLOCK, "Block.parse_as_header", "blk_parse_as_header", "header-reader")
    init = ctx.func(BLOCK, "Block.__init__")
    wi = sym.walk(ctx, init)
    stores = {e.attr: norm(e.value) for e in wi.effects if e.kind == "setattr" and norm(e.target) == "self"}
    ctx.check(init.params()[1:7] == HEADER_FIELDS and all(stores.get(x) == x for x in HEADER_FIELDS), "header-fields", ctx.where(init), "Block.__init__ does not take and store the six header fields in order: %s" % {k: stores.get(k) for k in HEADER_FIELDS})
    _refcheck(ctx, BLOCK, "Block._calculate_hash", "blk_calculate_hash", "block-id-digest")
    # a block without transactions is its 80-byte header on the wire: beyond stream_header, everything Block.stream (and the
    # helper it calls) writes is written only when there are transactions
    for nm in ("Block.stream", "Block._stream_transactions"):
        g = ctx.func(BLOCK, nm)
        wg = sym.walk(ctx, g)
        has_txs = [a for a in sym.all_atoms(wg) if a in ("truthy(self.txs)", "0 == len(self.txs)", "len(self.txs) == 0", "0 < len(self.txs)")]
        n_w = 0
        for e in wg.effects:
            if e.kind != "call":
                continue
            t = norm(e.call.func)
            if not (t.endswith("stream_struct") or t.endswith(".write") or t.endswith(".stream")):
                continue
            n_w += 1
            if e.reach is True:
                ctx.bad("header-only-block-is-80-bytes:%s" % nm, ctx.where(g, e.node), "%s writes `%s` whether or not the block has transactions: a header-only block no longer serialises to the 80-byte header it was parsed from" % (nm, e.text()[:60]))
                continue
            pos = [a for a in has_txs if a.startswith("truthy(") or a.startswith("0 < ")]
            neg = [a for a in has_txs if a not in pos]
            guarded = any(sym.entails(e.reach, ("op", a)) for a in pos) or any(sym.entails(e.reach, ("not", ("op", a))) for a in neg)
            empty_only = any(sym.entails(e.reach, ("not", ("op", a))) for a in pos) or any(sym.entails(e.reach, ("op", a)) for a in neg)
            if guarded:
                ctx.ok("header-only-block-is-80-bytes:%s" % nm, sample={"write": e.text()[:60], "only_when": "the block has transactions"})
            elif empty_only:
                ctx.bad("header-only-block-is-80-bytes:%s" % nm, ctx.where(g, e.node), "%s writes `%s` for a block WITHOUT transactions: a header-only block no longer serialises to the 80-byte header it was parsed from" % (nm, e.text()[:60]))
            else:
                ctx.undecided("header-only-block-is-80-bytes:%s" % nm, ctx.where(g, e.node), "%s writes `%s` under `%s`; this rule reads tests of self.txs" % (nm, e.text()[:50], str(e.reach)[:80]))
        if n_w == 0 and nm == "Block._stream_transactions":
            ctx.undecided("header-only-block-is-80-bytes:%s" % nm, ctx.where(g), "%s writes nothing this rule recognises" % nm)
    _refcheck(ctx, BLOCK, "Block.id", "blk_id", "block-id-text")
    # cache: if the memo of hash() is effective, every header mutator must invalidate it effectively
    c = ctx.p.cls(BLOCK, "Block")
    hf = ctx.func(BLOCK, "Block.hash")
    eff = _cache_effective(hf, c.name)
    muts = []
    for name, m in c.methods.items():
        if name in ("__init__",):
            continue
        for st in body_nodes(m.node):
            if isinstance(st, (ast.Assign, ast.AugAssign)):
                tg = st.targets if isinstance(st, ast.Assign) else [st.target]
                for t_ in tg:
                    if isinstance(t_, ast.Attribute) and norm(t_.value) == "self" and t_.attr in HEADER_FIELDS:
                        muts.append((m, st))
    ctx.note("hash() memo effective: %s; header mutators: %s" % (eff, sorted({m.name for m, st in muts})))
    if eff:
        for m, st in muts:
            ok = _invalidates(m, c.name)
            ctx.check(ok, "stale-block-id:%s" % m.name, ctx.where(m, st),
                      "Block.%s changes a header field but does not (effectively) drop the memoised hash, while Block.hash() does reuse it: id()/hash() go stale" % m.name,
                      sample={"mutator": m.name, "memo_effective": True})
    else:
        ctx.ok("hash-memo-inert")
    wh = sym.walk(ctx, hf)
    ctx.check(bool(sym.calls_matching(wh, "self._calculate_hash")), "hash-delegates", ctx.where(hf), "Block.hash does not compute through _calculate_hash")
    _refcheck(ctx, BLOCK, "Block.stream", "blk_stream", "block-writer")
    _refcheck(ctx, BLOCK, "Block._stream_transactions", "blk_stream_transactions", "block-tx-writer")
    _refcheck(ctx, BLOCK, "Block.parse", "blk_parse", "block-reader")
    _refcheck(ctx, BLOCK, "Block._parse_transactions", "blk_parse_transactions", "block-tx-reader")


def _mangled(cls_name, attr):
    return "_%s%s" % (cls_name.lstrip("_"), attr) if attr.startswith("__") and not attr.endswith("__") else attr


def _cache_effective(hf, cls_name):
    """does hash() ever return a previously stored value?"""
    stores = [st for st in body_nodes(hf.node) if isinstance(st, ast.Assign) and isinstance(st.targets[0], ast.Attribute) and norm(st.targets[0].value) == "self" and "_calculate_hash" in norm(st.value)]
    if not stores:
        return False
    attr = stores[0].targets[0].attr
    real = _mangled(cls_name, attr)
    for n in body_nodes(hf.node):
        if isinstance(n, ast.If):
            t = n.test
            neg = isinstance(t, ast.UnaryOp) and isinstance(t.op, ast.Not)
            inner = t.operand if neg else t
            if isinstance(inner, ast.Call) and norm(inner.func) == "hasattr" and len(inner.args) == 2 and isinstance(inner.args[1], ast.Constant):
                return inner.args[1].value == real
            if isinstance(inner, ast.Compare) and "None" in norm(inner):
                return True
        if isinstance(n, ast.Try):
            if any(isinstance(s, ast.Return) and isinstance(s.value, ast.Attribute) and s.value.attr == attr for s in n.body):
                return True
    # unconditional recomputation
    first = hf.node.body[-1] if hf.node.body else None
    return not any(stores[0] is st for st in hf.node.body)


def _invalidates(m, cls_name):
    for n in body_nodes(m.node):
        if isinstance(n, ast.Delete) and any(isinstance(t, ast.Attribute) and norm(t.value) == "self" for t in n.targets):
            # effective unless guarded by an ineffective hasattr
            t = ru.enclosing_test(m.node, n)
            if t is None:
                return True
            if isinstance(t, ast.Call) and norm(t.func) == "hasattr" and isinstance(t.args[1], ast.Constant):
                attr = n.targets[0].attr
                return t.args[1].value == _mangled(cls_name, attr)
            return True
        if isinstance(n, ast.Assign) and isinstance(n.targets[0], ast.Attribute) and norm(n.targets[0].value) == "self" and isinstance(n.value, ast.Constant) and n.value.value is None:
            return True
    return False


# ------------------------------------------------------------------ C14.2
def c14_2(ctx):
    _refcheck(ctx, MERKLE, "merkle", "mk_merkle", "merkle-levels")
    _refcheck(ctx, MERKLE, "merkle_pair", ["mk_merkle_pair", "mk_merkle_pair_v2"], "odd-level-duplication")
    m = ctx.func(MERKLE, "merkle")
    # the only thing that ever lengthens a row is merkle_pair's duplication of the last element of an odd LEVEL: merkle itself
    # hands rows on as they are (padding the leaf row up front builds another tree for 6, 10, 11, 12 ... leaves)
    row = m.params()[0]
    rows = {row}
    for v, st in [(v, st) for n_, ds in df.assignments(m.node).items() for v, st in ds if isinstance(v, ast.AST)]:
        if any(isinstance(x, ast.Name) and x.id in rows for x in ast.walk(v)):
            rows |= {t.id for t in ast.walk(st) if isinstance(t, ast.Name) and isinstance(t.ctx, ast.Store)}
    for n_, ds in sorted(df.assignments(m.node).items()):
        if n_ not in rows:
            continue
        for v, st in ds:
            if not isinstance(v, ast.AST):
                continue
            t = norm(v)
            if isinstance(v, ast.Call) and norm(v.func).endswith("merkle_pair") and v.args and isinstance(v.args[0], ast.Name) and v.args[0].id in rows:
                ctx.ok("row-handed-on:%s" % n_)
            elif t in ["list(%s)" % r for r in rows] + ["%s[:]" % r for r in rows] + ["tuple(%s)" % r for r in rows] + list(rows):
                ctx.ok("row-copied:%s" % n_)
            elif any(isinstance(x, ast.BinOp) and isinstance(x.op, (ast.Add, ast.Mult)) for x in ast.walk(v)) and any(isinstance(x, ast.Name) and x.id in rows for x in ast.walk(v)):
                ctx.bad("row-extended-outside-levels", ctx.where(m, st), "merkle builds the row `%s` itself: rows are lengthened only by merkle_pair, one duplicated element per odd level" % t[:80], sample={"row": t[:100]})
            else:
                ctx.undecided("row-handed-on", ctx.where(m, st), "merkle computes a row as `%s`; this rule reads merkle_pair(row, ...) and copies only" % t[:80])
    from sa.ef import writes_in as _writes_in
    for wr in _writes_in(m):
        r = wr.node.func.value if isinstance(wr.node, ast.Call) and isinstance(wr.node.func, ast.Attribute) else None
        if isinstance(r, ast.Name) and r.id in rows and wr.node.func.attr in ("append", "extend", "insert"):
            ctx.bad("row-extended-outside-levels", ctx.where(m, wr.node), "merkle lengthens a row itself (%s): rows are lengthened only by merkle_pair, one duplicated element per odd level" % wr.text)
    a = m.node.args
    ctx.check(len(a.defaults) == 1 and norm(a.defaults[0]) == "double_sha256", "merkle-default-hash", ctx.where(m), "merkle's default hash is not double_sha256")
    _refcheck(ctx, BLOCK, "Block.check_merkle_hash", "blk_check_merkle_hash", "merkle-mismatch-raises")
    _refcheck(ctx, BLOCK, "Block.set_txs", "blk_set_txs", "merkle-check-reached")
    # every entry point that can skip the merkle check checks by default
    c = ctx.p.cls(BLOCK, "Block")
    n = 0
    for name, fn in sorted(c.methods.items()):
        a = fn.node.args
        names = [x.arg for x in a.posonlyargs + a.args]
        d = dict(zip(names[len(names) - len(a.defaults):], a.defaults))
        for k, dv in zip(a.kwonlyargs, a.kw_defaults):
            d[k.arg] = dv
        if "check_merkle_hash" in names + [k.arg for k in a.kwonlyargs]:
            n += 1
            dv = d.get("check_merkle_hash")
            ctx.check(isinstance(dv, ast.Constant) and dv.value is True, "merkle-check-default:%s" % name, ctx.where(fn), "Block.%s: check_merkle_hash does not default to True: blocks built through it are accepted with a wrong merkle root unless the caller opts in" % name)
    ctx.check(n >= 2, "merkle-check-entry-points", BLOCK + ":1", "fewer than two Block methods take check_merkle_hash")
    pr = ctx.func(BLOCK, "Block.parse")
    w = sym.walk(ctx, pr)
    cs = sym.calls_matching(w, ".set_txs")
    ok = bool(cs) and all(any(k.arg == "check_merkle_hash" and norm(k.value) == "check_merkle_hash" for k in e.raw.keywords) for e in cs)
    ctx.check(ok, "merkle-check-forwarded", ctx.where(pr), "Block.parse does not forward check_merkle_hash to set_txs")


def _flag_bits_table(ctx, f):
    """BIP37: after the traversal has consumed k flag bits the proof is acceptable only if it carries exactly ceil(k / 8) flag
    bytes and the bits of the last byte beyond the k-th are zero.  Decision table: the guards of the verifier evaluated (abstract
    interpreter, finite domain) for k = 1..24, 1..4 flag bytes and every value of the last byte."""
    import copy
    from sa.interp import Frame, Unknown, PyRaise
    it_ = ctx.interp
    mv = it_.module(f.module.name)
    dp = f.params()[0]
    flags_text = "%s['flags']" % dp
    if ctx.tier == "thorough":
        dom = [(k, nf, b) for k in range(1, 25) for nf in range(1, 5) for b in range(256)]
    else:       # the byte boundaries (8 | 9, 16 | 17) and, for the last byte, nothing / every single bit / runs from either end
        dom = [(k, nf, b) for k in range(1, 18) for nf in range(1, 4) for b in (0, 1, 2, 3, 4, 8, 16, 32, 64, 127, 128, 129, 254, 255)]

    class S(ast.NodeTransformer):
        def __init__(s_, v):
            s_.v = v
            s_.hit = False

        def visit_Call(s_, n):
            if norm(n.func).endswith("_recurse"):
                return n            # what the traversal returns is not evaluated: only its bit count is a subject
            return s_.generic_visit(n)

        def visit_Subscript(s_, n):
            if isinstance(n.value, ast.Call) and norm(n.value.func).endswith("_recurse") and isinstance(n.slice, ast.Constant) and n.slice.value == 1:
                s_.hit = True
                return ast.copy_location(ast.Constant(s_.v[0]), n)
            if norm(n) == flags_text:
                s_.hit = True
                return ast.copy_location(ast.Constant(bytes(s_.v[1] - 1) + bytes([s_.v[2]])), n)
            return s_.generic_visit(n)

    def evalf(expr, v):
        tr = S(v)
        e2 = tr.visit(copy.deepcopy(expr))
        if not tr.hit:
            raise ValueError("not about the flags")
        ast.fix_missing_locations(e2)
        try:
            val = it_.eval(e2, Frame(mv, None, {}))
        except PyRaise:
            undefined.add(v)        # the guard itself fails there (index out of range): the proof is not accepted, whichever way the test reads
            return False
        if isinstance(val, Unknown):
            raise ValueError("unknown")
        return bool(val)
    undefined = set()
    leaf = sym.finite_leaf(dom, evalf)
    w = sym.walk(ctx, f, leaf, feasible=lambda r: True)
    fr = sym.exits_formula(w, lambda e: e.kind == "return")
    if fr is False:
        raise Undecided("post_unpack_merkleblock has no returning exit")
    if not any(isinstance(r, tuple) and r[0] == "set" for r in leaf.cache.values()):
        raise Undecided("post_unpack_merkleblock: no guard was decided by (bits consumed, flag bytes, last byte); this rule does not read how the flags are checked")
    acc = set(sym.may_set(fr, leaf.univ, leaf.empty).m) - undefined
    want = {(k, nf, b) for (k, nf, b) in dom if (k + 7) // 8 == nf and (b >> ((k - 1) % 8 + 1)) == 0}
    extra, lost = sorted(acc - want), sorted(want - acc)
    ctx.check(acc == want, "flag-bits-table", ctx.where(f),
              "post_unpack_merkleblock accepts (bits consumed, flag bytes, last byte) such as %s and refuses such as %s; BIP37: exactly ceil(bits / 8) flag bytes, padding bits zero"
              % (extra[:3], lost[:3]), sample={"domain": len(dom), "accepted": len(acc), "expected": len(want)})


# ------------------------------------------------------------------ C14.3
def c14_3(ctx):
    f = ctx.func(MPP, "post_unpack_merkleblock")
    _refcheck(ctx, MPP, "post_unpack_merkleblock", "mpp_post_unpack_merkleblock", "proof-verifier")
    _refcheck(ctx, MPP, "_recurse", "mpp_recurse", "traversal")
    _flag_bits_table(ctx, f)
    # the right child of node k at level l exists iff 2k+1 < width(l+1): the width compared is the width of the CHILD level
    r = ctx.func(MPP, "_recurse")
    rp = r.params()
    if len(rp) >= 3:
        lw, lvl, node = rp[0], rp[1], rp[2]
        wr = sym.walk(ctx, r, int_names=lambda t: True)
        ats = [a for a in sym.all_atoms(wr) if ("%s[" % lw) in a and node in a and " < " in a]
        if not ats:
            ctx.undecided("right-child-by-child-level-width", ctx.where(r), "_recurse: no comparison of a child index with a level width found")
        import re as _re
        for a in ats:
            idx = _re.findall(r"%s\[([^\]]+)\]" % _re.escape(lw), a)
            good = all(i.replace(" ", "") in ("%s+1" % lvl, "1+%s" % lvl) for i in idx)
            child = ("2 * %s" % node in a or "%s * 2" % node in a)
            if not child:
                ctx.undecided("right-child-by-child-level-width", ctx.where(r), "_recurse compares `%s`; this rule reads `2 * node + 1 < widths[level + 1]`" % a[:80])
                continue
            if not good and all(i.replace(" ", "") in ("len(%s)-1" % lw, "-1+len(%s)" % lw) for i in idx):
                # the leaf level's width IS the child level's width where the child level is the leaf level: every path that uses
                # this test must have established `level + 1 == len(widths) - 1`
                def _is_child_leaf(a2):
                    if ("len(%s)" % lw) not in a2 or lvl not in a2 or " == " not in a2:
                        return False
                    try:
                        f_ = lambda ln, lv: bool(eval(a2.replace("len(%s)" % lw, str(ln)), {"__builtins__": {}}, {lvl: lv}))
                        return f_(7, 5) and not f_(6, 5) and not f_(8, 5)
                    except Exception:
                        return False
                eqs = [a2 for a2 in sym.all_atoms(wr) if _is_child_leaf(a2)]
                users = [e for e in list(wr.exits) + list(wr.effects) if a in [o for o in (gi.f_opaques(getattr(e, "cond", None) if hasattr(e, "cond") else e.reach) if (getattr(e, "cond", None) if hasattr(e, "cond") else e.reach) not in (True, False, None) else [])]]
                cond_of = lambda e: e.cond if hasattr(e, "cond") else e.reach
                if eqs and users and all(any(sym.matters_only_when(cond_of(e), a, ("op", q)) for q in eqs) for e in users):
                    good = True
            ctx.check(good, "right-child-by-child-level-width", ctx.where(r), "_recurse decides whether the right child exists by `%s`: the width must be that of the child level `%s[%s + 1]`; with another level's width a right-edge node's missing child is read from the proof (or an existing one is skipped)" % (a[:90], lw, lvl),
                      sample={"test": a[:90]})
    m = ctx.func(MPP, "standard_message_post_unpacks")
    w = sym.walk(ctx, m)
    rets = [e for e in w.exits if e.kind == "return" and isinstance(e.value, ast.Dict)]
    ok = any(any(isinstance(k, ast.Constant) and k.value == "merkleblock" and norm(v) == "post_unpack_merkleblock" for k, v in zip(e.value.keys, e.value.values)) for e in rets)
    ctx.check(ok, "proof-check-registered", ctx.where(m), "merkleblock messages are not post-processed by the proof verifier")


def ltc_sections_in_wire_order(ctx):
    """a Litecoin block is a vector of transactions in Litecoin's extended form: after the outputs come the witness stacks (flag bit
    0x01) and only then the MWEB type byte (flag bit 0x08).  Whatever the spelling of LTCTx.parse, every read of a witness item
    precedes the read of the MWEB byte -- with both bits set (flag 0x09) any other order takes the witness count for the MWEB byte
    and the block is rejected or mis-parsed"""
    f = ctx.func("pycoin/coins/litecoin/__init__.py", "LTCTx.parse")
    node = sym.expanded(ctx, f)
    defs = df.single_defs(node)
    order = []
    all_defs = {}
    for a_ in ast.walk(node):
        if isinstance(a_, ast.Assign) and len(a_.targets) == 1 and isinstance(a_.targets[0], ast.Name):
            all_defs.setdefault(a_.targets[0].id, []).append(a_.value)
        elif isinstance(a_, ast.AnnAssign) and isinstance(a_.target, ast.Name) and a_.value is not None:
            all_defs.setdefault(a_.target.id, []).append(a_.value)

    def visit(n, under_mweb):
        if isinstance(n, ast.If):
            cands = [df.expand(n.test, defs)]
            for nm_ in [x.id for x in ast.walk(n.test) if isinstance(x, ast.Name)]:
                cands += all_defs.get(nm_, [])
            is_mweb = any(isinstance(x, ast.BinOp) and isinstance(x.op, ast.BitAnd) and any(df.const_int(y) == 8 for y in (x.left, x.right)) for t in cands for x in ast.walk(t))
            for c in ast.iter_child_nodes(n):
                visit(c, under_mweb or (is_mweb and c in n.body))
            return
        if isinstance(n, ast.Call):
            t = norm(n.func)
            if t.endswith("parse_satoshi_string"):
                order.append(("witness", n))
            elif under_mweb and t.endswith(".read"):
                order.append(("mweb", n))
        for c in ast.iter_child_nodes(n):
            visit(c, under_mweb)
    visit(node, False)
    kinds = [k for k, _n in order]
    if "witness" not in kinds or "mweb" not in kinds:
        ctx.undecided("ltc-sections-in-wire-order", ctx.where(f), "LTCTx.parse: the witness reads (parse_satoshi_string) and the MWEB byte read (under a test of flag bit 0x08) were not both found in a form this clause reads")
        return
    first_mweb = kinds.index("mweb")
    late = [n for k, n in order[first_mweb:] if k == "witness"]
    ctx.check(not late, "ltc-sections-in-wire-order", ctx.where(f, late[0]) if late else ctx.where(f),
              "LTCTx.parse reads the MWEB type byte before the witness stacks; Litecoin serialises the witnesses first: a transaction with flag 0x09 (witness and MWEB) is misaligned from there on and its block is rejected or mis-parsed",
              sample={"reads_in_order": kinds})


def c14_1b(ctx):
    c14_1(ctx)
    ltc_sections_in_wire_order(ctx)


OBLIGATIONS = [
    Ob("C14.1", "header writer/reader trace, id = dsha256(header), no stale memo, block writer/reader; Litecoin sections in wire order", c14_1b, floor=10, engines="SYM,DF", breaks_if="hash(); set_nonce(n); hash()"),
    Ob("C14.2", "merkle: per-level duplication of the odd element, pairwise hash, mismatch rejection reached with defaults", c14_2, floor=8, engines="SYM", breaks_if="blocks of 5, 6, 9-14 ... transactions"),
    Ob("C14.3", "BIP37 rejection guards: extra hashes, unconsumed flag bytes, padding bits (interval), root mismatch, duplicate children", c14_3, floor=3, engines="SYM", breaks_if="proof whose last flag byte has exactly the first padding bit set"),
]
