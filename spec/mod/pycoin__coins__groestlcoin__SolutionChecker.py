"""Transcription of every function of pycoin/coins/groestlcoin/SolutionChecker.py as of the reviewed tree (see DESIGN.md section 12).
NEVER IMPORTED OR EXECUTED: parsed and compared in canonical form (sa/sym.py) with the functions in /repo."""


_CONSTS = {
    'SIGHASH_ANYONECANPAY': 128,
    'SIGHASH_NONE': 2,
    'SIGHASH_SINGLE': 3,
    'ZERO32': b'\x00\x00\x00\x00\x00\x00\x00\x00\x00\x00\x00\x00\x00\x00\x00\x00\x00\x00\x00\x00\x00\x00\x00\x00\x00\x00\x00\x00\x00\x00\x00\x00',
}


# pycoin/coins/groestlcoin/SolutionChecker.py :: GroestlcoinSolutionChecker._hash_prevouts
def q__GroestlcoinSolutionChecker___hash_prevouts(self, hash_type):
    if hash_type & SIGHASH_ANYONECANPAY:
        return ZERO32
    f = io.BytesIO()
    for tx_in in self.tx.txs_in:
        f.write(tx_in.previous_hash)
        stream_struct('L', f, tx_in.previous_index)
    return sha256(f.getvalue())


# pycoin/coins/groestlcoin/SolutionChecker.py :: GroestlcoinSolutionChecker._hash_sequence
def q__GroestlcoinSolutionChecker___hash_sequence(self, hash_type):
    if hash_type & SIGHASH_ANYONECANPAY or hash_type & 31 == SIGHASH_SINGLE or hash_type & 31 == SIGHASH_NONE:
        return ZERO32
    f = io.BytesIO()
    for tx_in in self.tx.txs_in:
        stream_struct('L', f, tx_in.sequence)
    return sha256(f.getvalue())


# pycoin/coins/groestlcoin/SolutionChecker.py :: GroestlcoinSolutionChecker._hash_outputs
def q__GroestlcoinSolutionChecker___hash_outputs(self, hash_type, tx_in_idx):
    txs_out = self.tx.txs_out
    if hash_type & 31 == SIGHASH_SINGLE:
        if tx_in_idx >= len(txs_out):
            return ZERO32
        txs_out = txs_out[tx_in_idx:tx_in_idx + 1]
    elif hash_type & 31 == SIGHASH_NONE:
        return ZERO32
    f = io.BytesIO()
    for tx_out in txs_out:
        stream_struct('QS', f, tx_out.coin_value, tx_out.script)
    return sha256(f.getvalue())


# pycoin/coins/groestlcoin/SolutionChecker.py :: GroestlcoinSolutionChecker._signature_for_hash_type_segwit
def q__GroestlcoinSolutionChecker___signature_for_hash_type_segwit(self, script, tx_in_idx, hash_type):
    return from_bytes_32(sha256(self._segwit_signature_preimage(script, tx_in_idx, hash_type)))
