"""EX - exception escape: which exception types can leave an entry point?

Raisers: explicit `raise`, `assert`, and a table of standard-library operations that fail on data.
Handlers subtract by subclass.  Propagated over a resolved call graph to a fixpoint.  The analysis is
path-insensitive (may over-approximate): every escaping (exception, raising function) pair found on the
clean tree has to be either repaired or entered in the rule's infeasibility table with a reason.
"""
from __future__ import annotations

import ast
import builtins

from .pm import AnalysisError, norm, body_nodes, FuncInfo, ClassInfo, ModuleInfo
from . import df

STD_BASES = {"binascii.Error": "ValueError", "struct.error": "Exception", "UnicodeEncodeError": "UnicodeError", "UnicodeDecodeError": "UnicodeError",
             "UnicodeError": "ValueError", "json.JSONDecodeError": "ValueError", "decimal.InvalidOperation": "ArithmeticError"}

# method names too generic to resolve through "unique method name" heuristics
GENERIC = {"get", "append", "extend", "pop", "add", "update", "items", "keys", "values", "join", "split", "strip", "startswith", "endswith", "encode", "decode",
           "lower", "upper", "format", "read", "write", "find", "rfind", "replace", "copy", "sort", "reverse", "insert", "remove", "count", "index", "setdefault",
           "digest", "hexdigest", "getvalue", "to_bytes", "from_bytes", "bit_length", "isdigit", "cache", "match", "group", "search"}


class Escape:
    __slots__ = ("exc", "func", "where", "what", "via")

    def __init__(self, exc, func, where, what, via=()):
        self.exc = exc          # exception type name
        self.func = func        # qualname of the raising function
        self.where = where
        self.what = what        # normalised raising construct
        self.via = via          # call path (tuple of qualnames) from the entry to the raising function

    def key(self):
        return (self.exc, self.func, self.what)

    def __repr__(self):
        return "%s from %s `%s`" % (self.exc, self.func.split(".", 1)[-1], self.what[:60])


def _new_assert(fi, st):
    """the assert statement is absent from the reviewed transcription of its function (spec/mod); a function that has no
    transcription is judged as reviewed"""
    try:
        from . import modref
        tree = modref._tree(fi.module.name)
        if tree is None:
            return False
        top = fi
        while getattr(top, "parent", None) is not None:
            top = top.parent
        rn = modref.ref_name(fi)
        ref = next((n for n in tree.body if isinstance(n, ast.FunctionDef) and n.name == rn), None)
        if ref is None:
            # a helper added since the review: its assertions are new as well
            return not modref.is_reviewed(fi)
        have = {norm(a.test) for a in ast.walk(ref) if isinstance(a, ast.Assert)}
        return norm(st.test) not in have
    except Exception:
        return False


def _length_guarded_unpack(fi, call):
    """struct.unpack(<constant format>, X) after a top-level `if len(X) != N: raise ..` (or `if len(X) == N:` around it) with
    N = calcsize(format): the buffer has the one length unpack accepts"""
    import struct as _struct
    if len(call.args) < 2 or not (isinstance(call.args[0], ast.Constant) and isinstance(call.args[0].value, (str, bytes))):
        return False
    try:
        need = _struct.calcsize(call.args[0].value)
    except Exception:
        return False
    buf = norm(call.args[1])
    fn = fi.node
    if not isinstance(fn, (ast.FunctionDef, ast.AsyncFunctionDef)):
        return False
    for st in fn.body:
        if getattr(st, "lineno", 10 ** 9) >= call.lineno:
            break
        if isinstance(st, ast.If) and isinstance(st.test, ast.Compare) and len(st.test.ops) == 1 and isinstance(st.test.ops[0], ast.NotEq) \
                and norm(st.test.left) == "len(%s)" % buf and df.const_int(st.test.comparators[0]) == need and st.body and isinstance(st.body[-1], ast.Raise):
            # and the buffer is not re-bound in between
            rebound = any(isinstance(n, ast.Name) and isinstance(n.ctx, ast.Store) and n.id == buf for s2 in fn.body for n in ast.walk(s2) if st.lineno < getattr(s2, "lineno", 0) < call.lineno)
            if not rebound:
                return True
    return False


class EX:
    def __init__(self, program, bindings=None, extra_resolve=None):
        self.p = program
        self.bindings = bindings or {}          # dotted attribute path text -> list of FuncInfo
        self.extra_resolve = extra_resolve
        self.memo = {}
        self.in_progress = set()
        self.unresolved = {}
        self.by_method = {}
        for c in program.classes.values():
            for name, f in c.methods.items():
                self.by_method.setdefault(name, []).append(f)

    # --------------------------------------------------------- hierarchy
    def bases_of(self, name):
        short = name.split(".")[-1]
        for c in self.p.classes.values():
            if c.name == short:
                out = []
                for b in c.base_exprs:
                    out.append((df.dotted(b) or "object").split(".")[-1])
                return out
        if name in STD_BASES:
            return [STD_BASES[name]]
        if short in STD_BASES:
            return [STD_BASES[short]]
        cls = getattr(builtins, short, None)
        if isinstance(cls, type) and issubclass(cls, BaseException):
            return [b.__name__ for b in cls.__bases__]
        return ["Exception"]

    def is_sub(self, a, b, depth=0):
        a_s, b_s = a.split(".")[-1], b.split(".")[-1]
        if a_s == b_s or b_s in ("BaseException",):
            return True
        if depth > 10 or a_s in ("object", "BaseException"):
            return False
        return any(self.is_sub(x, b, depth + 1) for x in self.bases_of(a))

    # ----------------------------------------------------------- resolve
    def resolve(self, fi, call):
        """-> list of FuncInfo that the call may invoke (repo functions only)"""
        f = call.func
        out = []
        text = df.dotted(f)
        if text and text in self.bindings:
            return list(self.bindings[text])
        if self.extra_resolve is not None:
            r = self.extra_resolve(fi, call)
            if r is not None:
                return r
        if isinstance(f, ast.Name):
            # local function?
            q = fi.qualname
            while q:
                cand = self.p.functions.get("%s.%s" % (q, f.id))
                if cand is not None and cand.parent is not None:
                    return [cand]
                q = q.rsplit(".", 1)[0] if "." in q else ""
            r = self.p.resolve_global(fi.module, f.id)
            if isinstance(r, FuncInfo):
                return [r]
            if isinstance(r, ClassInfo):
                return self._ctor(r)
            return []
        if isinstance(f, ast.Attribute):
            base = f.value
            if isinstance(base, ast.Name) and base.id in ("self", "cls", "class_") and fi.cls is not None:
                m = self.p.lookup_method(fi.cls, f.attr)
                res = [m] if m is not None else []
                for sub in self.p.subclasses(fi.cls):
                    if f.attr in sub.methods:
                        res.append(sub.methods[f.attr])
                if res:
                    return res
                v = self.p.lookup_class_attr(fi.cls, f.attr)[1]
                if v is not None:
                    r = self.p.resolve_expr_static(fi.cls.module, v)
                    if isinstance(r, FuncInfo):
                        return [r]
                    if isinstance(r, ClassInfo):
                        return self._ctor(r)
            if isinstance(base, ast.Call) and isinstance(base.func, ast.Name) and base.func.id == "super" and fi.cls is not None:
                for k in self.p.mro(fi.cls)[1:]:
                    if f.attr in k.methods:
                        return [k.methods[f.attr]]
                return []
            r = self.p.resolve_expr_static(fi.module, f)
            if isinstance(r, FuncInfo):
                return [r]
            if isinstance(r, ClassInfo):
                return self._ctor(r)
            rb = self.p.resolve_expr_static(fi.module, base)
            if isinstance(rb, ClassInfo):
                m = self.p.lookup_method(rb, f.attr)
                if m is not None:
                    return [m]
            if isinstance(rb, ModuleInfo):
                return []
            if f.attr not in GENERIC and not f.attr.startswith("__"):
                cands = self.by_method.get(f.attr, [])
                if 0 < len(cands) <= 6:
                    return list(cands)
                if cands:
                    self.unresolved[norm(f)] = "ambiguous (%d)" % len(cands)
        return out

    def _ctor(self, c):
        out = []
        for name in ("__new__", "__init__"):
            m = self.p.lookup_method(c, name)
            if m is not None:
                out.append(m)
        return out

    # ----------------------------------------------------------- raisers
    def std_raisers(self, fi, node):
        """exceptions a standard-library operation can raise on data"""
        out = []
        if isinstance(node, ast.Call):
            fn = df.dotted(node.func) or ""
            last = fn.split(".")[-1]
            if fn == "int" and node.args and not isinstance(node.args[0], ast.Constant):
                a = node.args[0]
                if not (isinstance(a, ast.Call) and (df.dotted(a.func) or "") in ("len", "float", "round", "abs", "ord")) and not isinstance(a, (ast.BinOp, ast.Compare)):
                    out.append(("ValueError", norm(node)))
            elif fn in ("binascii.unhexlify", "binascii.a2b_hex", "unhexlify", "a2b_base64", "binascii.a2b_base64", "bytes.fromhex", "bytearray.fromhex"):
                out.append(("binascii.Error", norm(node)))
            elif fn in ("struct.unpack", "struct.unpack_from"):
                if not _length_guarded_unpack(fi, node):
                    out.append(("struct.error", norm(node)))
            elif fn == "struct.pack":
                out.append(("struct.error", norm(node)))
            elif last == "encode" and isinstance(node.func, ast.Attribute) and not isinstance(node.func.value, ast.Constant):
                out.append(("UnicodeEncodeError", norm(node)))
            elif last == "decode" and isinstance(node.func, ast.Attribute) and node.args and isinstance(node.args[0], ast.Constant):
                out.append(("UnicodeDecodeError", norm(node)))
            elif fn == "ord" and node.args and isinstance(node.args[0], ast.Subscript) and isinstance(node.args[0].slice, ast.Slice):
                out.append(("TypeError", norm(node)))
            elif last == "to_bytes" and isinstance(node.func, ast.Attribute):
                # x.to_bytes(n, ..) overflows when n bytes are too few -- not when n is computed from x.bit_length()
                recv = norm(node.func.value)
                size = node.args[0] if node.args else None
                if isinstance(size, ast.Name):
                    size = df.single_defs(fi.node).get(size.id, size)
                sized_by_itself = size is not None and ("%s.bit_length()" % recv) in norm(size) and not recv.startswith("-")
                if not sized_by_itself:
                    out.append(("OverflowError", norm(node)))
        return out

    def may_return_empty(self, fi):
        for r in df.returns_of(fi.node):
            if isinstance(r.value, (ast.List, ast.Tuple)) and not r.value.elts:
                return True
        return False

    # ---------------------------------------------------------- analysis
    def escapes(self, fi, depth=0):
        if fi.qualname in self.memo:
            return self.memo[fi.qualname]
        if fi.qualname in self.in_progress or depth > 40:
            return []
        self.in_progress.add(fi.qualname)
        self.p.consulted.add(fi.module.name)
        out = {}
        body = fi.node.body if not isinstance(fi.node, ast.Lambda) else [ast.Expr(fi.node.body)]
        self._block(fi, body, [], out, depth)
        self.in_progress.discard(fi.qualname)
        res = list(out.values())
        self.memo[fi.qualname] = res
        return res

    def _caught(self, exc, handlers):
        for types in handlers:
            for t in types:
                if t is None or self.is_sub(exc, t):
                    return True
        return False

    def _add(self, out, esc, handlers):
        if self._caught(esc.exc, handlers):
            return
        out.setdefault(esc.key(), esc)

    def _handler_types(self, fi, h):
        if h.type is None:
            return [None]
        ts = h.type.elts if isinstance(h.type, ast.Tuple) else [h.type]
        return [df.dotted(t) or "Exception" for t in ts]

    def _block(self, fi, body, handlers, out, depth):
        for st in body:
            self._stmt(fi, st, handlers, out, depth)

    def _stmt(self, fi, st, handlers, out, depth):
        if isinstance(st, (ast.FunctionDef, ast.AsyncFunctionDef, ast.ClassDef)):
            return
        if isinstance(st, ast.Try):
            hts = [self._handler_types(fi, h) for h in st.handlers]
            self._block(fi, st.body, handlers + hts, out, depth)
            for h in st.handlers:
                # a bare `raise` inside a handler re-raises what the handler caught
                self._block(fi, h.body, handlers, out, depth)
            self._block(fi, st.orelse, handlers, out, depth)
            self._block(fi, st.finalbody, handlers, out, depth)
            return
        if isinstance(st, ast.Raise):
            if st.exc is None:
                exc = "Exception"
            else:
                e = st.exc.func if isinstance(st.exc, ast.Call) else st.exc
                exc = df.dotted(e) or "Exception"
                if exc.startswith("self.") or exc.startswith("class_.") or exc.startswith("cls."):
                    exc = exc.split(".")[-1]
            self._add(out, Escape(exc, fi.qualname, "%s:%d" % (fi.module.relpath, st.lineno), norm(st)[:120]), handlers)
            if st.exc is not None:
                self._expr(fi, st.exc, handlers, out, depth)
            return
        if isinstance(st, ast.Assert):
            # an assertion the reviewed function did not have states a belief about values the surrounding code has already
            # established (and python -O removes it): it is not counted as a way to fail.  Assertions of the reviewed tree are
            # raisers, each tabulated by the rules with the reason it cannot fire.
            if not _new_assert(fi, st):
                self._add(out, Escape("AssertionError", fi.qualname, "%s:%d" % (fi.module.relpath, st.lineno), norm(st)[:120]), handlers)
            self._expr(fi, st.test, handlers, out, depth)
            return
        # fixed-arity unpacking of a split / call result
        if isinstance(st, ast.Assign) and isinstance(st.targets[0], ast.Tuple) and isinstance(st.value, ast.Call) and df.last_attr(st.value) == "split":
            guard = ru_in_guard(fi.node, st) or _path_guarantees_arity(fi.node, st)
            # `sep in s` gives at least two parts; at MOST as many as there are names only with maxsplit = names - 1
            want_ = len(st.targets[0].elts) - 1
            ms_ = st.value.args[1] if len(st.value.args) >= 2 else next((k.value for k in st.value.keywords if k.arg == "maxsplit"), None)
            if any(isinstance(x, ast.Starred) for x in st.targets[0].elts):
                want_ = None
            if want_ is not None and not (isinstance(ms_, ast.Constant) and ms_.value == want_):
                guard = False
            if not guard:
                self._add(out, Escape("ValueError", fi.qualname, "%s:%d" % (fi.module.relpath, st.lineno), norm(st)[:120]), handlers)
        for fld, val in ast.iter_fields(st):
            if isinstance(val, list):
                if val and isinstance(val[0], ast.stmt):
                    self._block(fi, val, handlers, out, depth)
                else:
                    for v in val:
                        if isinstance(v, ast.AST):
                            self._expr(fi, v, handlers, out, depth)
            elif isinstance(val, ast.AST):
                self._expr(fi, val, handlers, out, depth)

    def _expr(self, fi, e, handlers, out, depth):
        for n in _walk_expr(e):
            if isinstance(n, ast.Call):
                for exc, what in self.std_raisers(fi, n):
                    self._add(out, Escape(exc, fi.qualname, "%s:%d" % (fi.module.relpath, n.lineno), what[:120]), handlers)
                for tgt in self.resolve(fi, n):
                    for esc in self.escapes(tgt, depth + 1):
                        if not self._caught(esc.exc, handlers):
                            k = esc.key()
                            if k not in out:
                                out[k] = Escape(esc.exc, esc.func, esc.where, esc.what, (tgt.qualname,) + tuple(esc.via))
            elif isinstance(n, ast.Subscript) and isinstance(n.value, ast.Call) and not isinstance(n.slice, ast.Slice):
                # f(...)[k] where f may return an empty sequence
                for tgt in self.resolve(fi, n.value):
                    if self.may_return_empty(tgt):
                        self._add(out, Escape("IndexError", fi.qualname, "%s:%d" % (fi.module.relpath, n.lineno), norm(n)[:120]), handlers)
            elif isinstance(n, ast.Lambda):
                pass


def attributed(program, e):
    """the reviewed function an escape belongs to: the raising function itself, or -- when that is a helper added since
    the review (code moved out of a reviewed function) -- the nearest reviewed function on the call path"""
    from . import modref
    fi = program.functions.get(e.func)
    if fi is None or modref.is_reviewed(fi):
        return e.func
    for q in reversed(tuple(e.via)):
        g = program.functions.get(q)
        if g is not None and modref.is_reviewed(g):
            return q
    return e.func


def _walk_expr(e):
    stack = [e]
    while stack:
        n = stack.pop()
        yield n
        for ch in ast.iter_child_nodes(n):
            if isinstance(ch, (ast.Lambda, ast.FunctionDef, ast.ClassDef)):
                continue
            stack.append(ch)


_ARITY = {}


def _path_guarantees_arity(func_node, stmt):
    """every path reaching `a, b = s.split(sep, 1)` has passed a test that sep is in s -- whatever form the test takes
    (an enclosing if, a guard clause that continues / returns, a helper) -- decided on the path conditions (sa/sym.py)"""
    from . import sym
    k = id(func_node)
    if k not in _ARITY:
        try:
            w = sym.SymWalker(func_node, sym.Canon(None, None, None), None)
            w.run()
            _ARITY[k] = {id(st) for st, r in w.unpack_risks}
        except Exception:
            _ARITY[k] = None
    risks = _ARITY[k]
    return risks is not None and id(stmt) not in risks


def ru_in_guard(func_node, stmt):
    """is the statement inside an `if <sep> in <s>:` body (guarding a fixed-arity split)?"""
    for n in ast.walk(func_node):
        if isinstance(n, ast.If) and isinstance(n.test, ast.Compare) and len(n.test.ops) == 1 and isinstance(n.test.ops[0], ast.In):
            if any(x is stmt for s in n.body for x in ast.walk(s)):
                return True
    return False
