"""C17 - signed messages: structural obligations (DESIGN.md section 4, C17)."""
from __future__ import annotations

import ast

from sa.core import Ob
from sa.pm import AnalysisError, norm, body_nodes
from sa import gi, df, ru, ct
from sa.gi import IntSet, iv, GuardWalker, SymbolicAtomizer
from sa.ex import EX
from rules import netbind
from rules.C18 import INFEASIBLE as PARSE_INFEASIBLE

MSG = "pycoin/contrib/msg_signing.py"
U, E = IntSet.all(), IntSet.empty()

INFEASIBLE = {
    ("AssertionError", "pycoin.ecdsa.Curve.Curve.inverse_mod"): "the modulus is the prime group order and pair_for_message_hash admits only 1 <= r < order (checked by C17.3), so gcd(r, n) = 1",
    ("AssertionError", "pycoin.ecdsa.Generator.Generator.inverse"): "every shipped generator has an order",
    ("AssertionError", "pycoin.ecdsa.Generator.Generator.raw_mul"): "every shipped generator has an order",
    ("AssertionError", "pycoin.ecdsa.Curve._leftmost_bit"): "multiply returns early for e == 0",
    ("UnicodeEncodeError", "pycoin.contrib.msg_signing.MessageSigner.hash_for_signing"): "the message (not the signature) is assumed to be encodable text; the property quantifies over arbitrary SIGNATURE text",
    ("OverflowError", "pycoin.encoding.bytes32.to_bytes_32"): "recovered coordinates are reduced modulo p < 2^256",
    ("struct.error", "pycoin.satoshi.satoshi_int.stream_satoshi_int"): "each struct.pack is guarded by the value interval of its format (checked by C07.3); lengths are non-negative",
}


# ------------------------------------------------------------------ C17.1
def c17_1(ctx):
    ex = ctx.cache.setdefault("ex", EX(ctx.p, extra_resolve=netbind.make_resolver(ctx)))
    f = ctx.func(MSG, "MessageSigner.verify_message")
    escs = ex.escapes(f)
    for e in escs:
        why = INFEASIBLE.get((e.exc, e.func)) or next((w for (ent, exc, fn), w in PARSE_INFEASIBLE.items() if exc == e.exc and fn == e.func), None)
        ctx.check(why is not None, "escape:%s:%s" % (e.exc, e.func.split(".")[-1]), e.where,
                  "MessageSigner.verify_message can raise %s (from %s: `%s`, via %s): malformed or unrecoverable signature text must yield False"
                  % (e.exc, e.func.split(".", 1)[-1], e.what[:70], " -> ".join(v.split(".")[-1] for v in e.via[:6]) or "itself"),
                  what="escape:%s:%s" % (e.exc, e.func), sample={"exception": e.exc, "raised_in": e.func, "construct": e.what[:80], "disposition": why})
    ctx.ok("verify_message analysed", sample={"raw_escapes": len(escs)})
    # what verify_message itself converts
    hs = [h for n in body_nodes(f.node) if isinstance(n, ast.Try) for h in n.handlers]
    names = {(df.dotted(x) or "").split(".")[-1] for h in hs for x in ((h.type.elts if isinstance(h.type, ast.Tuple) else [h.type]) if h.type is not None else [])}
    ctx.check("EncodingError" in names or "ValueError" in names or "Exception" in names, "decode-errors-to-false", ctx.where(f), "verify_message does not convert decoding errors to False")
    ret_false = any(isinstance(s, ast.Return) and isinstance(s.value, ast.Constant) and s.value.value is False for h in hs for s in h.body)
    ctx.check(ret_false, "handler-returns-false", ctx.where(f), "the decoding-error handler does not return False")
    d = ctx.func(MSG, "MessageSigner._decode_signature")
    tries = [n for n in body_nodes(d.node) if isinstance(n, ast.Try) and any("a2b_base64(signature)" in norm(s) for s in n.body)]
    ok = len(tries) == 1 and any(any(isinstance(s, ast.Raise) and "EncodingError" in norm(s) for s in h.body) for h in tries[0].handlers)
    ctx.check(ok, "base64-errors", ctx.where(d), "_decode_signature does not turn base64 errors into EncodingError")
    # empty message is a message: the digest is chosen by `message is not None`
    tests = [n.test for n in ast.walk(f.node) if isinstance(n, ast.IfExp) and "hash_for_signing" in norm(n.body)] + [n.test for n in body_nodes(f.node) if isinstance(n, ast.If) and any("hash_for_signing" in norm(s) for s in n.body)]
    ok = len(tests) == 1 and isinstance(tests[0], ast.Compare) and isinstance(tests[0].ops[0], ast.IsNot) and norm(tests[0].left) == f.params()[3] and isinstance(tests[0].comparators[0], ast.Constant) and tests[0].comparators[0].value is None
    ctx.check(ok, "message-presence-test", ctx.where(f), "verify_message chooses the digest by `%s`; an empty message is still a message: the test must be `message is not None`" % [norm(t) for t in tests], sample={"test": [norm(t) for t in tests]})


# ------------------------------------------------------------------ C17.2
def c17_2(ctx):
    d = ctx.func(MSG, "MessageSigner._decode_signature")
    w = GuardWalker(SymbolicAtomizer(ru.subject({"first"}), df.const_int))
    ex = w.run(d.node.body)
    s, n = ru.guard_reject_set(d.node, w, ex, ru.is_raise, U, E)
    ctx.check(s == iv(27, 34).complement(), "header-range", ctx.where(d), "_decode_signature rejects header bytes %s, must be exactly outside 27..34" % s.fmt(), sample={"subject": "first", "rejected": s.fmt()})
    s2, n2 = ru.guard_reject_set(d.node, GuardWalker(SymbolicAtomizer(ru.subject({"len(sig)"}), df.const_int)), GuardWalker(SymbolicAtomizer(ru.subject({"len(sig)"}), df.const_int)).run(d.node.body), ru.is_raise, U, E)
    ctx.check(s2 == iv(65, 65).complement(), "signature-length", ctx.where(d), "_decode_signature rejects lengths %s, must be exactly != 65" % s2.fmt())
    top = d.node.body
    sub = [i for i, st in enumerate(top) if isinstance(st, ast.AugAssign) and norm(st.target) == "first" and isinstance(st.op, ast.Sub) and df.const_int(st.value) == 27]
    rng = [i for i, st in enumerate(top) if isinstance(st, ast.If) and "first" in norm(st.test) and any(isinstance(x, ast.Raise) for x in st.body)]
    rets = df.returns_of(d.node)
    ok = len(sub) == 1 and len(rng) == 1 and rng[0] < sub[0] and len(rets) == 1 and isinstance(rets[0].value, ast.Tuple) and len(rets[0].value.elts) == 4
    defs = df.single_defs(d.node)
    if ok:
        bdefs = {k: v for k, v in defs.items() if k in ("is_compressed", "recid", "r", "s")}
        elts = [norm(df.expand(e, bdefs)) for e in rets[0].value.elts]
        ok = elts[0] in ("bool(first & 4)", "first & 4 != 0") and elts[1] in ("first & 3",) and elts[2] == "from_bytes_32(sig[1:33])" and elts[3] in ("from_bytes_32(sig[33:33 + 32])", "from_bytes_32(sig[33:65])", "from_bytes_32(sig[33:])")
    ctx.check(ok, "header-fields", ctx.where(d),
              "_decode_signature does not return (compressed = bit 2 of first-27, recid = low TWO bits of first-27, r = bytes 1..32, s = bytes 33..64): %s" % ([norm(df.expand(e, {k: v for k, v in defs.items() if k in ("is_compressed", "recid", "r", "s")})) for e in rets[0].value.elts] if rets and isinstance(rets[0].value, ast.Tuple) else None),
              sample={"returned": [norm(e) for e in rets[0].value.elts] if rets and isinstance(rets[0].value, ast.Tuple) else None})
    sg = ctx.func(MSG, "MessageSigner.signature_for_message_hash")
    t = norm(sg.node)
    ctx.check("first = 27 + recid + (4 if is_compressed else 0)" in t and "bytes([first]) + to_bytes_32(r) + to_bytes_32(s)" in t and "self._generator.sign_with_recid(secret_exponent, msg_hash)" in t, "header-writer", ctx.where(sg),
              "signature_for_message_hash does not write 27 + recid + 4*compressed, r, s")


# ------------------------------------------------------------------ C17.3
def c17_3(ctx):
    f = ctx.func(MSG, "MessageSigner.pair_for_message_hash")
    defs = df.single_defs(f.node)
    const = ru.const_resolver(ctx, f, {"self._generator.order()"})
    for subj in ("r", "s"):
        w = GuardWalker(SymbolicAtomizer(ru.subject({subj}), const))
        ex = w.run(f.node.body)
        s, n = ru.guard_reject_set(f.node, w, ex, ru.is_raise, U, E)
        ctx.check(s == iv(1, ("s", -1)).complement(), "recovery-range:%s" % subj, ctx.where(f), "pair_for_message_hash rejects %s in %s, must be exactly outside [1, n-1]" % (subj, s.fmt("n")), sample={"subject": subj, "rejected": s.fmt("n")})
    x = defs.get("x")
    ok = isinstance(x, ast.IfExp) and norm(df.expand(x.body, {k: v for k, v in defs.items() if k == "order"})) == "r + self._generator.order()" and norm(x.orelse) == "r" and norm(x.test) == "recid > 1"
    ctx.check(ok, "nonce-x-coordinate", ctx.where(f), "the nonce point's x coordinate is `%s`; it is r + order exactly for recovery ids 2 and 3" % (norm(x) if x is not None else None), sample={"x": norm(x) if x is not None else None})
    calls = [c for c in df.calls_in(f.node) if df.last_attr(c) == "possible_public_pairs_for_signature"]
    ok = len(calls) == 1 and norm(calls[0].args[0]) == f.params()[2] and norm(calls[0].args[1]) == "(x, s)" and any(k.arg == "y_parity" and norm(df.expand(k.value, defs)) == "recid & 1" for k in calls[0].keywords)
    ctx.check(ok, "recovery-call", ctx.where(f), "recovery is not possible_public_pairs_for_signature(hash, (x, s), y_parity=recid & 1)")
    # the order is never added to a coordinate of the recovered key
    bad = [n for n in body_nodes(f.node) if isinstance(n, ast.BinOp) and isinstance(n.op, ast.Add) and any(isinstance(o, ast.Subscript) for o in (n.left, n.right)) and "order" in norm(n)]
    ctx.check(not bad, "no-order-on-key-coordinate", ctx.where(f), "pair_for_message_hash adds the order to a coordinate of the recovered key (`%s`): the order belongs to the nonce point's x" % [norm(b) for b in bad])
    w = GuardWalker(ru.opaque)
    ex = w.run(f.node.body)
    rs = [gi.f_opaques(e.cond) for e in ex if e.kind == "raise"]
    flat = [o for c in rs for o in c]
    ctx.check(any("len(pairs) == 0" in o for o in flat) and any("infinity" in o for o in flat), "unrecoverable-cases", ctx.where(f), "pair_for_message_hash does not refuse `no curve point` and `recovered key is infinity`")
    ctx.check(any(o.startswith("x >= self._generator.p()") or o == "x >= self._generator.p()" for o in flat), "x-below-p", ctx.where(f), "pair_for_message_hash does not refuse x >= p")
    m = ctx.func(MSG, "MessageSigner.pair_matches_key")
    t = norm(m.node)
    ctx.check("return bool(key.public_pair() == pair)" in t and "pair_hash160 = public_pair_to_hash160_sec(pair, compressed=is_compressed)" in t and "return bool(key_hash160 == pair_hash160)" in t, "key-comparison", ctx.where(m),
              "pair_matches_key does not compare the recovered pair with the key's pair, or its hash160 (with the signature's compression flag) with the address")


# ------------------------------------------------------------------ C17.4
def c17_4(ctx):
    f = ctx.func(MSG, "MessageSigner.hash_for_signing")
    msg = f.params()[1]
    tr = ct.write_trace(f.node, "fd")
    got = [(i.fmt, i.value) for i in tr]
    ctx.check(got == [("S", "self.msg_magic_for_netcode().encode('utf8')"), ("S", "%s.encode('utf8')" % msg)], "digest-trace", ctx.where(f), "hash_for_signing streams %s; the digest covers varstr(magic) || varstr(message) with the message text unchanged" % got,
              sample={"trace": [repr(i) for i in tr]})
    asg = df.assignments(f.node)
    ctx.check(msg not in asg, "message-unmodified", ctx.where(f), "hash_for_signing rewrites the message before hashing it (`%s`): two different texts share one digest" % [norm(st) for v, st in asg.get(msg, [])],
              sample={"reassignments": [norm(st) for v, st in asg.get(msg, [])]})
    rets = df.returns_of(f.node)
    ctx.check(len(rets) == 1 and norm(rets[0].value) == "from_bytes_32(double_sha256(fd.getvalue()))", "digest", ctx.where(f), "hash_for_signing is not double_sha256 of the stream")
    m = ctx.func(MSG, "MessageSigner.msg_magic_for_netcode")
    ctx.check("return '%s Signed Message:\\n' % self._network_name" in norm(m.node), "magic", ctx.where(m), "the magic prefix is not `<network name> Signed Message:\\n`")
    s = ctx.func(MSG, "MessageSigner.sign_message")
    t = norm(s.node)
    ctx.check("msg_hash = self.hash_for_signing(message)" in t and "is_compressed = key.is_compressed()" in t and "addr = key.address()" in t and "self.signature_for_message_hash(secret_exponent, msg_hash, is_compressed)" in t, "sign-pipeline", ctx.where(s),
              "sign_message does not hash the message, take the key's compression flag and sign")


OBLIGATIONS = [
    Ob("C17.1", "exception escape of verify_message is empty modulo tabulated infeasible pairs; message presence test", c17_1, floor=6, engines="EX,DF", breaks_if="non-base64 text, r without curve point, recovery ids 2/3, empty message"),
    Ob("C17.2", "compact signature header: accepted 27..34, compressed = bit 2, recid = low two bits, length 65", c17_2, floor=4, engines="GI,DF", breaks_if="header byte bumped by 2"),
    Ob("C17.3", "recovery arithmetic: r,s in [1,n-1]; x = r + order exactly for recid > 1; no order on key coordinates", c17_3, floor=8, engines="GI,MK"),
    Ob("C17.4", "digest = dsha256(varstr(magic) || varstr(message)), message unmodified", c17_4, floor=5, engines="CT,DF", breaks_if="messages differing only in CRLF vs LF"),
]
