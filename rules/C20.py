"""C20 - context-free transaction check.  Structural obligations (DESIGN.md section 4, C20).
All guard rules work on the canonical symbolic store (sa/sym.py): locals are substituted away, so renaming,
temporaries, De Morgan rewrites, early returns and named constants do not change what is computed here."""
from __future__ import annotations

import ast

from sa.core import Ob
from sa.pm import AnalysisError, Undecided, norm, body_nodes
from sa import gi, df, ru, sym
from sa.gi import IntSet, iv

TX = "pycoin/coins/bitcoin/Tx.py"
TXIN = "pycoin/coins/bitcoin/TxIn.py"
VFE = "ValidationFailureError"
U, E = IntSet.all(), IntSet.empty()
_is_raise_vfe = ru.is_raise_of(VFE)


def _sat(f):
    """satisfiable for some assignment of the opaque atoms and some subject value"""
    import itertools
    if f in (True, False):
        return f
    ops = gi.f_opaques(f)
    return any(not gi.f_eval(f, dict(zip(ops, bits)), U, E).is_empty() for bits in itertools.product((False, True), repeat=len(ops)))


def _loops_over(w, fi, iter_text):
    out = []
    for n in ast.walk(fi.node):
        if isinstance(n, ast.For) and w.canon.text(n.iter) == iter_text and isinstance(n.target, ast.Name):
            out.append(n)
        elif isinstance(n, ast.For) and isinstance(n.iter, ast.Name) and isinstance(n.target, ast.Name):
            d = df.single_defs(fi.node).get(n.iter.id)
            if d is not None and norm(d) == iter_text:
                out.append(n)
    return out


def _other_iteration(f):
    """the function iterates in a form the loop rules do not read: a while loop, iter() / next(), a comprehension over the inputs"""
    for n in ast.walk(f.node):
        if isinstance(n, ast.While):
            return True
        if isinstance(n, ast.Call) and isinstance(n.func, ast.Name) and n.func.id in ("iter", "next", "map", "filter"):
            return True
        if isinstance(n, ast.For) and isinstance(n.iter, ast.Call) and isinstance(n.iter.func, ast.Name) and n.iter.func.id in ("enumerate", "zip", "reversed", "range", "sorted", "list", "tuple"):
            return True         # for i, x in enumerate(self.txs_in, 1): the elements are walked, under another header
    return False


# ------------------------------------------------------------------ C20.1
def _per_coin_limits(ctx):
    """the limits of the validity rules are class attributes that other coins override (Groestlcoin's MAX_MONEY): a check that
    compares with the module constant of the same name applies Bitcoin's limit to every coin"""
    c = ctx.p.cls(TX, "Tx")
    mod = ctx.p.module(TX)
    n = 0
    for name in ("_check_txs_out", "_check_txs_in", "_check_size_limit", "_check_tx_inout_count"):
        f = ctx.func(TX, "Tx." + name)
        local = set(f.params()) | {x.id for x in ast.walk(f.node) if isinstance(x, ast.Name) and isinstance(x.ctx, ast.Store)}
        for cmp_ in [x for x in ast.walk(f.node) if isinstance(x, ast.Compare)]:
            for opnd in [cmp_.left] + list(cmp_.comparators):
                for x in ast.walk(opnd):
                    n += 1
                    if isinstance(x, ast.Name) and x.id not in local and x.id in c.attrs and x.id.isupper():
                        ctx.bad("per-coin-limit:%s:%s" % (name, x.id), ctx.where(f, cmp_),
                                "Tx.%s compares with the module constant `%s` in `%s`; the limit is the class attribute self.%s, which other coins override" % (name, x.id, norm(cmp_)[:80], x.id))
    ctx.ok("per-coin-limits", sample={"operands_scanned": n})


def c20_1(ctx):
    _per_coin_limits(ctx)
    f = ctx.func(TX, "Tx._check_txs_out")
    w0 = sym.walk(ctx, f)
    loops = _loops_over(w0, f, "self.txs_out")
    if len(loops) != 1:
        raise Undecided("%s: expected one loop over self.txs_out" % f.where)
    lv = loops[0].target.id
    subj = "%s.coin_value" % lv
    w = sym.int_walk(ctx, f, {subj}, {"self.MAX_MONEY"})
    fr = sym.exits_formula(w, _is_raise_vfe)
    must = sym.must_set(fr, U, E) if fr is not False else E       # rejected whatever the other tests say
    want = iv(0, ("s", 0)).complement()
    ctx.check(must == want, "value-range", ctx.where(f),
              "Tx._check_txs_out: outputs rejected by the value guard are %s; the property requires exactly %s (MAX = self.MAX_MONEY, the per-coin limit)" % (must.fmt("MAX"), want.fmt("MAX")),
              sample={"function": f.qualname, "subject": subj, "rejected": must.fmt("MAX"), "expected": want.fmt("MAX")})
    # the accumulation, in either spelling: `total += v` or `total = total + v` (v the value, possibly through a local)
    sdefs = df.single_defs(f.node)
    is_subj = lambda x: norm(x) == subj or (isinstance(x, ast.Name) and x.id in sdefs and norm(sdefs[x.id]) == subj)
    accs = []
    for st in ast.walk(loops[0]):
        if isinstance(st, ast.AugAssign) and isinstance(st.op, ast.Add) and isinstance(st.target, ast.Name) and is_subj(st.value):
            accs.append(st.target.id)
        elif isinstance(st, ast.Assign) and len(st.targets) == 1 and isinstance(st.targets[0], ast.Name) and isinstance(st.value, ast.BinOp) and isinstance(st.value.op, ast.Add):
            t, l, r = st.targets[0].id, st.value.left, st.value.right
            if (isinstance(l, ast.Name) and l.id == t and is_subj(r)) or (isinstance(r, ast.Name) and r.id == t and is_subj(l)):
                accs.append(t)
    if not accs:
        raise Undecided("Tx._check_txs_out: no accumulation `total += %s` found inside the loop over the outputs; this rule does not read how the total is formed" % subj)
    if len(accs) != 1:
        ctx.bad("running-total", ctx.where(f), "Tx._check_txs_out: the value of an output is added to a total %d times inside the loop over the outputs" % len(accs))
        return
    acc = accs[0]
    inits = [st for st in body_nodes(f.node) if isinstance(st, (ast.Assign, ast.AnnAssign)) and norm(st.targets[0] if isinstance(st, ast.Assign) else st.target) == acc]
    in_loop = {id(x) for x in ast.walk(loops[0])}
    inside = [st for st in inits if id(st) in in_loop]
    inits = [st for st in inits if id(st) not in in_loop]
    n_aug = len([st for st in ast.walk(loops[0]) if isinstance(st, ast.AugAssign) and norm(st.target) == acc])
    ok = len(inits) == 1 and df.const_int(inits[0].value) == 0 and len(inside) + n_aug == 1
    ctx.check(ok, "running-total-init", ctx.where(f), "Tx._check_txs_out: the running total is not initialised to 0 once before the loop")
    tot = "%s + %s" % (acc, subj)
    w2 = sym.int_walk(ctx, f, {tot}, {"self.MAX_MONEY"})
    fr2 = sym.exits_formula(w2, _is_raise_vfe)
    s2 = sym.must_set(fr2, U, E) if fr2 is not False else E
    want2 = iv(("s", 1), None)
    # totals above the limit must be refused, totals inside 0..MAX must not be (a negative total cannot occur: either way)
    ctx.check(want2.issubset(s2) and s2.issubset(iv(0, ("s", 0)).complement()), "running-total-range", ctx.where(f),
              "Tx._check_txs_out: the total INCLUDING the current output is rejected on %s; the property requires exactly %s (a total that crosses MAX_MONEY only with the last output must be caught; the per-coin limit must be used)"
              % (s2.fmt("MAX"), want2.fmt("MAX")), sample={"subject": "running total after adding the current output", "rejected": s2.fmt("MAX"), "expected": want2.fmt("MAX")})
    it = ctx.interp
    for rel, cls, want_v in ((TX, "Tx", 21000000 * 10 ** 8), ("pycoin/coins/groestlcoin/Tx.py", "Tx", 105000000 * 10 ** 8)):
        m = ctx.p.module(rel)
        val = it.getattr(it.get(m.name, cls), "MAX_MONEY")
        ctx.check(val == want_v, "MAX_MONEY:%s" % m.name, "%s:1" % rel, "%s.%s.MAX_MONEY evaluates to %r, expected %d" % (m.name, cls, val, want_v), sample={"class": "%s.%s" % (m.name, cls), "MAX_MONEY": val})
    # coinbase script length
    f = ctx.func(TX, "Tx._check_txs_in")
    w = sym.int_walk(ctx, f, {"len(self.txs_in[0].script)"})
    fr = sym.exits_formula(w, _is_raise_vfe)
    s, n = sym.decisive_set(fr, U, E) if fr is not False else (E, 0)
    want = iv(2, 100).complement()
    if s == E:
        unread = [o for e in w.exits for o in (gi.f_opaques(e.cond) if e.cond not in (True, False) else []) if isinstance(o, str) and "len(self.txs_in[0].script)" in o]
        if unread:
            raise Undecided("Tx._check_txs_in tests the coinbase script length as `%s`, a form this rule does not read" % unread[0][:80])
    ctx.check(s == want, "coinbase-script-length", ctx.where(f), "Tx._check_txs_in: coinbase script lengths rejected are %s, property requires exactly %s" % (s.fmt(), want.fmt()),
              sample={"subject": "len(self.txs_in[0].script)", "rejected": s.fmt(), "expected": want.fmt()})
    cb = [e for e in w.exits if _is_raise_vfe(e) and gi.involves_subject(e.cond)]
    ok = bool(cb) and all(not _sat(gi.f_and(e.cond, ("not", ("op", "truthy(self.is_coinbase())")))) for e in cb)
    ctx.check(ok, "coinbase-script-branch", ctx.where(f), "Tx._check_txs_in: the script-length rule is not restricted to coinbase transactions")
    # size limit
    f = ctx.func(TX, "Tx._check_size_limit")
    w = sym.int_walk(ctx, f, {"len(self.as_bin())", "len(self.as_bin(include_witness_data=False))"}, {"self.MAX_TX_SIZE"})
    fr = sym.exits_formula(w, _is_raise_vfe)
    s = sym.must_set(fr, U, E) if fr is not False else E
    want = iv(("s", 1), None)
    if s == E and (fr is False or not gi.involves_subject(fr)):
        # the size is measured some other way (a stream position, a helper): nothing this rule can put an interval on
        unread = [o for e in w.exits for o in (gi.f_opaques(e.cond) if e.cond not in (True, False) else []) if isinstance(o, str) and "MAX_TX_SIZE" in o]
        if unread or fr is False:
            raise Undecided("Tx._check_size_limit compares `%s` with the limit; this rule reads len(self.as_bin(..)) only" % (unread[0][:80] if unread else "nothing it can read"))
    ctx.check(s == want, "size-limit", ctx.where(f), "Tx._check_size_limit: sizes rejected are %s, property requires exactly %s" % (s.fmt("MAX_TX_SIZE"), want.fmt("MAX_TX_SIZE")), sample={"subject": "len(self.as_bin())", "rejected": s.fmt("MAX_TX_SIZE")})
    val = it.getattr(it.get(ctx.p.module(TX).name, "Tx"), "MAX_TX_SIZE")
    ctx.check(val == 1000000, "MAX_TX_SIZE", "%s:1" % TX, "Tx.MAX_TX_SIZE evaluates to %r, expected 1000000" % (val,))
    # empty input / output lists
    f = ctx.func(TX, "Tx._check_tx_inout_count")
    w = sym.int_walk(ctx, f, {"self.txs_out", "len(self.txs_out)"})
    fr = sym.exits_formula(w, _is_raise_vfe)
    s = sym.must_set(fr, U, E) if fr is not False else E
    ctx.check(s == iv(0, 0), "no-outputs", ctx.where(f), "Tx._check_tx_inout_count: a transaction is rejected unconditionally for len(txs_out) in %s; the property requires: no outputs => rejected, whatever else holds" % s.fmt(),
              sample={"subject": "len(self.txs_out)", "rejected_unconditionally": s.fmt()})
    w = sym.int_walk(ctx, f, {"self.txs_in", "len(self.txs_in)"})
    fr = sym.exits_formula(w, _is_raise_vfe)
    s, n = sym.decisive_set(fr, U, E) if fr is not False else (E, 0)
    ctx.check(s == iv(0, 0), "no-inputs", ctx.where(f), "Tx._check_tx_inout_count: len(txs_in) values rejected are %s; property requires exactly {0}" % s.fmt(), sample={"subject": "len(self.txs_in)", "rejected": s.fmt()})


# ------------------------------------------------------------------ C20.2
def c20_2(ctx):
    f = ctx.func(TX, "Tx._check_txs_in")
    w = sym.walk(ctx, f)
    loops = _loops_over(w, f, "self.txs_in")
    if not loops:
        if _other_iteration(f):
            raise Undecided("Tx._check_txs_in walks the inputs with a while loop / iter() / next(); this rule reads `for <input> in self.txs_in` only")
        ctx.bad("dup-loop", ctx.where(f), "Tx._check_txs_in: no loop over self.txs_in that could detect a reused outpoint")
        return
    found = False
    any_use = False
    for lp in loops:
        v = lp.target.id
        keys = {}   # container -> list of (key expr, kind, node)
        for e in w.effects:
            if not (e.loops and e.loops[-1].node is lp):
                continue
            if e.kind == "call" and isinstance(e.call.func, ast.Attribute) and isinstance(e.call.func.value, ast.Name) and e.call.func.attr in ("add", "get", "setdefault", "append") and e.call.args:
                keys.setdefault(e.call.func.value.id, []).append((e.call.args[0], e.call.func.attr, e.node))
            elif e.kind in ("setitem", "delitem") and isinstance(e.target, ast.Name):
                keys.setdefault(e.target.id, []).append((e.key, "subscript", e.node))
        tests = {}
        for n in ast.walk(lp):
            if isinstance(n, ast.If):
                t = w.tests.get(id(n))
                for c in ast.walk(t) if t is not None else []:
                    if isinstance(c, ast.Compare) and len(c.ops) == 1 and isinstance(c.ops[0], (ast.In, ast.NotIn)) and isinstance(c.comparators[0], ast.Name):
                        tests.setdefault(c.comparators[0].id, []).append((c.left, "test", n))
                    if isinstance(c, ast.Call) and isinstance(c.func, ast.Attribute) and c.func.attr == "get" and isinstance(c.func.value, ast.Name) and c.args:
                        tests.setdefault(c.func.value.id, []).append((c.args[0], "get", n))
        any_use = any_use or bool(keys) or bool(tests)
        for c in set(keys) | set(tests):
            ks = keys.get(c, []) + tests.get(c, [])
            kinds = {k[1] for k in ks}
            if not ({"test", "get"} & kinds) or not ({"add", "subscript", "append", "setdefault"} & kinds):
                continue
            found = True
            # a container chosen per input by one field (refs.setdefault(tx_in.previous_hash, set())) and keyed by the other holds
            # both: the fields that select the container count with the fields of the key
            sdefs = df.single_defs(lp)
            sel = df.attrs_of(sdefs[c], v) if c in sdefs else set()
            for k, kind, node in ks:
                fields = df.attrs_of(df.expand(k, sdefs), v) | sel
                ctx.check({"previous_hash", "previous_index"} <= fields, "dup-key:%s" % kind, ctx.where(f, node),
                          "Tx._check_txs_in: duplicate detection uses key `%s` (%s of %s) which does not contain both previous_hash and previous_index: two inputs spending the same outpoint are not always recognised"
                          % (norm(k), kind, c), what="dup-key:%s:%s" % (kind, norm(k)), sample={"container": c, "key": norm(k), "use": kind})
            raised = [e for e in w.exits if _is_raise_vfe(e) and e.node is not None and any(x is e.node for x in ast.walk(lp)) and any((" in %s" % c) in o for o in gi.f_opaques(e.cond))]
            ctx.check(bool(raised), "dup-raises", ctx.where(f, lp), "Tx._check_txs_in: membership in %s does not raise ValidationFailureError" % c)
            for e in w.effects:
                if e.kind == "call" and isinstance(e.call.func, ast.Attribute) and norm(e.call.func.value) == c and e.call.func.attr == "add":
                    ops = set(gi.f_opaques(e.reach)) if e.reach not in (True, False) else set()
                    ops -= set(gi.f_opaques(e.loops[-1].reach)) if e.loops and e.loops[-1].reach not in (True, False) else set()
                    allowed = {o for o in ops if (" in %s" % c) in o or "is_coinbase" in o or "previous_hash" in o}
                    # tests whose failure RAISED before the loop was entered are no condition on the insertion: having passed them is
                    # what every statement after them has in common
                    for x_ in w.exits:
                        if x_.kind == "raise" and x_.cond not in (True, False) and not (x_.node is not None and any(y is x_.node for y in ast.walk(lp))):
                            allowed |= {o for o in gi.f_opaques(x_.cond) if isinstance(o, str)}
                    ctx.check(ops <= allowed, "dup-insert-unconditional", ctx.where(f, e.node), "Tx._check_txs_in: insertion into %s is conditional on %s; some outpoints are never recorded" % (c, sorted(ops - allowed)))
    if not found:
        if not any_use:
            # read on the syntax tree as a last resort: a membership test or a container being filled anywhere in the function
            # (through an alias of the bound method, a helper closure) means the idiom is there in a form the path analysis lost
            any_use = any((isinstance(n, ast.Compare) and any(isinstance(o, (ast.In, ast.NotIn)) for o in n.ops)) or (isinstance(n, ast.Attribute) and n.attr in ("add", "setdefault"))
                          for n in ast.walk(f.node))
        if any_use:
            raise Undecided("Tx._check_txs_in: a container is used inside the loop over the inputs but not in the `tested and filled` form this rule reads")
        ctx.bad("dup-structure", ctx.where(f), "Tx._check_txs_in: no container is both tested and filled with the outpoint of every input")


# ------------------------------------------------------------------ C20.3
def c20_3(ctx):
    f = ctx.func(TXIN, "TxIn.is_coinbase")
    w = sym.walk(ctx, f)
    form = sym.truth_formula(w)
    zero = repr(b"\0" * 32)
    a_hash = ("op", " == ".join(sorted([zero, "self.previous_hash"])))
    a_idx = ("op", " == ".join(sorted(["4294967295", "self.previous_index"])))
    ok = gi.f_equiv(form, gi.f_and(a_hash, a_idx))
    ctx.check(ok, "null-outpoint", ctx.where(f),
              "TxIn.is_coinbase is true when %s; the null outpoint is previous_hash == 32 zero bytes AND previous_index == 0xffffffff" % _fmt(form), sample={"function": f.qualname, "predicate": _fmt(form)})
    f = ctx.func(TX, "Tx.is_coinbase")
    w = sym.int_walk(ctx, f, {"len(self.txs_in)"})
    form = sym.truth_formula(w)
    s = gi.sat_set(form, U, E)
    ops = gi.f_opaques(form)
    ctx.check(s == iv(1, 1) and "truthy(self.txs_in[0].is_coinbase())" in ops and not _sat(gi.f_and(form, ("not", ("op", "truthy(self.txs_in[0].is_coinbase())")))), "tx-is-coinbase", ctx.where(f),
              "Tx.is_coinbase: true for len(txs_in) in %s with conditions %s; property requires exactly one input which is the null outpoint" % (s.fmt(), ops), sample={"function": f.qualname, "len(txs_in)": s.fmt(), "and": ops})
    f = ctx.func(TX, "Tx._check_txs_in")
    w = sym.walk(ctx, f)
    def _implied(e):
        """the atoms every path to this exit has found true"""
        ops_ = [o for o in (gi.f_opaques(e.cond) if e.cond not in (True, False) else []) if isinstance(o, str)]
        return [o for o in ops_ if not _sat(gi.f_and(e.cond, ("not", ("op", o))))]

    def _is_null_atom(o):
        return (o.startswith("truthy(") and o.endswith(".is_coinbase())") and not o.startswith("truthy(self.")) or ("previous_hash" in o and repr(b"\0" * 32) in o)
    loops_in = _loops_over(w, f, "self.txs_in")
    # a rejection inside the loop over the inputs that is reached only when the input's outpoint tested as null
    hits = [e for e in w.exits if _is_raise_vfe(e) and e.node is not None and any(any(x is e.node for x in ast.walk(lp)) for lp in loops_in) and any(_is_null_atom(o) for o in _implied(e))]
    if not hits and not loops_in and _other_iteration(f):
        raise Undecided("Tx._check_txs_in walks the inputs with a while loop / iter() / next(); this rule reads `for <input> in self.txs_in` only")
    if not hits:
        ctx.bad("null-prevout-rule", ctx.where(f), "Tx._check_txs_in: no `prevout is null` rejection found for non-coinbase transactions")
    for e in hits:
        ops = _implied(e)
        ok = any(o.startswith("truthy(") and o.endswith(".is_coinbase())") and not o.startswith("truthy(self.") for o in ops) or (any("previous_hash" in o for o in ops) and any("previous_index" in o for o in ops))
        ctx.check(ok, "null-prevout-test", ctx.where(f, e.node), "Tx._check_txs_in: the null-prevout test %s does not test both hash and index (a well-formed input with hash 0 and another index is rejected)" % ops, sample={"test": ops})
        ctx.check(not _sat(gi.f_and(e.cond, ("op", "truthy(self.is_coinbase())"))), "null-prevout-non-coinbase", ctx.where(f, e.node), "the null-prevout rule also fires for coinbase transactions")


def _fmt(f):
    from sa.ct import fmt_formula
    return fmt_formula(f)


# ------------------------------------------------------------------ C20.4
def c20_4(ctx):
    f = ctx.func(TX, "Tx.check")
    w = sym.walk(ctx, f)
    want = ["_check_tx_inout_count", "_check_txs_out", "_check_txs_in", "_check_size_limit"]
    for name in want:
        calls = [e for e in w.effects if e.kind == "call" and norm(e.call) == "self.%s()" % name]
        ctx.check(any(e.reach is True and not [l for l in e.loops if not getattr(l, "unrolled", False)] for e in calls), "check-calls:%s" % name, ctx.where(f), "Tx.check does not call self.%s() unconditionally" % name)
    early = [e for e in w.exits if e.kind == "return" and e.cond is not True]
    ctx.check(not early and not any(isinstance(n, ast.Try) for n in body_nodes(f.node)), "check-straight-line", ctx.where(f), "Tx.check contains a conditional return / try that can skip a sub-check")


# ------------------------------------------------------------------ C20.6
def c20_6(ctx):
    f = ctx.func(TX, "Tx.bad_solution_count")
    w = sym.walk(ctx, f)
    cb = ("op", "truthy(self.is_coinbase())")
    zero = [e for e in w.exits if e.kind == "return" and e.value is not None and df.const_int(e.value) == 0]
    deleg = [e for e in w.exits if e.kind == "return" and e.value is not None and ".bad_solution_count(*args, **kwargs)" in norm(e.value)]
    z = gi.f_or(*[e.cond for e in zero]) if zero else False
    ctx.check(z is not False and sym.entails(cb, z), "coinbase-exempt", ctx.where(f), "Tx.bad_solution_count does not return 0 for every coinbase transaction",
              sample={"exits": [(e.kind, norm(e.value) if e.value is not None else None, _fmt(e.cond)) for e in w.exits]})
    ctx.check(bool(deleg) and z is not True and all(sym.entails(e.cond, gi.f_not(cb)) for e in deleg), "non-coinbase-delegates", ctx.where(f), "Tx.bad_solution_count does not delegate to the generic count for non-coinbase transactions")
    if z not in (True, False) and not gi.f_equiv(z, cb) and sym.entails(cb, z):
        ctx.undecided("zero-only-for-coinbase", ctx.where(f), "Tx.bad_solution_count also returns 0 when `%s`; whether the generic count is 0 there is not read here" % _fmt(z)[:100])
    ctx.func("pycoin/coins/Tx.py", "Tx.bad_solution_count")
    ctx.ok("base-exists")


# ------------------------------------------------------------------ C20.7
RULE_METHODS = ("check", "_check_tx_inout_count", "_check_txs_out", "_check_size_limit", "_check_txs_in")


def c20_7(ctx):
    """the validity rules apply to every coin: a subclass of Tx anywhere in the repository that overrides one of them still runs the
    rule it replaces on every path that returns normally (it may add refusals, not remove them)"""
    base = ctx.p.cls(TX, "Tx")
    family = [base] + [k for k in ctx.p.subclasses(base)]
    n_over = 0
    for k in family:
        if k is base:
            continue
        for nm in RULE_METHODS:
            m = k.methods.get(nm)
            if m is None:
                continue
            n_over += 1
            w = sym.walk(ctx, m)
            supers = [e for e in w.effects if e.kind == "call" and norm(e.call.func).endswith("." + nm) and (norm(e.call.func).startswith("super(") or any(norm(e.call.func).startswith(a.name + ".") for a in ctx.p.mro(k)[1:]))]
            outs = [e for e in w.exits if e.kind in ("return", "fall")]
            where = ctx.where(m)
            if not outs:
                ctx.ok("override-keeps-rule:%s.%s" % (k.name, nm))
                continue
            for e in outs:
                kept = any(sym.entails(e.cond, c.reach) if c.reach not in (True,) else True for c in supers)
                ctx.check(kept, "override-keeps-rule:%s.%s" % (k.name, nm), ctx.where(m, e.node) if e.node is not None else where,
                          "%s.%s overrides a validity rule of Tx and can return normally (under `%s`) without running the rule it replaces: transactions of this coin that the rule refuses are accepted"
                          % (k.qualname.split(".", 1)[-1], nm, _fmt(e.cond)[:100] if e.cond not in (True, False) else e.cond), sample={"override": "%s.%s" % (k.name, nm)})
    ctx.ok("tx-family", sample={"subclasses_of_Tx": len(family) - 1, "overrides_of_validity_rules": n_over}, nontrivial=False)


OBLIGATIONS = [
    Ob("C20.1", "accepted value / total / script-length / size sets as intervals with symbolic per-coin endpoints", c20_1, floor=9,
       engines="SYM,GI,CE", breaks_if="values 0, MAX_MONEY, MAX_MONEY+1; totals crossing MAX_MONEY on the last output; coinbase script lengths 1,2,100,101; GRS limit"),
    Ob("C20.2", "duplicate detection keyed on the full outpoint of every input", c20_2, floor=3, engines="SYM,DF",
       breaks_if="two inputs spending the same outpoint with another output of the same tx in between"),
    Ob("C20.3", "null outpoint = zero hash AND index 0xffffffff; coinbase = exactly one such input", c20_3, floor=4, engines="SYM,GI",
       breaks_if="input (0^32, 5); two inputs whose first is null"),
    Ob("C20.4", "check() runs the four sub-checks unconditionally", c20_4, floor=5, engines="SYM"),
    Ob("C20.6", "coinbase exemption dominates the solution count", c20_6, floor=3, engines="SYM,GI"),
    Ob("C20.7", "no subclass of Tx anywhere in the repository overrides a validity rule without running the rule it replaces", c20_7, floor=1, engines="PM,SYM", breaks_if="a coin-specific exemption (an `extension-only` transaction without inputs or outputs)"),
]
