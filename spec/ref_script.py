"""Reference transcriptions for C12 (script numbers, pushes, script text).  NEVER IMPORTED OR EXECUTED: parsed and
compared in canonical form (sa/sym.py) with the functions in /repo.  Written from the tree after the fixes 4baf69e /
e4e6148 and reviewed against Bitcoin Core: CScriptNum (little-endian sign-magnitude, sign = top bit of the last byte,
minimal encoding rule of CScriptNum::CScriptNum), CheckMinimalPush / CScript::operator<< (OP_0, OP_1..OP_16, OP_1NEGATE,
direct pushes 1..75, PUSHDATA1 <= 0xff, PUSHDATA2 <= 0xffff, PUSHDATA4), GetScriptOp (a truncated length field or
payload makes the script invalid)."""


# pycoin/vm/ScriptStreamer.py :: ScriptStreamer.compile_push_data
def ss_compile_push_data(self, data):
    if data in self.const_encoder:
        return self.const_encoder.get(data)
    size = len(data)
    if size in self.sized_encoder:
        return self.sized_encoder.get(size)(data)
    opcode = None
    enc_f = None
    for max_size, opcode, enc_f in self.variable_encoder:
        if size <= max_size:
            break
    return bytes([opcode]) + enc_f(len(data)) + data


# pycoin/vm/ScriptStreamer.py :: make_variable_handler.f
def ss_variable_handler(script, pc, verify_minimal_data=False):
    size, pc = dec_f(script, pc)
    if size is None:
        return (pc + 1, None)
    data = bytes_as_hex(script[pc:pc + size])
    if len(data) < size:
        return (pc + 1, None)
    if verify_minimal_data:
        if size in sized_values or size <= min_size:
            non_minimal_data_handler('not minimal push of data with size %d' % size)
    return (pc + size, data)


# pycoin/vm/ScriptStreamer.py :: make_sized_handler.constant_size_opcode_handler
def ss_sized_handler(script, pc, verify_minimal_data=False):
    pc += 1
    data = bytes_as_hex(script[pc:pc + size])
    if len(data) < size:
        return (pc + 1, None)
    if verify_minimal_data and data in const_values:
        non_minimal_data_handler('not minimal push of %s' % repr(data))
    return (pc + size, data)


# pycoin/vm/ScriptStreamer.py :: ScriptStreamer.__init__
def ss_init(self, opcode_const_list, opcode_sized_list, opcode_variable_list, opcode_lookup, non_minimal_data_handler):
    const_pairs = [(opcode_lookup.get(opcode), val) for opcode, val in opcode_const_list]
    self.const_encoder = {v: bytes([k]) for k, v in const_pairs if k is not None}
    sized_pairs = [(opcode_lookup.get(opcode), size) for opcode, size in opcode_sized_list]
    self.sized_encoder = {v: make_sized_encoder(k) for k, v in sized_pairs if k is not None}
    opcode_variable_list = sorted(opcode_variable_list, key=lambda o: o[0])
    self.variable_encoder = list(((max_size, opcode_lookup.get(opcode), enc_f) for opcode, max_size, enc_f, dec_f in opcode_variable_list))
    self.decoder = {}
    min_size = 0
    for o, max_size, enc_f, dec_f in opcode_variable_list:
        self.decoder[opcode_lookup.get(o)] = make_variable_handler(dec_f, self.sized_encoder.keys(), min_size, non_minimal_data_handler)
        min_size = max_size
    self.decoder.update({o: make_sized_handler(v, self.const_encoder.keys(), non_minimal_data_handler) for o, v in sized_pairs})
    self.decoder.update({o: make_const_handler(v) for o, v in const_pairs})
    self.data_opcodes = frozenset(self.decoder.keys())


# pycoin/vm/ScriptStreamer.py :: ScriptStreamer.get_opcode
def ss_get_opcode(self, script, pc, verify_minimal_data=False):
    opcode = script[pc]
    decoder = self.decoder.get(opcode)
    if decoder:
        pc, data = decoder(script, pc, verify_minimal_data=verify_minimal_data)
        is_ok = data is not None
    else:
        pc += 1
        data = None
        is_ok = True
    return (opcode, data, pc, is_ok)


# pycoin/coins/bitcoin/ScriptStreamer.py :: make_opcode_variable_list.make_variable_decoder.decode_OP_PUSHDATA
def bss_decode_pushdata(script, pc):
    pc += 1
    try:
        size = struct.unpack(struct_data, script[pc:pc + struct_size])[0]
    except Exception:
        return (None, pc)
    pc += struct_size
    return (size, pc)


# pycoin/vm/ScriptTools.py :: ScriptTools.disassemble_for_opcode_data
def st_disassemble_for_opcode_data(self, opcode, data):
    opcode_str = self.int_to_opcode.get(opcode, '???')
    if data is not None and len(data) > 0 and opcode_str.startswith('OP_PUSH'):
        return '[%s]' % binascii.hexlify(data).decode('utf8')
    return opcode_str


# pycoin/vm/ScriptTools.py :: ScriptTools.compile_expression
def st_compile_expression(self, t):
    if (t[0], t[-1]) == ('[', ']'):
        return binascii.unhexlify(t[1:-1])
    if t.startswith("'") and t.endswith("'"):
        return t[1:-1].encode('utf8')
    try:
        t0 = int(t)
        if abs(t0) <= 18446744073709551615 and t[0] != '0':
            return self.intStreamer.int_to_script_bytes(t0)
    except (SyntaxError, ValueError):
        pass
    try:
        return binascii.unhexlify(t)
    except Exception:
        pass
    raise SyntaxError()


# pycoin/vm/ScriptTools.py :: ScriptTools.compile
def st_compile(self, s):
    f = io.BytesIO()
    for t in s.split():
        t_up = t.upper()
        if t_up in self.opcode_to_int:
            f.write(bytes([self.opcode_to_int[t]]))
        elif 'OP_%s' % t_up in self.opcode_to_int:
            f.write(bytes([self.opcode_to_int['OP_%s' % t]]))
        elif t_up.startswith('0X'):
            d = binascii.unhexlify(t[2:])
            f.write(d)
        else:
            v = self.compile_expression(t)
            self.write_push_data([v], f)
    return f.getvalue()


# pycoin/vm/ScriptTools.py :: ScriptTools.opcode_list
def st_opcode_list(self, script):
    opcodes = []
    new_pc = 0
    try:
        for opcode, data, pc, new_pc in self.get_opcodes(script):
            opcodes.append(self.disassemble_for_opcode_data(opcode, data))
    except ScriptError:
        opcodes.append(binascii.hexlify(script[new_pc:]).decode('utf8'))
    return opcodes


# pycoin/vm/ScriptTools.py :: ScriptTools.write_push_data
def st_write_push_data(self, data_list, f):
    for t in data_list:
        f.write(self.scriptStreamer.compile_push_data(t))


# pycoin/satoshi/IntStreamer.py :: IntStreamer.int_from_script_bytes
def is_int_from_script_bytes(class_, s, require_minimal=False):
    if len(s) == 0:
        return 0
    ba = bytearray(s)
    ba.reverse()
    i = ba[0]
    v = i & 127
    if require_minimal:
        if v == 0:
            if len(ba) <= 1 or ba[1] & 128 == 0:
                raise ScriptError()
    is_negative = i & 128 > 0
    for b in ba[1:]:
        v <<= 8
        v += b
    if is_negative:
        v = -v
    return v


# pycoin/satoshi/IntStreamer.py :: IntStreamer.int_to_script_bytes
def is_int_to_script_bytes(class_, v):
    if v == 0:
        return b''
    is_negative = v < 0
    if is_negative:
        v = -v
    ba = bytearray()
    while v >= 256:
        ba.append(v & 255)
        v >>= 8
    ba.append(v & 255)
    if ba[-1] >= 128:
        ba.append(128 if is_negative else 0)
    elif is_negative:
        ba[-1] |= 128
    return bytes(ba)


