"""Transcription of every function of pycoin/coins/bcash/SolutionChecker.py as of the reviewed tree (see DESIGN.md section 12).
NEVER IMPORTED OR EXECUTED: parsed and compared in canonical form (sa/sym.py) with the functions in /repo."""


_CONSTS = {
    'SIGHASH_FORKID': 64,
}


# pycoin/coins/bcash/SolutionChecker.py :: BcashSolutionChecker._signature_hash
def q__BcashSolutionChecker___signature_hash(self, tx_out_script, unsigned_txs_out_idx, hash_type):
    if hash_type & SIGHASH_FORKID != SIGHASH_FORKID:
        raise self.ScriptError()
    return self._signature_for_hash_type_segwit(tx_out_script, unsigned_txs_out_idx, hash_type)
