"""Network binding table: what the attribute paths `self._network.<ns>.<name>` used by the API classes resolve to,
read from the syntax tree of create_bitcoinish_network (never executed)."""
from __future__ import annotations

import ast

from sa.pm import AnalysisError, norm, FuncInfo
from sa import df

BIT = "pycoin/networks/bitcoinish.py"


def build(ctx):
    if "netbind" in ctx.cache:
        return ctx.cache["netbind"]
    p = ctx.p
    f = p.func(BIT, "create_bitcoinish_network")
    local_cls = {}      # local name -> ClassInfo (X.make_subclass(...))
    for st in ast.walk(f.node):
        if isinstance(st, (ast.Assign, ast.AnnAssign)) and getattr(st, "value", None) is not None and isinstance(st.value, ast.Call) and df.last_attr(st.value) == "make_subclass":
            base = p.resolve_expr_static(f.module, st.value.func.value)
            tg = st.targets[0] if isinstance(st, ast.Assign) else st.target
            if base is not None and isinstance(tg, ast.Name):
                local_cls[tg.id] = base

    def targets_of(e):
        """FuncInfo list for an expression used as a callable in the binding table"""
        if isinstance(e, ast.Name):
            nested = p.functions.get("%s.%s" % (f.qualname, e.id))
            if nested is not None:
                return [nested]
            if e.id in local_cls:
                c = local_cls[e.id]
                return [m for m in (p.lookup_method(c, "__init__"),) if m is not None]
            r = p.resolve_global(f.module, e.id)
            if isinstance(r, FuncInfo):
                return [r]
            return []
        if isinstance(e, ast.Attribute) and isinstance(e.value, ast.Name) and e.value.id in local_cls:
            m = p.lookup_method(local_cls[e.value.id], e.attr)
            return [m] if m is not None else []
        if isinstance(e, ast.Lambda):
            out = []
            for c in ast.walk(e.body):
                if isinstance(c, ast.Call):
                    out.extend(targets_of(c.func))
            return out
        return []

    bind = {}
    keys_fields = set()
    for c in ast.walk(f.node):
        if isinstance(c, ast.Call) and isinstance(c.func, ast.Name) and c.func.id == "NetworkKeys":
            for k in c.keywords:
                keys_fields.add(k.arg)
                bind["keys." + k.arg] = targets_of(k.value)
        if isinstance(c, ast.Call) and isinstance(c.func, ast.Name) and c.func.id == "NetworkMsg":
            for k in c.keywords:
                bind["msg." + k.arg] = []
    if not keys_fields:
        raise AnalysisError("create_bitcoinish_network: NetworkKeys(...) construction not found")
    # declared dataclass fields
    nm = p.module("pycoin/networks/network.py")
    declared = {}
    for cname, ci in nm.classes.items():
        flds = set()
        for st in ci.node.body:
            if isinstance(st, ast.AnnAssign) and isinstance(st.target, ast.Name):
                flds.add(st.target.id)
        declared[cname] = flds
    ns_class = {"contract": ("pycoin/networks/ContractAPI.py", "ContractAPI"), "address": ("pycoin/networks/AddressAPI.py", "AddressAPI"),
                "parse": ("pycoin/networks/ParseAPI.py", "ParseAPI"), "script": ("pycoin/vm/ScriptTools.py", "ScriptTools")}
    res = {"keys_fields": keys_fields, "bind": bind, "declared": declared, "ns_class": ns_class, "local_cls": local_cls, "factory": f, "targets_of": targets_of}
    ctx.cache["netbind"] = res
    return res


def make_resolver(ctx):
    """extra_resolve hook for sa.ex.EX"""
    nb = build(ctx)
    p = ctx.p

    def resolve(fi, call):
        fn = call.func
        t = df.dotted(fn) or ""
        parts = t.split(".")
        # self._network.<ns>.<name>(...)  /  api._network.<ns>.<name>
        if "_network" in parts:
            i = parts.index("_network")
            rest = parts[i + 1:]
            if len(rest) == 2:
                ns, name = rest
                if ns == "keys":
                    return list(nb["bind"].get("keys." + name, []))
                if ns in nb["ns_class"]:
                    rel, cname = nb["ns_class"][ns]
                    c = p.cls(rel, cname)
                    m = p.lookup_method(c, name)
                    out = [m] if m is not None else []
                    for sub in p.subclasses(c):
                        if name in sub.methods:
                            out.append(sub.methods[name])
                    return out
            if len(rest) == 1:
                # network.bip32_as_string etc: plain functions nested in the factory
                nested = p.functions.get("%s.%s" % (nb["factory"].qualname, rest[0]))
                return [nested] if nested is not None else []
        # calls inside the factory's nested functions to the per-network classes
        if fi.qualname.startswith(nb["factory"].qualname + "."):
            if isinstance(fn, ast.Name) and fn.id in nb["local_cls"]:
                c = nb["local_cls"][fn.id]
                return [m for m in (p.lookup_method(c, "__init__"),) if m is not None]
            if isinstance(fn, ast.Attribute) and isinstance(fn.value, ast.Name) and fn.value.id in nb["local_cls"]:
                m = p.lookup_method(nb["local_cls"][fn.value.id], fn.attr)
                return [m] if m is not None else []
        # hparse: parse_method = getattr(api._network.keys, "%s_deserialize" % key_type, ...)
        if isinstance(fn, ast.Name) and fn.id == "parse_method" and fi.name == "hparse":
            out = []
            for k, v in nb["bind"].items():
                if k.endswith("_deserialize"):
                    out.extend(v)
            return list({id(x): x for x in out}.values())
        # Key = self._network.keys.private ; Key(1)
        if isinstance(fn, ast.Name):
            d = df.single_defs(fi.node).get(fn.id)
            if d is not None and "_network" in (df.dotted(d) or ""):
                fake = ast.Call(func=d, args=[], keywords=[])
                return resolve(fi, fake)
        # cls(...) / class_(...) / self.__class__(...) construct the enclosing class
        if fi.cls is not None and ((isinstance(fn, ast.Name) and fn.id in ("cls", "class_")) or norm(fn) == "self.__class__"):
            return [m for m in (p.lookup_method(fi.cls, "__init__"),) if m is not None]
        return None
    return resolve
