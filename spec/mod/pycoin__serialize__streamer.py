"""Transcription of every function of pycoin/serialize/streamer.py as of the reviewed tree (see DESIGN.md section 12).
NEVER IMPORTED OR EXECUTED: parsed and compared in canonical form (sa/sym.py) with the functions in /repo."""


_CONSTS = {

}


# pycoin/serialize/streamer.py :: Streamer.__init__
def q__Streamer____init__(self):
    self.parse_lookup = {}
    self.stream_lookup = {}


# pycoin/serialize/streamer.py :: Streamer.register_functions
def q__Streamer__register_functions(self, lookup):
    for c, v in lookup:
        parse_f, stream_f = v
        self.parse_lookup[c] = parse_f
        self.stream_lookup[c] = stream_f


# pycoin/serialize/streamer.py :: Streamer.register_array_count_parse
def q__Streamer__register_array_count_parse(self, array_count_parse_f):
    self.array_count_parse_f = array_count_parse_f


# pycoin/serialize/streamer.py :: Streamer.parse_struct
def q__Streamer__parse_struct(self, fmt, f):
    items = []
    i = 0
    while i < len(fmt):
        c = fmt[i]
        if c == '[':
            end = fmt.find(']', i)
            if end < 0:
                raise ValueError()
            subfmt = fmt[i + 1:end]
            count = self.array_count_parse_f(f)
            array = []
            for j in range(count):
                if len(subfmt) == 1:
                    array.append(self.parse_struct(subfmt, f)[0])
                else:
                    array.append(self.parse_struct(subfmt, f))
            items.append(tuple(array))
            i = end
        else:
            items.append(self.parse_lookup[c](f))
        i += 1
    return tuple(items)


# pycoin/serialize/streamer.py :: Streamer.parse_as_dict
def q__Streamer__parse_as_dict(self, attribute_list, pack_list, f):
    return dict(list(zip(attribute_list, self.parse_struct(pack_list, f))))


# pycoin/serialize/streamer.py :: Streamer.stream_struct
def q__Streamer__stream_struct(self, fmt, f, *args):
    for c, v in zip(fmt, args):
        self.stream_lookup[c](f, v)


# pycoin/serialize/streamer.py :: Streamer.unpack_struct
def q__Streamer__unpack_struct(self, fmt, b):
    return self.parse_struct(fmt, io.BytesIO(b))


# pycoin/serialize/streamer.py :: Streamer.pack_struct
def q__Streamer__pack_struct(self, fmt, *args):
    b = io.BytesIO()
    self.stream_struct(fmt, b, *args)
    return b.getvalue()
