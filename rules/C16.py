"""C16 - peer-to-peer messages: structural obligations (DESIGN.md section 4, C16)."""
from __future__ import annotations

import ast
import struct

from sa.core import Ob
from sa.pm import AnalysisError, norm, body_nodes
from sa import gi, df, ru, ct, sym
from sa.pm import Undecided
from sa.interp import FuncVal, BoundMethod, Unknown, InstanceVal, ClassVal
from spec import p2p as SPEC

MPP = "pycoin/message/make_parser_and_packer.py"
SST = "pycoin/satoshi/satoshi_streamer.py"
STR = "pycoin/serialize/streamer.py"
INV = "pycoin/message/InvItem.py"
PEER = "pycoin/message/PeerAddress.py"


def _tables(ctx):
    if "p2p" in ctx.cache:
        return ctx.cache["p2p"]
    it = ctx.interp
    msgs = it.get("pycoin.message.make_parser_and_packer", "STANDARD_P2P_MESSAGES")
    if not isinstance(msgs, dict):
        raise AnalysisError("STANDARD_P2P_MESSAGES unresolved: %r" % (msgs,))
    spf = it.get("pycoin.message.make_parser_and_packer", "standard_parsing_functions")
    items = it.call(spf, [Unknown("Block"), Unknown("Tx")], {})
    if not isinstance(items, list):
        raise AnalysisError("standard_parsing_functions unresolved")
    codecs = {}
    for k, pair in items:
        codecs[k] = pair
    ctx.cache["p2p"] = (msgs, codecs)
    return ctx.cache["p2p"]


def _letters(layout):
    out = []
    for field in layout.split():
        name, _, typ = field.partition(":")
        out.append((name, typ))
    return out


# ------------------------------------------------------------------ C16.1
def c16_1(ctx):
    msgs, codecs = _tables(ctx)
    for name in sorted(set(msgs) | set(SPEC.MESSAGES)):
        got, want = msgs.get(name), SPEC.MESSAGES.get(name)
        if want is None:
            # a message the reference table does not know (added since): only its well-formedness is checked below
            ctx.note("message `%s` is not in the reference table: layout %r checked for well-formedness only" % (name, got))
        else:
            ctx.check(got is not None and " ".join(got.split()) == want, "layout:%s" % name, MPP + ":1",
                      "message `%s` is laid out as %r; the wire format is %r" % (name, got, want), what="layout:%s:%s" % (name, got),
                      sample={"message": name, "layout": got} if name in ("version", "cmpctblock", "getblocktxn", "merkleblock") else None)
        if got is None:
            continue
        fields = _letters(got)
        names = [n for n, t in fields]
        ctx.check(len(names) == len(set(names)), "field-names-unique:%s" % name, MPP + ":1", "message `%s` repeats a field name" % name, what="names:%s" % name, sample=None)
        for n, t in fields:
            for ch in t.strip("[]"):
                ctx.check(ch in codecs, "codec-exists:%s:%s" % (name, ch), MPP + ":1", "message `%s` field `%s` uses type letter %r, which has no registered codec" % (name, n, ch),
                          what="letter:%s:%s:%s" % (name, n, ch), sample=None)
    f = ctx.func(MPP, "make_post_unpack_alert")
    d = df.single_defs(f.node).get("the_struct")
    try:
        val = ru.eval_in_module(ctx, f.module, d) if d is not None else None
    except Exception:
        val = None
    ctx.check(val is not None and " ".join(val.split()) == " ".join(SPEC.ALERT.split()), "alert-sublayout", ctx.where(f), "alert payload layout is %r" % (val,))
    # post-unpack processors add derived entries (the parsed alert payload, the matched transactions of a merkleblock); one that
    # OVERWRITES a field of the message's own layout changes what was on the wire, and the parsed message no longer packs back to it
    pu = ctx.func(MPP, "standard_message_post_unpacks")
    reg = {}
    for n in ast.walk(sym.expanded(ctx, pu)):
        if isinstance(n, ast.Call) and isinstance(n.func, ast.Name) and n.func.id == "dict":
            for k in n.keywords:
                if k.arg is not None:
                    reg[k.arg] = k.value
        elif isinstance(n, ast.Dict):
            for k, v in zip(n.keys, n.values):
                if isinstance(k, ast.Constant) and isinstance(k.value, str):
                    reg[k.value] = v
    if not reg:
        ctx.undecided("post-unpack-keeps-fields", ctx.where(pu), "standard_message_post_unpacks does not return a literal table of processors")
    for mname, v in sorted(reg.items()):
        layout = msgs.get(mname)
        if layout is None:
            continue
        fields = {n for n, _t in _letters(layout)}
        target = None
        if isinstance(v, ast.Name):
            target = ctx.p.resolve_global(pu.module, v.id)
        if target is None or not hasattr(target, "node"):
            ctx.ok("post-unpack:%s" % mname, nontrivial=False)
            continue
        dparam = target.params()[0] if target.params() else None
        hit = [n for n in ast.walk(target.node) if isinstance(n, ast.Subscript) and isinstance(n.ctx, (ast.Store, ast.Del)) and isinstance(n.value, ast.Name) and n.value.id == dparam
               and isinstance(n.slice, ast.Constant) and n.slice.value in fields]
        ctx.check(not hit, "post-unpack-keeps-fields:%s" % mname, ctx.where(target, hit[0]) if hit else ctx.where(target),
                  "the post-unpack processor of `%s` overwrites the field `%s` of the message's own layout: what was on the wire is not what the caller gets, and packing the parsed fields again gives other bytes"
                  % (mname, hit[0].slice.value if hit else ""), sample={"message": mname, "processor": target.qualname, "layout_fields_overwritten": 0})
    # parser and packer split the layout the same way
    _refcheck(ctx, MPP, "_make_parser", "mpp_make_parser", "parser-split")
    _refcheck(ctx, MPP, "make_parser_and_packer.pack_from_data", "mpp_pack_from_data", "packer-split")
    _refcheck(ctx, MPP, "make_post_unpack_alert", "mpp_post_unpack_alert", "alert-parser")


_REF = None


def _ref():
    global _REF
    if _REF is None:
        import os
        _REF = ast.parse(open(os.path.join(os.path.dirname(os.path.dirname(os.path.abspath(__file__))), "spec", "ref_p2p.py")).read())
    return _REF


def _refcheck(ctx, rel, dotted, refname, key, ints=None):
    fi = ctx.p.functions.get(ctx.p.module(rel).name + "." + dotted)
    if fi is None:
        fi = ctx.func(rel, dotted)
    return sym.against_reference(ctx, fi, _ref(), refname, key, ints or (lambda t: t in ("i", "end", "count", "pos", "close") or t.startswith("len(")))


# ------------------------------------------------------------------ C16.2
def _codec(fv):
    """canonical (condition, value) exits of a codec given as lambda or local function; parameters renamed p0, p1"""
    if not isinstance(fv, FuncVal) or not isinstance(fv.node, (ast.Lambda, ast.FunctionDef)):
        return None, None
    node = fv.node
    args = node.args
    names = [a.arg for a in args.posonlyargs + args.args]
    if isinstance(node, ast.Lambda):
        fn = ast.FunctionDef("codec", args, [ast.Return(node.body)], [], None)
        ast.fix_missing_locations(fn)
        for n in ast.walk(fn):
            if not hasattr(n, "lineno"):
                n.lineno = n.end_lineno = getattr(node, "lineno", 1)
                n.col_offset = n.end_col_offset = 0
    else:
        fn = node
    # a codec made by a factory (`_struct_codec("<L")`) closes over the factory's arguments: the abstract interpreter knows them
    try:
        cv = fv.closure_vars()
    except Exception:
        cv = {}
    bound = set(names) | {x.id for x in ast.walk(fn) if isinstance(x, ast.Name) and isinstance(x.ctx, ast.Store)}
    free = {x.id for x in ast.walk(fn) if isinstance(x, ast.Name) and isinstance(x.ctx, ast.Load)} - bound
    subst = {}
    structs = {}
    bound = {}
    mod_ns = getattr(getattr(fv, "module", None), "ns", None) or {}
    for nm in free:
        if nm not in cv and nm in mod_ns and nm not in ("struct",):
            # module constants: plain values are folded, precompiled struct.Struct objects are written as the module calls
            v = mod_ns[nm]
            if isinstance(v, struct.Struct):
                structs[nm] = v
            elif isinstance(getattr(v, "__self__", None), struct.Struct) and getattr(v, "__name__", "") in ("pack", "unpack"):
                bound[nm] = (v.__self__, v.__name__)        # _pack_u32 = struct.Struct("<L").pack
            elif isinstance(v, (int, bytes, str)) and not isinstance(v, bool):
                subst[nm] = ast.Constant(v)
            continue
        if nm in cv:
            v = cv[nm]
            if isinstance(v, struct.Struct):
                structs[nm] = v
                continue
            if v is None or isinstance(v, (bool, int, str, bytes)):
                subst[nm] = ast.Constant(v)
            elif isinstance(v, (FuncVal, ClassVal)) and getattr(v, "name", None):
                subst[nm] = ast.Name(v.name, ast.Load())
    if subst or structs or bound:
        import copy as _copy

        class _S(ast.NodeTransformer):
            def visit_Call(s_, n):
                n = s_.generic_visit(n)
                f_ = n.func
                if isinstance(f_, ast.Name) and f_.id in bound and not n.keywords:
                    st_, meth_ = bound[f_.id]
                    return ast.copy_location(ast.Call(ast.Attribute(ast.Name("struct", ast.Load()), meth_, ast.Load()), [ast.Constant(st_.format)] + n.args, []), n)
                if isinstance(f_, ast.Attribute) and isinstance(f_.value, ast.Name) and f_.value.id in structs and f_.attr in ("pack", "unpack") and not n.keywords:
                    return ast.copy_location(ast.Call(ast.Attribute(ast.Name("struct", ast.Load()), f_.attr, ast.Load()), [ast.Constant(structs[f_.value.id].format)] + n.args, []), n)
                return n

            def visit_Attribute(s_, n):
                if isinstance(n.value, ast.Name) and n.value.id in structs and n.attr in ("size", "format") and isinstance(n.ctx, ast.Load):
                    return ast.copy_location(ast.Constant(getattr(structs[n.value.id], n.attr)), n)
                return s_.generic_visit(n)

            def visit_Compare(s_, n):
                if len(n.ops) == 1 and isinstance(n.ops[0], (ast.Is, ast.IsNot)) and isinstance(n.left, ast.Name) and isinstance(subst.get(n.left.id), ast.Name) \
                        and isinstance(n.comparators[0], ast.Constant) and n.comparators[0].value is None:
                    return ast.copy_location(ast.Constant(isinstance(n.ops[0], ast.IsNot)), n)      # a function is not None
                return s_.generic_visit(n)

            def visit_Name(s_, n):
                if isinstance(n.ctx, ast.Load) and n.id in subst:
                    return ast.copy_location(_copy.deepcopy(subst[n.id]), n)
                return n
        fn = _S().visit(_copy.deepcopy(fn))
        ast.fix_missing_locations(fn)
    ren = {n: "p%d" % i for i, n in enumerate(names)}
    w = sym.SymWalker(fn, sym.Canon(None, None), ignore_asserts=True)
    w.run()
    from sa.ct import fmt_formula
    out = set()
    for e in w.effects:
        if e.kind == "call" and e.top:
            out.add((sym._rename_text(fmt_formula(sym._sort_formula(e.reach)) if e.reach not in (True, False) else str(e.reach), ren), "return " + norm(sym._rename(e.call, ren))))
    for e in w.exits:
        if e.kind == "fall":
            if any(x.kind == "call" and x.top for x in w.effects):
                continue
            out.add((sym._rename_text(fmt_formula(e.cond) if e.cond not in (True, False) else str(e.cond), ren), "fall"))
        else:
            v = norm(sym._rename(e.value, ren)) if e.value is not None else "None"
            out.add((sym._rename_text(fmt_formula(sym._sort_formula(e.cond)) if e.cond not in (True, False) else str(e.cond), ren), e.kind + " " + v))
    import re as _re
    out = {(_re.sub(r",? ?__n=\d+", "", c), _re.sub(r",? ?__n=\d+", "", v)) for c, v in out}      # one read per codec: the evaluation tags carry no information here
    return out, names


def _lam(fv):
    ex, names = _codec(fv)
    if ex is None or len(ex) != 1:
        return None, None
    (c, v), = ex
    if c != "True" or not v.startswith("return "):
        return None, None
    return v[len("return "):], ["p%d" % i for i in range(len(names))]


def c16_2(ctx):
    msgs, codecs = _tables(ctx)
    for ch, (fmt, width) in SPEC.WIRE.items():
        if ch == "6":
            continue
        pair = codecs.get(ch)
        if pair is None:
            ctx.bad("codec-missing:%s" % ch, SST + ":1", "no codec for %r" % ch)
            continue
        p, s = pair
        cfmt = ">" + fmt[1:] if fmt.startswith("!") else fmt       # the engine writes network order as '>'
        pb, pa = _lam(p)
        sb, sa_ = _lam(s)
        okp = pb == "struct.unpack('%s', %s.read(%d))[0]" % (cfmt, pa[0] if pa else "f", width)
        oks = sa_ is not None and len(sa_) == 2 and sb == "%s.write(struct.pack('%s', %s))" % (sa_[0], cfmt, sa_[1])
        ctx.check(okp and oks and struct.calcsize(fmt) == width, "wire-type:%s" % ch, SST + ":1",
                  "codec %r parses with `%s` and streams with `%s`; the wire type is struct %r (%d bytes, same format on both sides, value after format)" % (ch, pb, sb, fmt, width),
                  sample={"letter": ch, "parse": pb, "stream": sb})
    for ch, n in SPEC.RAW.items():
        p, s = codecs.get(ch, (None, None))
        pb, pa = _lam(p)
        sb, sa_ = _lam(s)
        okp = pb in ("%s.read(%d)" % (pa[0] if pa else "f", n), "bytes_as_revhex(%s.read(%d))" % (pa[0] if pa else "f", n))
        oks = sa_ is not None and sb in ("%s.write(%s[:%d])" % (sa_[0], sa_[1], n), "%s.write(%s)" % (sa_[0], sa_[1]))
        ctx.check(okp and oks, "raw-type:%s" % ch, SST + ":1", "codec %r: parse `%s` / stream `%s`; wire type is %d raw bytes" % (ch, pb, sb, n), sample={"letter": ch, "parse": pb, "stream": sb})
    # compact size and var string delegate to the satoshi codecs
    for ch, (pn, sn) in {"I": ("parse_satoshi_int", "stream_satoshi_int"), "S": ("parse_satoshi_string", "stream_satoshi_string")}.items():
        p, s = codecs.get(ch, (None, None))
        ctx.check(isinstance(p, FuncVal) and p.name == pn and isinstance(s, FuncVal) and s.name == sn, "delegated:%s" % ch, SST + ":1", "codec %r is not (%s, %s)" % (ch, pn, sn))
    # 6-byte integers
    p6, s6 = codecs.get("6", (None, None))
    e6, _n = _codec(p6)
    want6 = {("True", "return struct.unpack('<Q', p0.read(6) + b'\\x00\\x00')[0]")}
    # the same value by int.from_bytes(<6 bytes read>, 'little'), a short read refused (struct.unpack refuses it by itself)
    rets6 = {x for c_, x in (e6 or set()) if x.startswith("return ")}
    alt6 = rets6 == {"return int.from_bytes(p0.read(6), 'little')"} and any(x.startswith("raise ") for c_, x in (e6 or set())) and any("6 == len(p0.read(6))" in c_ and x.startswith("return ") for c_, x in (e6 or set()))
    if e6 != want6 and not alt6 and e6 and all("p0.read(6)" in x or x.startswith("raise ") for c_, x in e6) and any("from_bytes" in x or "unpack" in x for c_, x in e6):
        ctx.undecided("int6-parse", MPP + ":1", "codec '6' parses with %s; this rule reads struct.unpack('<Q', 6 bytes + 2 zero bytes) and int.from_bytes(6 bytes, 'little') behind a length test" % sorted(e6)[:2])
    else:
        ctx.check(e6 == want6 or alt6, "int6-parse", MPP + ":1", "codec '6' parses with %s; it must be struct.unpack('<Q', 6 bytes + 2 zero bytes)" % sorted(e6 or []), sample={"parse": sorted(e6 or [])})
    e6s, _n = _codec(s6)
    # the first six of the eight bytes, counted from either end
    ctx.check(e6s in ({("True", "return p0.write(struct.pack('<Q', p1)[:6])")}, {("True", "return p0.write(struct.pack('<Q', p1)[:-2])")}), "int6-stream", MPP + ":1",
              "codec '6' streams with %s; it must be struct.pack('<Q', v)[:6]" % sorted(e6s or []))
    # optional bool: absent <-> None, present byte <-> its truth value
    p, s = codecs.get("O", (None, None))
    eo, _n = _codec(s)
    want = {("p1 is None", "return p0.write(b'')"), ("not(p1 is None)", "return p0.write(struct.pack('B', p1))")}
    ctx.check(eo == want, "optional-bool-stream", MPP + ":1", "codec 'O' streams %s; it must write nothing exactly for None and one byte for True/False (an explicit False is not `absent`)" % sorted(eo or []), sample={"stream": sorted(eo or [])})
    ep, _n = _codec(p)
    ok = False
    if ep is not None and len(ep) == 2:
        none_r = [c for c, v in ep if v == "return None"]
        val_r = [v for c, v in ep if v != "return None"]
        ok = len(none_r) == 1 and len(val_r) == 1 and "truthy(p0.read(1))" in none_r[0] and val_r[0] in ("return struct.unpack('B', p0.read(1))[0] != 0", "return bool(struct.unpack('B', p0.read(1))[0])", "return struct.unpack('?', p0.read(1))[0]")
    ctx.check(ok, "optional-bool-parse", MPP + ":1", "codec 'O' parses with %s; an absent byte is None and a present byte its truth value" % sorted(ep or []))
    # object codecs
    for ch, cls, (pm, sm) in (("A", "PeerAddress", ("parse", "stream")), ("v", "InvItem", ("parse", "stream"))):
        p, s = codecs.get(ch, (None, None))
        sb, sa_ = _lam(s)
        okp = isinstance(p, BoundMethod) and p.func.name == pm and isinstance(p.self_obj, ClassVal) and p.self_obj.name == cls
        oks = sa_ is not None and sb == "%s.%s(%s)" % (sa_[1], sm, sa_[0])
        ctx.check(okp and oks, "object-codec:%s" % ch, MPP + ":1", "codec %r is not (%s.%s, obj.%s(f))" % (ch, cls, pm, sm))


    # the network's streamer is built from the network's own block / transaction classes
    b = ctx.func("pycoin/networks/bitcoinish.py", "create_bitcoinish_network")
    wb = sym.walk(ctx, b)
    cs = sym.calls_matching(wb, lambda t: t == "standard_parsing_functions")
    if not cs:
        raise Undecided("create_bitcoinish_network does not call standard_parsing_functions directly")
    for e in cs:
        a_ = [norm(x) for x in e.raw.args]
        ctx.check(a_ == ["network.block", "network.tx"], "network-classes", ctx.where(b, e.node),
                  "the message streamer of a network is built with standard_parsing_functions(%s); blocks and transactions in messages must be parsed with the network's own classes (network.block, network.tx)" % ", ".join(a_))


# ------------------------------------------------------------------ C16.3
def c16_3(ctx):
    _refcheck(ctx, MPP, "make_parser_and_packer.pack_from_data", "mpp_pack_from_data", "array-pack")
    _refcheck(ctx, STR, "Streamer.parse_struct", "st_parse_struct", "array-parse")
    _refcheck(ctx, STR, "Streamer.stream_struct", "st_stream_struct", "stream-struct")
    _refcheck(ctx, MPP, "standard_streamer", "mpp_standard_streamer", "array-count-codec")
    _refcheck(ctx, STR, "Streamer.register_functions", "st_register_functions", "codec-registration")
    _refcheck(ctx, STR, "Streamer.register_array_count_parse", "st_register_array_count_parse", "array-count-registration")


# ------------------------------------------------------------------ C16.4
def c16_4(ctx):
    _refcheck(ctx, INV, "InvItem.stream", "inv_stream", "invitem-stream")
    _refcheck(ctx, INV, "InvItem.parse", ["inv_parse", "inv_parse_v2"], "invitem-parse")
    _refcheck(ctx, INV, "InvItem.__init__", "inv_init", "invitem-fields")
    _refcheck(ctx, PEER, "PeerAddress.stream", "peer_stream", "peeraddress-stream")
    _refcheck(ctx, PEER, "PeerAddress.parse", "peer_parse", "peeraddress-parse")
    init = ctx.func(PEER, "PeerAddress.__init__")
    _refcheck(ctx, PEER, "PeerAddress.__init__", "peer_init", "peeraddress-fields")
    v = ru.eval_in_module(ctx, init.module, ast.parse("IP4_HEADER", mode="eval").body)
    ctx.check(v == bytes.fromhex("00000000000000000000ffff"), "ipv4-mapped-prefix", ctx.where(init), "IP4_HEADER is %r" % (v,))


def c16_5(ctx):
    """compact-size counts: the writer picks the shortest form for every value and the reader reads what the writer wrote (shared with C07.3)"""
    from rules import C07
    C07.c07_3(ctx)


OBLIGATIONS = [
    Ob("C16.1", "every message layout equals the wire layout; every type letter has a codec", c16_1, floor=100, engines="TB,REG", exhaustive=True,
       breaks_if="any of the 28 layouts (e.g. getblocktxn indices >= 253)"),
    Ob("C16.2", "codec pairs: one wire type per letter, struct argument order, 6-byte and optional-bool codecs", c16_2, floor=14, engines="SYM,TY", breaks_if="cmpctblock short ids; version(relay=False)"),
    Ob("C16.3", "arrays pack as count + splatted tuples and parse as count + sub-layout", c16_3, floor=6, engines="SYM"),
    Ob("C16.5", "compact-size counts are written in their shortest form and read back symmetrically (shared with C07.3)", c16_5, floor=4, engines="SYM,GI", breaks_if="counts 65535 and 2**32 - 1"),
    Ob("C16.4", "InvItem and PeerAddress stream/parse symmetrically and store fields unchanged", c16_4, floor=7, engines="SYM", breaks_if="inventory types with the witness flag; IPv4 peers"),
]
