"""Transcription of every function of pycoin/coins/bitcoin/Solver.py as of the reviewed tree (see DESIGN.md section 12).
NEVER IMPORTED OR EXECUTED: parsed and compared in canonical form (sa/sym.py) with the functions in /repo."""


_CONSTS = {
    'SIGHASH_ALL': 1,
}


# pycoin/coins/bitcoin/Solver.py :: generate_default_placeholder_signature
def q__generate_default_placeholder_signature(generator):
    return h2b('3045022100fffffffffffffffffffffffffffffffebaaedce6af48a03bbfd25e8cd036414002207fffffffffffffffffffffffffffffff5d576e7357a4501ddfe92f46681b20a001')


# pycoin/coins/bitcoin/Solver.py :: DynamicStack.__init__
def q__DynamicStack____init__(self, initial_stack=[], reserve_count=0, fill_template='x_%d'):
    self.total_item_count = reserve_count
    self.fill_template = fill_template
    super(DynamicStack, self).__init__(initial_stack)


# pycoin/coins/bitcoin/Solver.py :: DynamicStack._fill
def q__DynamicStack___fill(self):
    self.insert(0, Atom(self.fill_template % self.total_item_count))
    self.total_item_count += 1


# pycoin/coins/bitcoin/Solver.py :: DynamicStack.pop
def q__DynamicStack__pop(self, i=-1):
    while len(self) < abs(i):
        self._fill()
    return super(DynamicStack, self).pop(i)


# pycoin/coins/bitcoin/Solver.py :: DynamicStack.__getitem__
def q__DynamicStack____getitem__(self, *args, **kwargs):
    while True:
        try:
            return super(DynamicStack, self).__getitem__(*args, **kwargs)
        except IndexError:
            self._fill()


# pycoin/coins/bitcoin/Solver.py :: Solver.__init__
def q__Solver____init__(self, tx):
    self.tx = tx
    self.solution_checker = self.SolutionChecker(tx)


# pycoin/coins/bitcoin/Solver.py :: Solver.determine_constraints
def q__Solver__determine_constraints(self, tx_in_idx, p2sh_lookup={}):
    tx_context = self.solution_checker.tx_context_for_idx(tx_in_idx)
    tx_context.witness_solution_stack = DynamicStack([Atom('w_%d' % (1 - _)) for _ in range(2)], fill_template='w_%d')
    script_hash = self.solution_checker.script_hash_from_script(tx_context.puzzle_script)
    witness_version = self.solution_checker._witness_program_version(tx_context.puzzle_script)
    tx_context.solution_script = b''
    solution_reserve_count = 0
    fill_template = 'x_%d'
    underlying_script = None
    underlying_script_wit = None
    witness_program = b''
    if script_hash:
        underlying_script = p2sh_lookup.get(script_hash, None)
        if underlying_script is None:
            raise ValueError()
        tx_context.solution_script = self.ScriptTools.compile_push_data_list([underlying_script])
        solution_reserve_count = 1
        witness_version = self.solution_checker._witness_program_version(underlying_script)
    if witness_version == 0:
        base_script = underlying_script if script_hash else tx_context.puzzle_script
        witness_program = base_script[2:]
        if len(witness_program) == 32:
            underlying_script_wit = p2sh_lookup.get(witness_program, None)
            if underlying_script_wit is None:
                raise ValueError()
            fill_template = 'w_%d'
            solution_reserve_count = 1
            tx_context.witness_solution_stack = [underlying_script_wit]
    constraints = []

    def reset_stack_f(stack):
        return DynamicStack(stack, solution_reserve_count, fill_template)
    try:
        traceback_f = make_traceback_f(constraints, self.ScriptTools.int_for_opcode, reset_stack_f)
        self.solution_checker.check_solution(tx_context, traceback_f=traceback_f)
    except ScriptError:
        pass
    if script_hash:
        constraints.append(Operator('EQUAL', Atom('x_0'), underlying_script))
    if witness_version == 0:
        if len(witness_program) == 32:
            constraints.append(Operator('EQUAL', Atom('w_0'), underlying_script_wit))
    return constraints


# pycoin/coins/bitcoin/Solver.py :: Solver.determine_constraints.reset_stack_f
def q__Solver__determine_constraints__reset_stack_f(stack):
    return DynamicStack(stack, solution_reserve_count, fill_template)


# pycoin/coins/bitcoin/Solver.py :: Solver.solve_for_constraints
def q__Solver__solve_for_constraints(self, constraints, **kwargs):
    solutions = []
    for c in constraints:
        s = self.solutions_for_constraint(c)
        if s:
            solutions.append(s)
    deps = set()
    for c in constraints:
        deps.update(c.dependencies())
    solved_values = {d: None for d in deps}
    progress = True
    while progress and None in solved_values.values():
        progress = False
        for solution, target, dependencies in solutions:
            if any((solved_values.get(t) is not None for t in target)):
                continue
            if any((solved_values[d] is None for d in dependencies)):
                continue
            s = solution(solved_values, **kwargs)
            solved_values.update(s)
            progress = progress or len(s) > 0

    def placeholder_index(k):
        return int(k.name.split('_')[-1])
    x_keys = sorted((k for k in solved_values.keys() if k.name.startswith('x')), key=placeholder_index, reverse=True)
    w_keys = sorted((k for k in solved_values.keys() if k.name.startswith('w')), key=placeholder_index, reverse=True)
    solution_list = [solved_values.get(k) for k in x_keys]
    witness_list = [solved_values.get(k) for k in w_keys]
    return (solution_list, witness_list)


# pycoin/coins/bitcoin/Solver.py :: Solver.solve_for_constraints.placeholder_index
def q__Solver__solve_for_constraints__placeholder_index(k):
    return int(k.name.split('_')[-1])


# pycoin/coins/bitcoin/Solver.py :: Solver.solve
def q__Solver__solve(self, hash160_lookup, tx_in_idx, hash_type=None, **kwargs):
    if hash_type is None:
        hash_type = SIGHASH_ALL
    kwargs['hash160_lookup'] = hash160_lookup
    if 'signature_placeholder' not in kwargs:
        kwargs['signature_placeholder'] = generate_default_placeholder_signature(kwargs.get('generator'))
    if self.tx.txs_in[tx_in_idx].witness:
        kwargs['existing_script'] = self.tx.txs_in[tx_in_idx].witness
    else:
        kwargs['existing_script'] = [data for opcode, data, pc, new_pc in self.ScriptTools.get_opcodes(self.tx.txs_in[tx_in_idx].script) if data is not None]
    kwargs['signature_type'] = hash_type
    kwargs['generator_for_signature_type_f'] = self.solution_checker.VM.generator_for_signature_type
    constraints = self.determine_constraints(tx_in_idx, p2sh_lookup=kwargs.get('p2sh_lookup') or {})
    solution_list, witness_list = self.solve_for_constraints(constraints, **kwargs)
    solution_script = self.ScriptTools.compile_push_data_list(solution_list)
    if witness_list:
        return (solution_script, witness_list)
    return solution_script


# pycoin/coins/bitcoin/Solver.py :: Solver.sign
def q__Solver__sign(self, hash160_lookup, tx_in_idx_set=None, hash_type=None, **kwargs):
    checker = self.SolutionChecker(self.tx)
    if tx_in_idx_set is None:
        tx_in_idx_set = range(len(self.tx.txs_in))
    self.tx.check_unspents()
    for tx_in_idx in sorted(tx_in_idx_set):
        tx_context = checker.tx_context_for_idx(tx_in_idx)
        try:
            checker.check_solution(tx_context, flags=None)
            continue
        except ScriptError:
            pass
        try:
            r = self.solve(hash160_lookup, tx_in_idx, hash_type=hash_type, **kwargs)
            if isinstance(r, bytes):
                self.tx.txs_in[tx_in_idx].script = r
            else:
                self.tx.txs_in[tx_in_idx].script = r[0]
                self.tx.set_witness(tx_in_idx, r[1])
        except (SolvingError, ValueError):
            pass
    return self


# pycoin/coins/bitcoin/Solver.py :: Solver.solutions_for_constraint
def q__Solver__solutions_for_constraint(self, c):
    raise NotImplementedError


# pycoin/coins/bitcoin/Solver.py :: BitcoinSolver.solutions_for_constraint
def q__BitcoinSolver__solutions_for_constraint(self, c):
    return BitcoinConstraintSolver.solutions_for_constraint(c)
