"""C15 - header-chain tracking.  The first sentence of the property (the reported chain is heaviest for EVERY delivery
history) is a relation over histories that static analysis does not decide; only the structural clauses C15.1-5 of
DESIGN.md section 4 are decided here."""
from __future__ import annotations

import ast

from sa.core import Ob
from sa.pm import AnalysisError, norm, body_nodes
from sa import gi, df, ru
from sa.gi import GuardWalker, SymbolicAtomizer, IntSet, iv
from sa.ef import writes_in

BC = "pycoin/blockchain/BlockChain.py"
CF = "pycoin/blockchain/ChainFinder.py"
U, E = IntSet.all(), IntSet.empty()


def _lin(e, env=None):
    """affine form {name: coef, '': const}; env substitutes names by affine forms"""
    env = env or {}
    if isinstance(e, ast.Constant) and isinstance(e.value, int):
        return {"": e.value}
    if isinstance(e, ast.BinOp) and isinstance(e.op, (ast.Add, ast.Sub)):
        a, b = _lin(e.left, env), _lin(e.right, env)
        if a is None or b is None:
            return None
        out = dict(a)
        for k, v in b.items():
            out[k] = out.get(k, 0) + (v if isinstance(e.op, ast.Add) else -v)
        return out
    if isinstance(e, ast.UnaryOp) and isinstance(e.op, ast.USub):
        a = _lin(e.operand, env)
        return None if a is None else {k: -v for k, v in a.items()}
    t = norm(e)
    if t in env:
        return dict(env[t])
    return {t: 1}


def _clean(d):
    return {k: v for k, v in d.items() if v != 0}


# ------------------------------------------------------------------ C15.1
def c15_1(ctx):
    f = ctx.func(BC, "BlockChain._longest_local_block_chain")
    loops = [n for n in body_nodes(f.node) if isinstance(n, ast.For)]
    ok = len(loops) == 1 and norm(loops[0].iter) == "self.chain_finder.all_chains_ending_at(self.parent_hash)"
    ctx.check(ok, "candidates", ctx.where(f), "the candidates are not all chains ending at the anchor (self.parent_hash)")
    if not ok:
        return
    lp = loops[0]
    wd = [st for st in lp.body if isinstance(st, ast.Assign) and norm(st.targets[0]) == "weight"]
    ok = len(wd) == 1 and norm(wd[0].value) == "sum((self.weight_lookup.get(h, 0) for h in %s))" % norm(lp.target)
    ctx.check(ok, "weight-is-current-sum", ctx.where(f, lp),
              "a chain's weight is `%s`; it must be recomputed as the sum of the current weights of its members each time (a memo keyed by the tip goes stale when the chain is shortened by locking)" % ([norm(w.value) for w in wd]),
              sample={"weight": [norm(w.value) for w in wd]})
    ifs = [st for st in lp.body if isinstance(st, ast.If)]
    ok = len(ifs) == 1 and norm(ifs[0].test) in ("weight > max_weight", "max_weight < weight") and {norm(s) for s in ifs[0].body} == {"longest = %s" % norm(lp.target), "max_weight = weight"} and not ifs[0].orelse
    ctx.check(ok, "argmax-idiom", ctx.where(f, lp), "the incumbent is not replaced exactly under weight > max_weight with both the chain and the weight updated")
    t = norm(f.node)
    ctx.check("max_weight = 0" in t and "longest: list[Any] = []" in t and "self._longest_chain_cache = longest[:-1]" in t and "if self._longest_chain_cache is None:" in t and "return self._longest_chain_cache" in t, "anchor-dropped-once", ctx.where(f),
              "the result is not the best chain without its anchor, memoised until invalidated")
    for w in writes_in(f):
        ctx.check(w.text == "self._longest_chain_cache = ...", "selection-state:%s" % w.text, ctx.where(f, w.node), "_longest_local_block_chain keeps state in `%s`; only the result memo may be written here (anything else survives lock_to_index / add_headers unnoticed)" % w.text,
                  what="write:%s" % w.text, sample={"write": w.text})
    # invalidation
    a = ctx.func(BC, "BlockChain.add_headers")
    top = [norm(s) for s in a.node.body]
    i_load = [i for i, s in enumerate(top) if s == "self.chain_finder.load_nodes(iterate())"]
    i_reset = [i for i, s in enumerate(top) if s == "self._longest_chain_cache = None"]
    i_old = [i for i, s in enumerate(top) if s == "old_longest_chain = self._longest_local_block_chain()"]
    i_new = [i for i, s in enumerate(top) if s == "new_longest_chain = self._longest_local_block_chain()"]
    ok = len(i_load) == 1 and len(i_reset) == 1 and len(i_old) == 1 and len(i_new) == 1 and i_old[0] < i_load[0] < i_reset[0] < i_new[0]
    ctx.check(ok, "memo-reset-on-delivery", ctx.where(a), "add_headers does not read the old chain, load the headers, drop the memo and recompute, in that order")
    l = ctx.func(BC, "BlockChain.lock_to_index")
    stores = [st for st in body_nodes(l.node) if isinstance(st, ast.Assign) and norm(st.targets[0]) == "self._longest_chain_cache"]
    ok = len(stores) == 1 and norm(stores[0].value) in ("longest_chain[:-index]", "longest_chain[:len(longest_chain) - index]")
    ctx.check(ok, "memo-kept-on-lock", ctx.where(l),
              "lock_to_index sets the memo to `%s`; locking must not change the reported chain, so the memo has to become the unlocked remainder of the chain reported so far (recomputing lets a tie between equal-weight chains break the other way, "
              "leaving hash_to_index_lookup stale and no add/remove operations emitted)" % [norm(s.value) for s in stores], sample={"memo_after_lock": [norm(s.value) for s in stores]})


# ------------------------------------------------------------------ C15.2
def c15_2(ctx):
    a = ctx.func(BC, "BlockChain.add_headers")
    loops = [n for n in a.node.body if isinstance(n, ast.For)]
    rm = [lp for lp in loops if any("'remove'" in norm(s) for s in lp.body)]
    ad = [lp for lp in loops if any("'add'" in norm(s) for s in lp.body)]
    ok = len(rm) == 1 and len(ad) == 1
    ctx.check(ok, "op-loops", ctx.where(a), "add_headers does not have one removal loop and one addition loop")
    if not ok:
        return
    def parts(lp, kind):
        op = [s for s in lp.body if isinstance(s, ast.Assign) and norm(s.targets[0]) == "op"]
        idx_expr = norm(op[0].value.elts[2]) if op and isinstance(op[0].value, ast.Tuple) and len(op[0].value.elts) == 3 else None
        blk = norm(op[0].value.elts[1]) if idx_expr else None
        app = any(norm(s) == "ops.append(op)" for s in lp.body)
        if kind == "remove":
            mp = [s for s in lp.body if isinstance(s, ast.Delete) and norm(s.targets[0]) == "self.hash_to_index_lookup[h]"]
            mexpr = idx_expr if mp else None
        else:
            mp = [s for s in lp.body if isinstance(s, ast.Assign) and norm(s.targets[0]) == "self.hash_to_index_lookup[h]"]
            mexpr = norm(mp[0].value) if mp else None
        return idx_expr, blk, app, bool(mp), mexpr
    ri, rb, rapp, rmap, _ = parts(rm[0], "remove")
    ai, ab, aapp, amap, am = parts(ad[0], "add")
    ctx.check(ri == "size - idx - 1" and rb == "self.block_for_hash(h)" and rapp and rmap, "remove-lockstep", ctx.where(a, rm[0]), "every ('remove', block, k) is not paired with `del hash_to_index_lookup[h]` (k = %s)" % ri, sample={"remove_index": ri})
    ctx.check(ai == "size - idx - 1" and ab == "self.block_for_hash(h)" and aapp and amap and am == ai, "add-lockstep", ctx.where(a, ad[0]),
              "('add', block, %s) is recorded while hash_to_index_lookup[h] = %s: the operations and the index map disagree" % (ai, am), sample={"add_index": ai, "map_index": am})
    ctx.check(norm(rm[0].iter) == "enumerate(old_path)" and norm(ad[0].iter) == "reversed(list(enumerate(new_path)))" and a.node.body.index(rm[0]) < a.node.body.index(ad[0]), "op-order", ctx.where(a),
              "removals (tip first) are not emitted before additions (root first)")
    sizes = [(norm(s.value), a.node.body.index(s)) for s in a.node.body if isinstance(s, ast.Assign) and norm(s.targets[0]) == "size"]
    ok = len(sizes) == 2 and sizes[0][0] == "len(old_longest_chain) + len(self._locked_chain)" and sizes[1][0] == "len(new_longest_chain) + len(self._locked_chain)" and sizes[0][1] < a.node.body.index(rm[0]) < sizes[1][1] < a.node.body.index(ad[0])
    ctx.check(ok, "sizes", ctx.where(a), "removal indices are not counted from the old chain length and addition indices from the new one (plus the locked prefix): %s" % sizes)
    t = norm(a.node)
    ctx.check("for callback in self.change_callbacks:\n        callback(self, ops)" in t and "return ops" in t, "callbacks-get-ops", ctx.where(a), "callbacks do not receive the returned operation list")
    ctx.check("old_path, new_path = self.chain_finder.find_ancestral_path(old_longest_chain[0], new_longest_chain[0])" in t and "old_path = old_path[:-1]" in t and "new_path = new_path[:-1]" in t, "diff-by-common-ancestor", ctx.where(a),
              "the operations are not the two branches up to (excluding) the common ancestor")


# ------------------------------------------------------------------ C15.3
def c15_3(ctx):
    # index assigned by add_headers to tip-first position j:  i = size - j - 1,  size = n + L
    assign = _lin(ast.parse("size - idx - 1", mode="eval").body, {"size": {"n": 1, "L": 1}, "idx": {"j": 1}})
    t = ctx.func(BC, "BlockChain.tuple_for_index")
    subs = [n for n in body_nodes(t.node) if isinstance(n, ast.Subscript) and norm(n.value) == "longest_chain"]
    ok = len(subs) == 1
    read = None
    if ok:
        # index -= size happened before: position (from the end) = -(i - L) - 1  ->  tip-first position n + that
        read = _lin(subs[0].slice, {"index": {"i": 1, "L": -1}})
        if read is not None:
            pos = dict(read)
            pos["n"] = pos.get("n", 0) + 1          # negative index -> n + index
            # substitute i by the assigned index
            comp = {k: v for k, v in pos.items() if k != "i"}
            for k, v in assign.items():
                comp[k] = comp.get(k, 0) + pos.get("i", 0) * v
            ok = _clean(comp) == {"j": 1}
        else:
            ok = False
    ctx.check(ok, "read-inverts-assignment", ctx.where(t), "tuple_for_index reads position `%s` of the tip-first chain for index i - L; composed with the assignment i = size - j - 1 this is not the identity" % (norm(subs[0].slice) if subs else None),
              sample={"assigned_index": "size - j - 1 (size = n + L)", "read_position": norm(subs[0].slice) if subs else None})
    tt = norm(t.node)
    ctx.check("size = len(self._locked_chain)" in tt and "if index < size:" in tt and "return self._locked_chain[index]" in tt and "index -= size" in tt, "locked-prefix-read", ctx.where(t), "indices below the locked length are not served from the locked chain")
    ctx.check("parent_hash = self.parent_hash if index <= 0 else self._longest_chain_cache[-index]" in tt, "parent-read", ctx.where(t), "the parent of index i is not the anchor for the first unlocked entry and the entry below otherwise")
    ctx.check("if index < 0:" in tt and "index = self.length() + index" in tt, "negative-index", ctx.where(t), "negative indices are not counted from the tip")
    l = ctx.func(BC, "BlockChain.lock_to_index")
    lt = norm(l.node)
    ok = "for idx in range(index):" in lt and "the_hash = longest_chain[-idx - 1]" in lt and "parent_hash = self.parent_hash if idx <= 0 else self._longest_chain_cache[-idx]" in lt and "self._locked_chain.append(item)" in lt and "self.parent_hash = the_hash" in lt
    ctx.check(ok, "lock-order", ctx.where(l), "lock_to_index does not move entries root first (position -idx-1) into the locked chain and advance the anchor")
    ctx.check("index -= old_length" in lt and "if index < 1:" in lt, "lock-count", ctx.where(l), "lock_to_index does not lock exactly index - locked_length further entries")
    ln = ctx.func(BC, "BlockChain.length")
    ctx.check("return len(self._longest_local_block_chain()) + len(self._locked_chain)" in norm(ln.node), "length", ctx.where(ln), "length is not locked + unlocked")


# ------------------------------------------------------------------ C15.4
def c15_4(ctx):
    f = ctx.func(CF, "ChainFinder.meld_new_hashes")
    ws = f.params()[1]
    removals = []
    for c in df.calls_in(f.node):
        if isinstance(c.func, ast.Attribute) and norm(c.func.value) == ws and c.func.attr in ("pop", "discard", "remove", "difference_update", "clear", "intersection_update"):
            removals.append(c)
    for c in removals:
        ctx.check(c.func.attr == "pop", "work-set-removal:%s" % c.func.attr, ctx.where(f, c),
                  "meld_new_hashes removes an element from the work set with `%s`; elements taken by pop() become the bottom of a path and have descendents_by_top consulted for them, an element removed any other way is never looked up there, "
                  "so orphan subtrees waiting on it are never joined (arrival orders where the parent arrives in the same batch as another of its children)" % norm(c), what="removal:%s" % norm(c), sample={"removal": norm(c)})
    ctx.check(any(c.func.attr == "pop" for c in removals), "work-set-pop", ctx.where(f), "meld_new_hashes does not consume the work set by pop()")
    t = norm(f.node)
    ctx.check("while len(%s) > 0:" % ws in t and "bottom_descendents = self.descendents_by_top.get(bottom_h)" in t and "top_descendents = self.descendents_by_top.setdefault(top_h, set())" in t, "waiting-table-consulted", ctx.where(f),
              "the waiting table is not consulted for the bottom of every new path")
    ctx.check("preceding_path = self.trees_from_bottom.get(h)" in t and "path.extend(preceding_path)" in t and "self.descendents_by_top[preceding_path[-1]].remove(preceding_path[0])" in t, "extend-existing-path", ctx.where(f), "an existing path above is not absorbed with its waiting-table entry fixed up")
    ctx.check("prior_path.extend(path[1:])" in t and "top_descendents.update(bottom_descendents)" in t and "del self.descendents_by_top[bottom_h]" in t and "top_descendents.add(bottom_h)" in t, "join-below", ctx.where(f), "paths waiting on the new bottom are not extended and re-registered under the new top")
    ln = ctx.func(CF, "ChainFinder.load_nodes")
    t = norm(ln.node)
    ctx.check("if h in self.parent_lookup:\n            continue" in t and "self.parent_lookup[h] = parent" in t and "new_hashes.add(h)" in t and "self.meld_new_hashes(new_hashes)" in t, "load-dedup", ctx.where(ln), "load_nodes does not ignore already known hashes and meld the new ones")


# ------------------------------------------------------------------ C15.5
def c15_5(ctx):
    a = ctx.func(BC, "BlockChain.add_headers")
    it = ctx.p.functions.get(a.qualname + ".iterate")
    if it is None:
        raise AnalysisError("add_headers.iterate not found")
    w = GuardWalker(ru.opaque)
    w.run(it.node.body)
    from rules.C01 import can_be
    known = ("self.is_hash_known(h)", "h in self.hash_to_index_lookup")
    for st, r in w.visits:
        if isinstance(st, ast.Expr) and isinstance(st.value, ast.Yield):
            ops = gi.f_opaques(r)
            ok = any(k in ops for k in known) and not any(can_be(gi.f_and(r, ("op", k)), "\0") for k in known if k in ops)
            ctx.check(ok, "known-hashes-skipped", ctx.where(it, st),
                      "add_headers hands every delivered header to the finder (guards %s); after lock_to_index the rebuilt finder no longer knows the locked hashes while hash_to_index_lookup does, so a re-delivered locked header is loaded "
                      "as a new root and its descendants drop out of the reported chain" % ops, sample={"guards": ops})
    t = norm(it.node)
    ctx.check("self.weight_lookup[h] = header.difficulty" in t and "yield (h, header.previous_block_hash)" in t, "header-registration", ctx.where(it), "add_headers does not register weight and parent of each header")
    k = ctx.func(BC, "BlockChain.is_hash_known")
    ctx.check("return the_hash in self.hash_to_index_lookup" in norm(k.node), "known-definition", ctx.where(k), "is_hash_known is not membership in hash_to_index_lookup")
    # the rebuild after locking carries over every tree of the old finder (orphans included)
    l = ctx.func(BC, "BlockChain.lock_to_index")
    li = ctx.p.functions.get(l.qualname + ".iterate")
    if li is None:
        raise AnalysisError("lock_to_index.iterate not found")
    loops = [n for n in li.node.body if isinstance(n, ast.For)]
    ok = len(loops) == 1 and norm(loops[0].iter) == "old_chain_finder.trees_from_bottom.values()"
    ctx.check(ok, "rebuild-keeps-all-trees", ctx.where(li), "the finder rebuilt by lock_to_index is fed from `%s`; it must carry over every tree of the old finder, including orphan subtrees still waiting for a parent" % ([norm(x.iter) for x in loops]),
              sample={"source": [norm(x.iter) for x in loops]})
    t = norm(li.node)
    ctx.check("if c in excluded:\n                break" in t and "excluded.add(c)" in t and "yield (c, old_chain_finder.parent_lookup[c])" in t, "rebuild-excludes-locked", ctx.where(li), "the rebuild does not stop each tree at the first locked / already emitted node")
    lt = norm(l.node)
    ctx.check("excluded.add(the_hash)" in lt and "self.chain_finder = ChainFinder()" in lt and "self.chain_finder.load_nodes(iterate())" in lt, "rebuild-shape", ctx.where(l), "lock_to_index does not rebuild the finder without the locked hashes")


OBLIGATIONS = [
    Ob("C15.1", "selection idiom: weight = current sum, strict argmax, memo reset on delivery and kept (as remainder) on lock", c15_1, floor=7, engines="DF,EF,GI", breaks_if="forks with ties; memoised weights across lock_to_index"),
    Ob("C15.2", "add/remove operations and hash_to_index_lookup change in lock-step with one index expression", c15_2, floor=7, engines="DF"),
    Ob("C15.3", "index assignment, index read-back and lock order are mutually inverse affine maps", c15_3, floor=7, engines="LIN"),
    Ob("C15.4", "work-set consumption consistency in meld_new_hashes (pop only)", c15_4, floor=6, engines="DF,CFG", breaks_if="orphan subtree waiting on a block that arrives in the same batch as another of its children"),
    Ob("C15.5", "one notion of `known hash`; the rebuilt finder keeps every tree", c15_5, floor=6, engines="DF,CFG", breaks_if="re-delivery of a locked header; orphans delivered before a lock"),
]
