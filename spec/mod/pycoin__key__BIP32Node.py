"""Transcription of every function of pycoin/key/BIP32Node.py as of the reviewed tree (see DESIGN.md section 12).
NEVER IMPORTED OR EXECUTED: parsed and compared in canonical form (sa/sym.py) with the functions in /repo."""


_CONSTS = {

}


# pycoin/key/BIP32Node.py :: BIP32Node.from_master_secret
def q__BIP32Node__from_master_secret(class_, master_secret):
    I64 = hmac.HMAC(key=b'Bitcoin seed', msg=master_secret, digestmod=hashlib.sha512).digest()
    return class_(chain_code=I64[32:], secret_exponent=from_bytes_32(I64[:32]))


# pycoin/key/BIP32Node.py :: BIP32Node.deserialize
def q__BIP32Node__deserialize(class_, data):
    parent_fingerprint, child_index = struct.unpack('>4sL', data[5:13])
    d = dict(chain_code=data[13:45], depth=ord(data[4:5]), parent_fingerprint=parent_fingerprint, child_index=child_index)
    is_private = data[45:46] == b'\x00'
    if is_private:
        d['secret_exponent'] = from_bytes_32(data[46:])
    else:
        d['public_pair'] = sec_to_public_pair(data[45:], generator=class_._generator)
    return class_(**d)


# pycoin/key/BIP32Node.py :: BIP32Node.override_network
def q__BIP32Node__override_network(self, override_network):
    blob = self.serialize()
    padded_blob = b'\x00\x00\x00\x00' + blob
    return override_network.keys.bip32_deserialize(padded_blob)


# pycoin/key/BIP32Node.py :: BIP32Node.__init__
def q__BIP32Node____init__(self, chain_code, depth=0, parent_fingerprint=b'\x00\x00\x00\x00', child_index=0, secret_exponent=None, public_pair=None):
    if [secret_exponent, public_pair].count(None) != 1:
        raise ValueError()
    super(BIP32Node, self).__init__(secret_exponent=secret_exponent, public_pair=public_pair, is_compressed=True)
    if secret_exponent:
        self._secret_exponent_bytes = to_bytes_32(secret_exponent)
    if not isinstance(chain_code, bytes):
        raise TypeError()
    if len(chain_code) != 32:
        raise ValueError()
    self._chain_code = chain_code
    self._depth = depth
    if len(parent_fingerprint) != 4:
        raise EncodingError()
    self._parent_fingerprint = parent_fingerprint
    self._child_index = child_index
    self._subkey_cache = dict()


# pycoin/key/BIP32Node.py :: BIP32Node.chain_code
def q__BIP32Node__chain_code(self):
    return self._chain_code


# pycoin/key/BIP32Node.py :: BIP32Node.tree_depth
def q__BIP32Node__tree_depth(self):
    return self._depth


# pycoin/key/BIP32Node.py :: BIP32Node.parent_fingerprint
def q__BIP32Node__parent_fingerprint(self):
    return self._parent_fingerprint


# pycoin/key/BIP32Node.py :: BIP32Node.child_index
def q__BIP32Node__child_index(self):
    return self._child_index


# pycoin/key/BIP32Node.py :: BIP32Node.serialize
def q__BIP32Node__serialize(self, as_private=None):
    if as_private is None:
        as_private = self.secret_exponent() is not None
    if self.secret_exponent() is None and as_private:
        raise PublicPrivateMismatchError()
    ba = bytearray()
    ba.extend([self._depth])
    ba.extend(self._parent_fingerprint + struct.pack('>L', self._child_index) + self._chain_code)
    if as_private:
        ba += b'\x00' + self._secret_exponent_bytes
    else:
        ba += self.sec(is_compressed=True)
    return bytes(ba)


# pycoin/key/BIP32Node.py :: BIP32Node.hwif
def q__BIP32Node__hwif(self, as_private=False):
    return self._network.bip32_as_string(self.serialize(as_private=as_private), as_private=as_private)


# pycoin/key/BIP32Node.py :: BIP32Node.public_copy
def q__BIP32Node__public_copy(self):
    d = dict(chain_code=self._chain_code, depth=self._depth, parent_fingerprint=self._parent_fingerprint, child_index=self._child_index, public_pair=self.public_pair())
    return self.__class__(**d)


# pycoin/key/BIP32Node.py :: BIP32Node._subkey
def q__BIP32Node___subkey(self, i, is_hardened, as_private):
    if i < 0:
        raise ValueError()
    if i >= 2147483648:
        raise ValueError()
    i &= 2147483647
    if is_hardened:
        i |= 2147483648
    d = dict(depth=self._depth + 1, parent_fingerprint=self.fingerprint(), child_index=i)
    if self.secret_exponent() is None:
        if is_hardened:
            raise PublicPrivateMismatchError()
        d['public_pair'], chain_code = subkey_public_pair_chain_code_pair(self._generator, self.public_pair(), self._chain_code, i)
    else:
        secret_exponent = self.secret_exponent()
        assert secret_exponent is not None
        d['secret_exponent'], chain_code = subkey_secret_exponent_chain_code_pair(self._generator, secret_exponent, self._chain_code, i, is_hardened, self.public_pair())
    d['chain_code'] = chain_code
    key = self.__class__(**d)
    if not as_private:
        key = key.public_copy()
    return key


# pycoin/key/BIP32Node.py :: BIP32Node.__repr__
def q__BIP32Node____repr__(self):
    r = self.as_text(as_private=False)
    if self.secret_exponent():
        return 'private_for <%s>' % r
    return '<%s>' % r


# pycoin/key/BIP32Node.py :: BIP32Node.subkey
def q__BIP32Node__subkey(self, i=0, is_hardened=False, as_private=None):
    if as_private is None:
        as_private = self.secret_exponent() is not None
    is_hardened = not not is_hardened
    as_private = not not as_private
    lookup = (i, is_hardened, as_private)
    if lookup not in self._subkey_cache:
        self._subkey_cache[lookup] = self._subkey(i, is_hardened, as_private)
    return self._subkey_cache[lookup]


# pycoin/key/BIP32Node.py :: BIP32Node.subkey_for_path
def q__BIP32Node__subkey_for_path(self, path):
    force_public = path[-4:] == '.pub'
    if force_public:
        path = path[:-4]
    key = self
    if path:
        invocations = path.split('/')
        for v in invocations:
            is_hardened = v[-1] in "'pH"
            if is_hardened:
                v = v[:-1]
            vi = int(v)
            key = key.subkey(i=vi, is_hardened=is_hardened, as_private=key.secret_exponent() is not None)
    if force_public and key.secret_exponent() is not None:
        key = key.public_copy()
    return key


# pycoin/key/BIP32Node.py :: BIP32Node.children
def q__BIP32Node__children(self, max_level=50, start_index=0, include_hardened=True):
    for i in range(start_index, max_level + start_index + 1):
        yield self.subkey(i)
        if include_hardened:
            yield self.subkey(i, is_hardened=True)
