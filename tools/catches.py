#!/usr/bin/env python3
"""catches.py <seedrun output>: write /verif/seeded/CATCHES.txt -- for every kept variant, which obligation(s) of its own property
caught it (breaking changes, reverts of fix: commits) or that it is silent (refactoring twins); from a run of tools/seedrun.sh"""
import re, sys, json, os
rows = []
for l in open(sys.argv[1]):
    m = re.match(r"^(C\d\d-[\w-]+): (.*)$", l.strip())
    if m:
        rows.append((m.group(1), m.group(2)))
def key(r):
    pid, rest = r[0].split("-", 1)
    k = re.match(r"([a-z]*)(\d+)?", rest)
    return (pid, k.group(1), int(k.group(2) or 0), rest)
rows.sort(key=key)
out = ["# variant: verdict of its own property's check (tools/seedrun.sh); summary of the variant from its meta.json", ""]
for name, verdict in rows:
    summ = ""
    mp = "/verif/seeded/%s/meta.json" % name
    if os.path.exists(mp):
        try:
            summ = json.load(open(mp)).get("summary", "")[:110].replace("\n", " ")
        except Exception:
            pass
    out.append("%-22s %-60s %s" % (name, verdict[:60], summ))
open("/verif/seeded/CATCHES.txt", "w").write("\n".join(out) + "\n")
print(len(rows), "rows")
