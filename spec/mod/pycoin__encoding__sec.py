"""Transcription of every function of pycoin/encoding/sec.py as of the reviewed tree (see DESIGN.md section 12).
NEVER IMPORTED OR EXECUTED: parsed and compared in canonical form (sa/sym.py) with the functions in /repo."""


_CONSTS = {

}


# pycoin/encoding/sec.py :: public_pair_to_sec
def q__public_pair_to_sec(public_pair, compressed=True):
    x_str = to_bytes_32(public_pair[0])
    if compressed:
        return bytes([2 + (public_pair[1] & 1)]) + x_str
    y_str = to_bytes_32(public_pair[1])
    return b'\x04' + x_str + y_str


# pycoin/encoding/sec.py :: sec_to_public_pair
def q__sec_to_public_pair(sec, generator=None, strict=True):
    byte_count = generator.p().bit_length() + 7 >> 3 if generator else len(sec) - 1
    x = from_bytes_32(sec[1:1 + byte_count])
    if generator and x >= generator.p():
        raise EncodingError()
    sec0 = sec[:1]
    if len(sec) == 1 + byte_count * 2:
        isok = sec0 == b'\x04'
        if not strict:
            isok = isok or sec0 in [b'\x06', b'\x07']
        if isok:
            y = from_bytes_32(sec[1 + byte_count:1 + 2 * byte_count])
            if generator and y >= generator.p():
                raise EncodingError()
            if generator and (not generator.contains_point(x, y)):
                raise EncodingError()
            if sec0 in (b'\x06', b'\x07') and y & 1 != (sec0 == b'\x07'):
                raise EncodingError()
            return (x, y)
    elif len(sec) == 1 + byte_count:
        if sec0 in (b'\x02', b'\x03'):
            is_y_odd = sec0 != b'\x02'
            assert generator is not None
            return cast(tuple[int, int], generator.points_for_x(x)[is_y_odd])
    raise EncodingError()


# pycoin/encoding/sec.py :: is_sec
def q__is_sec(sec):
    c = sec[:1]
    size = len(sec)
    if c in (b'\x02', b'\x03') and size == 33:
        return True
    return c == b'\x04' and size == 65


# pycoin/encoding/sec.py :: is_sec_compressed
def q__is_sec_compressed(sec):
    return sec[:1] in (b'\x02', b'\x03')


# pycoin/encoding/sec.py :: public_pair_to_hash160_sec
def q__public_pair_to_hash160_sec(public_pair, compressed=True):
    return hash160(public_pair_to_sec(public_pair, compressed=compressed))
