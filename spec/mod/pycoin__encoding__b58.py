"""Transcription of every function of pycoin/encoding/b58.py as of the reviewed tree (see DESIGN.md section 12).
NEVER IMPORTED OR EXECUTED: parsed and compared in canonical form (sa/sym.py) with the functions in /repo."""


_CONSTS = {
    'BASE58_ALPHABET': b'123456789ABCDEFGHJKLMNPQRSTUVWXYZabcdefghijkmnopqrstuvwxyz',
    'BASE58_BASE': 58,
}


# pycoin/encoding/b58.py :: b2a_base58
def q__b2a_base58(s):
    v, prefix = to_long(256, lambda x: x, s)
    s = from_long(v, prefix, BASE58_BASE, lambda v: BASE58_ALPHABET[v])
    return s.decode('utf8')


# pycoin/encoding/b58.py :: a2b_base58
def q__a2b_base58(s):
    v, prefix = to_long(BASE58_BASE, lambda c: BASE58_LOOKUP[c], s.encode('utf8'))
    return from_long(v, prefix, 256, lambda x: x)


# pycoin/encoding/b58.py :: b2a_hashed_base58
def q__b2a_hashed_base58(data):
    return b2a_base58(data + double_sha256(data)[:4])


# pycoin/encoding/b58.py :: a2b_hashed_base58
def q__a2b_hashed_base58(s):
    data = a2b_base58(s)
    data, the_hash = (data[:-4], data[-4:])
    if double_sha256(data)[:4] == the_hash:
        return data
    raise EncodingError()


# pycoin/encoding/b58.py :: is_hashed_base58_valid
def q__is_hashed_base58_valid(base58):
    try:
        a2b_hashed_base58(base58)
    except EncodingError:
        return False
    return True
