"""Transcription of every function of pycoin/ecdsa/encrypt.py as of the reviewed tree (see DESIGN.md section 12).
NEVER IMPORTED OR EXECUTED: parsed and compared in canonical form (sa/sym.py) with the functions in /repo."""


_CONSTS = {

}


# pycoin/ecdsa/encrypt.py :: generate_shared_public_key
def q__generate_shared_public_key(my_private_key, their_public_pair, generator):
    p = generator.Point(*their_public_pair)
    return my_private_key * p
