"""Transcription of every function of pycoin/coins/bitcoin/TxIn.py as of the reviewed tree (see DESIGN.md section 12).
NEVER IMPORTED OR EXECUTED: parsed and compared in canonical form (sa/sym.py) with the functions in /repo."""


_CONSTS = {
    'ZERO': b'\x00\x00\x00\x00\x00\x00\x00\x00\x00\x00\x00\x00\x00\x00\x00\x00\x00\x00\x00\x00\x00\x00\x00\x00\x00\x00\x00\x00\x00\x00\x00\x00',
}


# pycoin/coins/bitcoin/TxIn.py :: TxIn.__init__
def q__TxIn____init__(self, previous_hash, previous_index, script=b'', sequence=4294967295):
    self.previous_hash = previous_hash
    self.previous_index = previous_index
    self.script = script
    self.sequence = sequence
    self.witness = []


# pycoin/coins/bitcoin/TxIn.py :: TxIn.coinbase_tx_in
def q__TxIn__coinbase_tx_in(class_, script):
    tx = class_(previous_hash=ZERO, previous_index=4294967295, script=script)
    return tx


# pycoin/coins/bitcoin/TxIn.py :: TxIn.stream
def q__TxIn__stream(self, f, blank_solutions=False):
    script = b'' if blank_solutions else self.script
    stream_struct('#LSL', f, self.previous_hash, self.previous_index, script, self.sequence)


# pycoin/coins/bitcoin/TxIn.py :: TxIn.parse
def q__TxIn__parse(cls, f):
    return cls(*parse_struct('#LSL', f))


# pycoin/coins/bitcoin/TxIn.py :: TxIn.is_coinbase
def q__TxIn__is_coinbase(self):
    return self.previous_hash == ZERO and self.previous_index == 4294967295


# pycoin/coins/bitcoin/TxIn.py :: TxIn.public_key_sec
def q__TxIn__public_key_sec(self):
    if self.is_coinbase():
        return None
    opcodes = ScriptTools.opcode_list(self.script)
    if len(opcodes) == 2 and opcodes[0].startswith('[30'):
        sec = h2b(opcodes[1][1:-1])
        return sec
    return None


# pycoin/coins/bitcoin/TxIn.py :: TxIn.address
def q__TxIn__address(self, address_api):
    if self.is_coinbase():
        return '(coinbase)'
    sec = self.public_key_sec()
    if sec:
        address = address_api.for_p2pkh(hash160(sec))
        return address
    return '(unknown)'


# pycoin/coins/bitcoin/TxIn.py :: TxIn.__str__
def q__TxIn____str__(self):
    if self.is_coinbase():
        return 'TxIn<COINBASE: %s>' % b2h(self.script)
    return 'TxIn<%s[%d] "%s">' % (b2h_rev(self.previous_hash), self.previous_index, ScriptTools.disassemble(self.script))
