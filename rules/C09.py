"""C09 - BIP32: structural obligations (DESIGN.md section 4, C09)."""
from __future__ import annotations

import ast

from sa.core import Ob
from sa.pm import AnalysisError, norm, body_nodes
from sa import gi, df, ru, sym
from sa.pm import Undecided
from sa.gi import IntSet, iv, GuardWalker, SymbolicAtomizer

B32N = "pycoin/key/BIP32Node.py"
B32 = "pycoin/key/bip32.py"
SUBP = "pycoin/key/subpaths.py"
ELEC = "pycoin/key/electrum.py"
U, E = IntSet.all(), IntSet.empty()


def _sat(f):
    from rules.C01 import can_be
    return can_be(f, "\0")


_REF = None


def _ref():
    global _REF
    if _REF is None:
        import os
        _REF = ast.parse(open(os.path.join(os.path.dirname(os.path.dirname(os.path.abspath(__file__))), "spec", "ref_bip32.py")).read())
    return _REF


INTS = lambda t: t in ("i", "vi", "ORDER", "I_left", "new_secret_exponent", "I_left_as_exponent", "low", "high", "t", "n", "for_change", "offset", "depth", "index") or t.startswith(("len(", "int(", "from_bytes_32(", "generator.order()", "self._generator.order()", "self._depth"))


def _refcheck(ctx, rel, dotted, refname, key, ints=None):
    fi = ctx.p.functions.get(ctx.p.module(rel).name + "." + dotted) or ctx.func(rel, dotted)
    return sym.against_reference(ctx, fi, _ref(), refname, key, ints or INTS)


# ------------------------------------------------------------------ C09.1
def c09_1(ctx):
    f = ctx.func(B32N, "BIP32Node._subkey")
    p = f.params()
    i_, hard, priv = p[1], p[2], p[3]
    w = sym.walk(ctx, f, int_names=INTS)
    pub = sym.calls_matching(w, lambda t: t == "subkey_public_pair_chain_code_pair")
    prv = sym.calls_matching(w, lambda t: t == "subkey_secret_exponent_chain_code_pair")
    if not pub or not prv:
        raise Undecided("_subkey: the two CKD functions are not called directly")
    rp = gi.f_or(*[e.reach for e in pub])
    rs_ = gi.f_or(*[e.reach for e in prv])
    hard_atom = ("op", "truthy(%s)" % hard)
    none_atom = ("op", "self.secret_exponent() is None")
    ctx.check(sym.entails(rp, gi.f_not(hard_atom)), "hardened-from-public-refused", ctx.where(f, pub[0].node),
              "BIP32Node._subkey can reach the public derivation with is_hardened set: hardened children of a public-only node must be refused before any derivation", sample={"function": f.qualname})
    ctx.check(sym.entails(rp, none_atom), "public-derivation-only-without-secret", ctx.where(f), "the public derivation is not restricted to nodes without a secret exponent")
    ctx.check(sym.entails(rs_, gi.f_not(none_atom)), "private-derivation-needs-secret", ctx.where(f), "the private derivation is reachable without a secret exponent")
    mm = sym.exits_formula(w, ru.is_raise_of("PublicPrivateMismatchError"))
    ctx.check(mm is not False and sym.entails(mm, gi.f_and(none_atom, hard_atom)) and sym.entails(gi.f_and(none_atom, hard_atom, gi.f_not(sym.exits_formula(w, lambda e: e.kind == "raise" and not ru.is_raise_of("PublicPrivateMismatchError")(e)))), mm),
              "refusal-condition", ctx.where(f), "the refusal is not raised exactly for (public-only node, hardened index)")
    w2 = sym.int_walk(ctx, f, {i_})
    s, n = sym.decisive_set(sym.exits_formula(w2, ru.is_raise), U, E)
    ctx.check(s == iv(0, 0x7FFFFFFF).complement(), "index-range", ctx.where(f), "_subkey rejects indices %s, BIP32 child numbers are 0..2^31-1 (hardening is a separate flag)" % s.fmt(), sample={"subject": i_, "rejected": s.fmt()})
    _refcheck(ctx, B32N, "BIP32Node._subkey", "n_subkey_inner", "derivation")
    _refcheck(ctx, B32N, "BIP32Node.fingerprint", "n_fingerprint", "fingerprint")


# ------------------------------------------------------------------ C09.2
def c09_2(ctx):
    _refcheck(ctx, B32, "subkey_secret_exponent_chain_code_pair", "ckd_priv", "ckd-priv")
    _refcheck(ctx, B32, "subkey_public_pair_chain_code_pair", "ckd_pub", "ckd-pub")
    _refcheck(ctx, B32N, "BIP32Node.from_master_secret", "n_from_master_secret", "master-key")
    # ser256(k): the parent key enters the hardened HMAC message as exactly 32 bytes, whatever its value (a serialisation sized by
    # the value drops the leading zero bytes of 1 key in 256 and derives a different subtree)
    f = ctx.func(B32, "subkey_secret_exponent_chain_code_pair")
    kp = f.params()[1]
    seen = 0
    node = sym.expanded(ctx, f)
    sm = sym.summarize(node, sym.Canon(sym.make_const_of(ctx, f), None, None))
    msgs = []
    for it in sm.items:
        if it.kind == "loop-init" and " starts as " in it.head:
            try:
                msgs.append(ast.parse(it.head.split(" starts as ", 1)[1], mode="eval").body)
            except SyntaxError:
                continue
    for e in sym.calls_matching(sym.walk(ctx, f), lambda t: t in ("hmac.HMAC", "hmac.new", "HMAC", "hmac.digest")):
        m_ = next((k.value for k in e.call.keywords if k.arg == "msg"), e.call.args[1] if len(e.call.args) > 1 else None)
        if m_ is not None:
            msgs.append(m_)
    for msg in msgs:
        pieces = df.flatten_add(msg)
        if not (pieces and isinstance(pieces[0], ast.Constant) and pieces[0].value == b"\x00"):
            continue                        # the hardened message starts with the 0x00 pad byte
        for piece in pieces[1:]:
            if not any(isinstance(x, ast.Name) and x.id == kp for x in ast.walk(piece)):
                continue
            seen += 1
            fn_t = norm(piece.func) if isinstance(piece, ast.Call) else ""
            if fn_t.endswith("to_bytes_32"):
                ctx.ok("ser256-fixed-width", sample={"key_serialisation": norm(piece)[:60]})
            elif fn_t.endswith(".to_bytes"):
                n_ = df.const_int(piece.args[0]) if piece.args else next((df.const_int(k.value) for k in piece.keywords if k.arg == "length"), None)
                ctx.check(n_ == 32, "ser256-fixed-width", ctx.where(f), "CKDpriv (hardened) serialises the parent key as `%s`: BIP32's ser256 is exactly 32 bytes; a width taken from the value drops leading zero bytes and the hardened children of such keys differ from BIP32" % norm(piece)[:100],
                          sample={"key_serialisation": norm(piece)[:60]})
            else:
                ctx.undecided("ser256-fixed-width", ctx.where(f), "the parent key enters the hardened HMAC message as `%s`; this rule reads to_bytes_32 / int.to_bytes only" % norm(piece)[:80])
    if seen == 0:
        ctx.undecided("ser256-fixed-width", ctx.where(f), "no HMAC message containing the serialised parent key found in subkey_secret_exponent_chain_code_pair")


# ------------------------------------------------------------------ C09.3
def c09_3(ctx):
    f = ctx.func(B32N, "BIP32Node.subkey")
    w = sym.walk(ctx, f)
    calls = sym.calls_matching(w, "self._subkey")
    stores = [e for e in w.effects if e.kind == "setitem" and norm(e.target) == "self._subkey_cache"]
    if not calls or not stores:
        raise Undecided("BIP32Node.subkey does not memoise self._subkey(...) in self._subkey_cache")
    for e in stores:
        kelts = [norm(x) for x in e.key.elts] if isinstance(e.key, ast.Tuple) else [norm(e.key)]
        if not (isinstance(e.value, ast.Call) and norm(e.value.func).endswith("._subkey")):
            # an entry made from something else than a fresh derivation (the public copy of a child already in the memo, say)
            ctx.undecided("memo-key-covers-arguments", ctx.where(f, e.node), "BIP32Node.subkey stores `%s` in the memo: not a call of _subkey whose arguments this rule can hold against the key" % norm(e.value)[:70])
            continue
        args = [norm(a) for a in e.value.args] if isinstance(e.value, ast.Call) else []
        ctx.check(kelts == args, "memo-key-covers-arguments", ctx.where(f, e.node),
                  "the sub-key memo is keyed by %s but the memoised value is _subkey(%s): requests that differ in an argument missing from the key share one slot (e.g. the private and the public child)" % (kelts, args),
                  sample={"memo_key": kelts, "computed_from": args})
    _refcheck(ctx, B32N, "BIP32Node.subkey", "n_subkey", "memo")
    # the memo is filled by the memoising method only, for the node it belongs to: entries copied in from another node were derived
    # under THAT node's conditions (a private parent may derive hardened children, its public copy may not)
    for rel, cname in ((B32N, "BIP32Node"), ("pycoin/key/BIP49Node.py", "BIP49Node"), ("pycoin/key/BIP84Node.py", "BIP84Node"), ("pycoin/key/HierarchicalKey.py", "HierarchicalKey")):
        c = ctx.p.cls(rel, cname)
        for name, m in sorted(c.methods.items()):
            for n in ast.walk(m.node):
                recv = None
                if isinstance(n, ast.Call) and isinstance(n.func, ast.Attribute) and n.func.attr in ("update", "setdefault", "__setitem__") and isinstance(n.func.value, ast.Attribute) and n.func.value.attr == "_subkey_cache":
                    recv = n.func.value.value
                elif isinstance(n, ast.Subscript) and isinstance(n.ctx, ast.Store) and isinstance(n.value, ast.Attribute) and n.value.attr == "_subkey_cache":
                    recv = n.value.value
                if recv is None:
                    continue
                ctx.check(name == "subkey" and norm(recv) == "self", "memo-filled-by-subkey-only:%s.%s" % (cname, name), ctx.where(m, n),
                          "%s.%s fills a sub-key memo (`%s`) outside the memoising method / for another node: entries derived under one node's conditions are found by another (a public copy then hands out the hardened child it must refuse to derive)" % (cname, name, norm(n)[:60]),
                          what="memo-fill:%s.%s" % (cname, name))
    # the memo belongs to one node: it is only ever bound to a fresh dict
    for rel, cname in ((B32N, "BIP32Node"), ("pycoin/key/BIP49Node.py", "BIP49Node"), ("pycoin/key/BIP84Node.py", "BIP84Node"), ("pycoin/key/HierarchicalKey.py", "HierarchicalKey")):
        c = ctx.p.cls(rel, cname)
        for name, m in sorted(c.methods.items()):
            for n in body_nodes(m.node):
                if isinstance(n, (ast.Assign, ast.AnnAssign)):
                    for t_ in (n.targets if isinstance(n, ast.Assign) else [n.target]):
                        if isinstance(t_, ast.Attribute) and t_.attr == "_subkey_cache":
                            v = n.value
                            fresh = isinstance(v, ast.Dict) and not v.keys or (isinstance(v, ast.Call) and isinstance(v.func, ast.Name) and v.func.id == "dict" and not v.args and not v.keywords)
                            ctx.check(fresh, "memo-not-shared:%s.%s" % (cname, name), ctx.where(m, n),
                                      "%s.%s binds a node's sub-key memo to `%s`: the memo of one node (its key says nothing about private / public parentage) becomes visible through another node" % (cname, name, norm(v) if v is not None else None),
                                      what="memo-bind:%s.%s:%s" % (cname, name, norm(v) if v is not None else None))
    # every attribute the derivation reads is assigned only at construction
    frozen = {"_secret_exponent", "_public_pair", "_chain_code", "_depth", "_parent_fingerprint", "_child_index", "_generator", "_secret_exponent_bytes", "_is_compressed"}
    for rel, cname in ((B32N, "BIP32Node"), ("pycoin/key/HierarchicalKey.py", "HierarchicalKey"), ("pycoin/key/Key.py", "Key"), ("pycoin/key/BIP49Node.py", "BIP49Node"), ("pycoin/key/BIP84Node.py", "BIP84Node")):
        c = ctx.p.cls(rel, cname)
        for name, m in c.methods.items():
            if name == "__init__":
                continue
            for st in body_nodes(m.node):
                tg = st.targets if isinstance(st, ast.Assign) else ([st.target] if isinstance(st, (ast.AugAssign, ast.AnnAssign)) else [])
                for t_ in tg:
                    if isinstance(t_, ast.Attribute) and norm(t_.value) == "self" and t_.attr in frozen:
                        ctx.bad("node-mutated:%s.%s:%s" % (cname, name, t_.attr), ctx.where(m, st), "%s.%s assigns self.%s after construction: memoised children no longer correspond to the node's key material" % (cname, name, t_.attr))
        ctx.ok("immutable:%s" % cname, nontrivial=False)
    _refcheck(ctx, B32N, "BIP32Node.public_copy", "n_public_copy", "public-copy")
    _refcheck(ctx, B32N, "BIP32Node.subkey_for_path", "n_subkey_for_path", "path-walk")
    _refcheck(ctx, SUBP, "subpaths_for_path_range.range_iterator", "sp_range_iterator", "range-iterator")
    # the hardening marker is decided for each comma-separated item, not once for the whole component
    sr = ctx.func(SUBP, "subpaths_for_path_range")
    inner = ctx.p.functions.get(sr.qualname + ".range_iterator")
    if inner is None:
        raise Undecided("range_iterator not found")
    wi = sym.walk(ctx, inner)
    ys = [e for e in wi.effects if e.kind == "yield" and e.loops]
    if not ys:
        raise Undecided("range_iterator yields nothing inside a loop")
    for e in ys:
        outer = [l for l in e.loops if l.iter is not None and ".split(','" in norm(l.iter)]
        if not outer:
            raise Undecided("range_iterator does not loop over the comma-separated items")
        item = outer[0].target
        texts = [o for o in (gi.f_opaques(e.reach) if e.reach not in (True, False) else []) if "hardening_chars" in o]
        texts += [norm(n) for n in ast.walk(e.value) if isinstance(n, ast.Compare) and "hardening_chars" in norm(n)] if e.value is not None else []
        import re as _re
        ctx.check(bool(texts) and all(_re.search(r"(?<![A-Za-z_0-9])%s(?![A-Za-z_0-9])" % _re.escape(item), t) for t in texts), "range-hardening-per-item", ctx.where(inner, e.node),
                  "range_iterator decides the hardening marker with %s, which does not look at the comma-separated item (`%s`): `7-8p,15` must harden 7 and 8 only" % (texts, item), what="hardening:%s" % texts)
    _refcheck(ctx, SUBP, "subpaths_for_path_range", "sp_subpaths_for_path_range", "range-product")


# ------------------------------------------------------------------ C09.4
def c09_4(ctx):
    _refcheck(ctx, B32N, "BIP32Node.serialize", "n_serialize", "serialize-layout")
    _refcheck(ctx, B32N, "BIP32Node.deserialize", "n_deserialize", "deserialize-fields")
    _refcheck(ctx, B32N, "BIP32Node.__init__", "n_init", "field-widths")
    from rules.C18 import c18_4
    c18_4(ctx)


# ------------------------------------------------------------------ C09.5
def c09_5(ctx):
    from rules.C18 import c18_3
    c18_3(ctx)


# ------------------------------------------------------------------ C09.6
def c09_6(ctx):
    _refcheck(ctx, ELEC, "ElectrumWallet.subkey", "el_subkey", "electrum-derivation")


# ------------------------------------------------------------------ C09.7
def c09_7(ctx):
    n = 0
    for name, m in sorted(ctx.p.modules.items()):
        if not name.startswith("pycoin.symbols."):
            continue
        uses_grs_parser = any(isinstance(x, ast.keyword) and x.arg == "parse_api_class" and "GRS" in norm(x.value) for x in ast.walk(m.tree))
        patches = {}
        for st in m.tree.body:
            if isinstance(st, ast.Assign) and isinstance(st.targets[0], ast.Attribute) and norm(st.targets[0]).startswith("network."):
                patches[norm(st.targets[0])] = norm(st.value)
        if not uses_grs_parser and not patches:
            continue
        n += 1
        ctx.p.consulted.add(name)
        has_prefix = {k.arg for x in ast.walk(m.tree) if isinstance(x, ast.Call) for k in x.keywords if k.arg and k.arg.endswith("_prefix_hex")}
        need = ["network.wif_for_blob", "network.address.b2a"]
        for fam in ("bip32", "bip49", "bip84"):
            if fam + "_prv_prefix_hex" in has_prefix:
                need.append("network.%s_as_string" % fam)
        for tgt in need:
            ok = tgt in patches
            if ok:
                fn = patches[tgt]
                fdef = m.functions.get(fn)
                ok = fn == "b2a_hashed_base58_grs" or (fdef is not None and "b2a_hashed_base58_grs(" in norm(fdef.node))
            ctx.check(ok == uses_grs_parser, "checksum-pairing:%s:%s" % (name.split(".")[-1], tgt), "%s:1" % m.relpath,
                      "%s parses base58 text with the groestl checksum (GRSParseAPI) but %s still writes the double-SHA256 checksum: text produced on this network can never be parsed back there" % (name, tgt)
                      if uses_grs_parser else "%s patches %s to the groestl checksum but parses with the double-SHA256 parser" % (name, tgt), what="pair:%s:%s" % (name, tgt),
                      sample={"network": name, "encoder": tgt, "patched_to": patches.get(tgt)} if n == 1 else None)
        g = m.functions.get("b2a_hashed_base58_grs")
        if g is not None:
            wg = sym.walk(ctx, g)
            rr = [e for e in wg.exits if e.kind == "return" and e.value is not None]
            dp = g.params()[0]
            ctx.check(len(rr) == 1 and norm(rr[0].value) == "b2a_base58(%s + groestlHash(%s)[:4])" % (dp, dp), "grs-checksum:%s" % name, ctx.where(g), "b2a_hashed_base58_grs is not base58(data || groestl(data)[:4])")
    if n < 3:
        raise AnalysisError("only %d networks with a non-default base58 checksum found" % n)
    p = ctx.func("pycoin/coins/groestlcoin/parse.py", "GRSParseAPI.parse_b58_hashed")
    wp = sym.walk(ctx, p)
    ctx.check(bool(sym.calls_matching(wp, lambda t: t == "parse_b58_groestl")), "grs-parser", ctx.where(p), "GRSParseAPI does not verify the groestl checksum")


OBLIGATIONS = [
    Ob("C09.1", "hardened derivation from a public-only node is refused before any derivation; index range; metadata", c09_1, floor=7, engines="SYM,GI", breaks_if="pub.subkey(0, is_hardened=True)"),
    Ob("C09.2", "CKDpriv / CKDpub message shapes, HMAC-SHA512, child = (I_L + k) mod n / I_L*G + K", c09_2, floor=3, engines="SYM"),
    Ob("C09.3", "memo key covers every derivation argument; node key material immutable; path and range expansion", c09_3, floor=9, engines="SYM,EF", breaks_if="subkey(7) then subkey(7, as_private=False); ranges such as 7-8p,15"),
    Ob("C09.4", "78-byte layout: writer widths and reader offsets; hwif uses the matching prefix family", c09_4, floor=8, engines="SYM"),
    Ob("C09.5", "extended-key text of the wrong length or content parses to None (shared with C18.3)", c09_5, floor=15, engines="GI,EX"),
    Ob("C09.6", "Electrum public/private derivations share one offset", c09_6, floor=1, engines="SYM"),
    Ob("C09.7", "per-network base58 checksum: parser override and every encoder patched together", c09_7, floor=15, engines="TB,PM", breaks_if="GRS yprv/zprv text"),
]
