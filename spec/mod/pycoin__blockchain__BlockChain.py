"""Transcription of every function of pycoin/blockchain/BlockChain.py as of the reviewed tree (see DESIGN.md section 12).
NEVER IMPORTED OR EXECUTED: parsed and compared in canonical form (sa/sym.py) with the functions in /repo."""


_CONSTS = {
    'ZERO_HASH': b'\x00\x00\x00\x00\x00\x00\x00\x00\x00\x00\x00\x00\x00\x00\x00\x00\x00\x00\x00\x00\x00\x00\x00\x00\x00\x00\x00\x00\x00\x00\x00\x00',
}


# pycoin/blockchain/BlockChain.py :: _update_q
def q___update_q(q, ops):
    while len(ops) > 0:
        op = ops[0]
        if op[0] != 'remove':
            break
        last = q.pop()
        if op[1:] != last[1:]:
            q.put_nowait(last)
            break
        ops = ops[1:]
    for op in ops:
        q.put_nowait(op)


# pycoin/blockchain/BlockChain.py :: BlockChain.__init__
def q__BlockChain____init__(self, parent_hash=ZERO_HASH, unlocked_block_storage={}, did_lock_to_index_f=None):
    self.parent_hash = parent_hash
    self.hash_to_index_lookup = {}
    self.weight_lookup = {}
    self.chain_finder = ChainFinder()
    self.change_callbacks = weakref.WeakSet()
    self._longest_chain_cache = None
    self.did_lock_to_index_f = did_lock_to_index_f
    self.unlocked_block_storage = unlocked_block_storage
    self._locked_chain = []


# pycoin/blockchain/BlockChain.py :: BlockChain.preload_locked_blocks
def q__BlockChain__preload_locked_blocks(self, headers_iter):
    self._locked_chain = []
    the_hash = self.parent_hash
    for idx, h in enumerate(headers_iter):
        the_hash = h.hash()
        self._locked_chain.append((the_hash, h.previous_block_hash, h.difficulty))
        self.hash_to_index_lookup[the_hash] = idx
    self.parent_hash = the_hash


# pycoin/blockchain/BlockChain.py :: BlockChain.is_hash_known
def q__BlockChain__is_hash_known(self, the_hash):
    return the_hash in self.hash_to_index_lookup


# pycoin/blockchain/BlockChain.py :: BlockChain.length
def q__BlockChain__length(self):
    return len(self._longest_local_block_chain()) + len(self._locked_chain)


# pycoin/blockchain/BlockChain.py :: BlockChain.locked_length
def q__BlockChain__locked_length(self):
    return len(self._locked_chain)


# pycoin/blockchain/BlockChain.py :: BlockChain.unlocked_length
def q__BlockChain__unlocked_length(self):
    return len(self._longest_local_block_chain())


# pycoin/blockchain/BlockChain.py :: BlockChain.tuple_for_index
def q__BlockChain__tuple_for_index(self, index):
    if index < 0:
        index = self.length() + index
    size = len(self._locked_chain)
    if index < size:
        return self._locked_chain[index]
    index -= size
    longest_chain = self._longest_local_block_chain()
    the_hash = longest_chain[-index - 1]
    parent_hash = self.parent_hash if index <= 0 else self._longest_chain_cache[-index]
    weight = self.weight_lookup.get(the_hash)
    return (the_hash, parent_hash, weight)


# pycoin/blockchain/BlockChain.py :: BlockChain.last_block_hash
def q__BlockChain__last_block_hash(self):
    if self.length() == 0:
        return self.parent_hash
    return self.hash_for_index(-1)


# pycoin/blockchain/BlockChain.py :: BlockChain.hash_for_index
def q__BlockChain__hash_for_index(self, index):
    return self.tuple_for_index(index)[0]


# pycoin/blockchain/BlockChain.py :: BlockChain.index_for_hash
def q__BlockChain__index_for_hash(self, the_hash):
    return self.hash_to_index_lookup.get(the_hash)


# pycoin/blockchain/BlockChain.py :: BlockChain.add_change_callback
def q__BlockChain__add_change_callback(self, callback):
    self.change_callbacks.add(callback)


# pycoin/blockchain/BlockChain.py :: BlockChain.lock_to_index
def q__BlockChain__lock_to_index(self, index):
    old_length = len(self._locked_chain)
    index -= old_length
    longest_chain = self._longest_local_block_chain()
    if index < 1:
        return
    excluded = set()
    the_hash = None
    for idx in range(index):
        the_hash = longest_chain[-idx - 1]
        parent_hash = self.parent_hash if idx <= 0 else self._longest_chain_cache[-idx]
        weight = self.weight_lookup.get(the_hash)
        item = (the_hash, parent_hash, weight)
        self._locked_chain.append(item)
        excluded.add(the_hash)
    if self.did_lock_to_index_f:
        self.did_lock_to_index_f(self._locked_chain[old_length:old_length + index], old_length)
    old_chain_finder = self.chain_finder
    self.chain_finder = ChainFinder()
    self._longest_chain_cache = longest_chain[:-index]

    def iterate():
        for tree in old_chain_finder.trees_from_bottom.values():
            for c in tree:
                if c in excluded:
                    break
                excluded.add(c)
                if c in old_chain_finder.parent_lookup:
                    yield (c, old_chain_finder.parent_lookup[c])
    self.chain_finder.load_nodes(iterate())
    self.parent_hash = the_hash


# pycoin/blockchain/BlockChain.py :: BlockChain.lock_to_index.iterate
def q__BlockChain__lock_to_index__iterate():
    for tree in old_chain_finder.trees_from_bottom.values():
        for c in tree:
            if c in excluded:
                break
            excluded.add(c)
            if c in old_chain_finder.parent_lookup:
                yield (c, old_chain_finder.parent_lookup[c])


# pycoin/blockchain/BlockChain.py :: BlockChain._longest_local_block_chain
def q__BlockChain___longest_local_block_chain(self):
    if self._longest_chain_cache is None:
        max_weight = 0
        longest = []
        for chain in self.chain_finder.all_chains_ending_at(self.parent_hash):
            weight = sum((self.weight_lookup.get(h, 0) for h in chain))
            if weight > max_weight:
                longest = chain
                max_weight = weight
        self._longest_chain_cache = longest[:-1]
    return self._longest_chain_cache


# pycoin/blockchain/BlockChain.py :: BlockChain.block_for_hash
def q__BlockChain__block_for_hash(self, h):
    return self.unlocked_block_storage.get(h)


# pycoin/blockchain/BlockChain.py :: BlockChain.add_headers
def q__BlockChain__add_headers(self, header_iter):

    def iterate():
        for header in header_iter:
            h = header.hash()
            if self.is_hash_known(h):
                continue
            self.weight_lookup[h] = header.difficulty
            self.unlocked_block_storage[h] = header
            yield (h, header.previous_block_hash)
    old_longest_chain = self._longest_local_block_chain()
    self.chain_finder.load_nodes(iterate())
    self._longest_chain_cache = None
    new_longest_chain = self._longest_local_block_chain()
    if old_longest_chain and new_longest_chain:
        old_path, new_path = self.chain_finder.find_ancestral_path(old_longest_chain[0], new_longest_chain[0])
        old_path = old_path[:-1]
        new_path = new_path[:-1]
    else:
        old_path = old_longest_chain
        new_path = new_longest_chain
    if old_path:
        logger.debug('old_path is %r-%r', old_path[0], old_path[-1])
    if new_path:
        logger.debug('new_path is %r-%r', new_path[0], new_path[-1])
        logger.debug('block chain now has %d elements', self.length())
    ops = []
    size = len(old_longest_chain) + len(self._locked_chain)
    for idx, h in enumerate(old_path):
        op = ('remove', self.block_for_hash(h), size - idx - 1)
        ops.append(op)
        del self.hash_to_index_lookup[h]
    size = len(new_longest_chain) + len(self._locked_chain)
    for idx, h in reversed(list(enumerate(new_path))):
        op = ('add', self.block_for_hash(h), size - idx - 1)
        ops.append(op)
        self.hash_to_index_lookup[h] = size - idx - 1
    for callback in self.change_callbacks:
        callback(self, ops)
    return ops


# pycoin/blockchain/BlockChain.py :: BlockChain.add_headers.iterate
def q__BlockChain__add_headers__iterate():
    for header in header_iter:
        h = header.hash()
        if self.is_hash_known(h):
            continue
        self.weight_lookup[h] = header.difficulty
        self.unlocked_block_storage[h] = header
        yield (h, header.previous_block_hash)


# pycoin/blockchain/BlockChain.py :: BlockChain.__repr__
def q__BlockChain____repr__(self):
    local_block_chain = self._longest_local_block_chain()
    if local_block_chain:
        finish = b2h_rev(local_block_chain[0])
        start = b2h_rev(local_block_chain[-1])
        longest_chain = 'longest chain %s to %s of size %d' % (start, finish, self.unlocked_length())
    else:
        longest_chain = 'no unlocked elements'
    return '<BlockChain with %d locked elements and %s>' % (self.locked_length(), longest_chain)
