"""Transcription of every function of pycoin/satoshi/checksigops.py as of the reviewed tree (see DESIGN.md section 12).
NEVER IMPORTED OR EXECUTED: parsed and compared in canonical form (sa/sym.py) with the functions in /repo."""


_CONSTS = {
    'SIGHASH_ALL': 1,
    'SIGHASH_ANYONECANPAY': 128,
    'SIGHASH_SINGLE': 3,
    'VERIFY_DERSIG': 4,
    'VERIFY_LOW_S': 8,
    'VERIFY_NULLDUMMY': 16,
    'VERIFY_NULLFAIL': 16384,
    'VERIFY_STRICTENC': 2,
    'VERIFY_WITNESS_PUBKEYTYPE': 32768,
    'errno.NULLFAIL': 31,
    'errno.PUBKEYTYPE': 28,
    'errno.PUBKEY_COUNT': 9,
    'errno.SIG_COUNT': 8,
    'errno.SIG_DER': 23,
    'errno.SIG_HASHTYPE': 22,
    'errno.SIG_HIGH_S': 26,
    'errno.SIG_NULLDUMMY': 27,
    'errno.VERIFY': 10,
    'errno.WITNESS_PUBKEYTYPE': 40,
}


# pycoin/satoshi/checksigops.py :: _check_valid_signature_1
def q___check_valid_signature_1(sig):
    ls = len(sig)
    if ls < 9 or ls > 73:
        raise ScriptError()
    if sig[0] != 48:
        raise ScriptError()
    if sig[1] != ls - 3:
        raise ScriptError()
    r_len = sig[3]
    if 5 + r_len >= ls:
        raise ScriptError()


# pycoin/satoshi/checksigops.py :: _check_valid_signature_2
def q___check_valid_signature_2(sig):
    ls = len(sig)
    r_len = sig[3]
    s_len = sig[5 + r_len]
    if r_len + s_len + 7 != ls:
        raise ScriptError()
    if sig[2] != 2:
        raise ScriptError()
    if r_len == 0:
        raise ScriptError()
    if sig[4] & 128:
        raise ScriptError()
    if r_len > 1 and sig[4] == 0 and (not sig[5] & 128):
        raise ScriptError()
    if sig[r_len + 4] != 2:
        raise ScriptError()
    if s_len == 0:
        raise ScriptError()
    if sig[r_len + 6] & 128:
        raise ScriptError()
    if s_len > 1 and sig[r_len + 6] == 0 and (not sig[r_len + 7] & 128):
        raise ScriptError()


# pycoin/satoshi/checksigops.py :: check_valid_signature
def q__check_valid_signature(sig):
    sig_list = [s for s in sig]
    _check_valid_signature_1(sig_list)
    _check_valid_signature_2(sig_list)


# pycoin/satoshi/checksigops.py :: check_low_der_signature
def q__check_low_der_signature(sig_pair, generator):
    r, s = sig_pair
    hi_s = generator.order() - s
    if hi_s < s:
        raise ScriptError()


# pycoin/satoshi/checksigops.py :: check_defined_hashtype_signature
def q__check_defined_hashtype_signature(sig):
    if len(sig) == 0:
        raise ScriptError()
    hash_type = sig[-1] & ~SIGHASH_ANYONECANPAY
    if hash_type < SIGHASH_ALL or hash_type > SIGHASH_SINGLE:
        raise ScriptError()


# pycoin/satoshi/checksigops.py :: parse_signature_blob
def q__parse_signature_blob(sig_blob):
    if len(sig_blob) == 0:
        raise ValueError()
    sig_pair = der.sigdecode_der(sig_blob[:-1], use_broken_open_ssl_mechanism=True)
    signature_type = ord(sig_blob[-1:])
    return (sig_pair, signature_type)


# pycoin/satoshi/checksigops.py :: parse_and_check_signature_blob
def q__parse_and_check_signature_blob(sig_blob, flags, vm):
    if len(sig_blob) == 0:
        raise ValueError()
    if flags & (VERIFY_DERSIG | VERIFY_LOW_S | VERIFY_STRICTENC):
        check_valid_signature(sig_blob)
    if flags & VERIFY_STRICTENC:
        check_defined_hashtype_signature(sig_blob)
    sig_pair, signature_type = parse_signature_blob(sig_blob)
    if flags & VERIFY_LOW_S:
        generator = vm.generator_for_signature_type(signature_type)
        check_low_der_signature(sig_pair, generator)
    return (sig_pair, signature_type)


# pycoin/satoshi/checksigops.py :: check_public_key_encoding
def q__check_public_key_encoding(blob):
    lb = len(blob)
    if lb >= 33:
        fb = blob[0]
        if fb == 4:
            if lb == 65:
                return
        elif fb in (2, 3):
            if lb == 33:
                return
    raise ScriptError()


# pycoin/satoshi/checksigops.py :: check_public_key_flags
def q__check_public_key_flags(pair_blob, verify_witness_pubkeytype, verify_strict):
    if verify_strict:
        check_public_key_encoding(pair_blob)
    if verify_witness_pubkeytype:
        if pair_blob[:1] not in (b'\x02', b'\x03') or len(pair_blob) != 33:
            raise ScriptError()


# pycoin/satoshi/checksigops.py :: checksig
def q__checksig(vm, sig_pair, signature_type, pair_blob, blobs_to_delete, sighash_cache, verify_witness_pubkeytype, verify_strict):
    generator = vm.generator_for_signature_type(signature_type)
    check_public_key_flags(pair_blob, verify_witness_pubkeytype, verify_strict)
    try:
        public_pair = sec_to_public_pair(pair_blob, generator, strict=verify_strict)
    except (ValueError, EncodingError):
        return False
    if signature_type not in sighash_cache:
        sighash_cache[signature_type] = vm.signature_for_hash_type_f(signature_type, blobs_to_delete, vm)
    try:
        if generator.verify(public_pair, sighash_cache[signature_type], sig_pair):
            return True
    except ValueError:
        pass
    return False


# pycoin/satoshi/checksigops.py :: checksigs
def q__checksigs(vm, sig_blobs, public_pair_blobs):
    sig_blobs_remaining = list(sig_blobs)
    flags = vm.flags
    sighash_cache = {}
    verify_witness_pubkeytype = flags & VERIFY_WITNESS_PUBKEYTYPE
    verify_strict = not not flags & VERIFY_STRICTENC
    any_nonblank = flags & VERIFY_NULLFAIL and any((len(s) > 0 for s in sig_blobs))
    while len(sig_blobs_remaining) > 0:
        sig_blob = sig_blobs_remaining.pop()
        try:
            sig_pair, signature_type = parse_and_check_signature_blob(sig_blob, flags, vm)
        except (der.UnexpectedDER, ValueError):
            sig_pair = None
        while len(sig_blobs_remaining) < len(public_pair_blobs):
            pair_blob = public_pair_blobs.pop()
            if sig_pair is None:
                check_public_key_flags(pair_blob, verify_witness_pubkeytype, verify_strict)
                continue
            if checksig(vm, sig_pair, signature_type, pair_blob, sig_blobs, sighash_cache, verify_witness_pubkeytype, verify_strict):
                break
        else:
            if any_nonblank:
                raise ScriptError()
            vm.append(vm.VM_FALSE)
            return
    vm.append(vm.VM_TRUE)


# pycoin/satoshi/checksigops.py :: do_OP_CHECKSIG
def q__do_OP_CHECKSIG(vm):
    pair_blob = vm.pop()
    sig_blob = vm.pop()
    checksigs(vm, [sig_blob], [pair_blob])


# pycoin/satoshi/checksigops.py :: do_OP_CHECKMULTISIG
def q__do_OP_CHECKMULTISIG(vm):
    key_count = pop_check_bounds(vm)
    if key_count < 0 or key_count > 20:
        raise ScriptError()
    public_pair_blobs = [vm.pop() for _ in range(key_count)]
    public_pair_blobs.reverse()
    signature_count = pop_check_bounds(vm)
    if signature_count < 0 or signature_count > key_count:
        raise ScriptError()
    sig_blobs = [vm.pop() for _ in range(signature_count)]
    sig_blobs.reverse()
    hack_byte = vm.pop()
    if vm.flags & VERIFY_NULLDUMMY and hack_byte != b'':
        raise ScriptError()
    checksigs(vm, sig_blobs, public_pair_blobs)
    vm.op_count += key_count


# pycoin/satoshi/checksigops.py :: do_OP_CHECKMULTISIGVERIFY
def q__do_OP_CHECKMULTISIGVERIFY(vm):
    do_OP_CHECKMULTISIG(vm)
    v = vm.bool_from_script_bytes(vm.pop())
    if not v:
        raise ScriptError()


# pycoin/satoshi/checksigops.py :: do_OP_CHECKSIGVERIFY
def q__do_OP_CHECKSIGVERIFY(vm):
    do_OP_CHECKSIG(vm)
    v = vm.bool_from_script_bytes(vm.pop())
    if not v:
        raise ScriptError()
