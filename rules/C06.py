"""C06 - tamper evidence: structural obligations (DESIGN.md section 4, C06)."""
from __future__ import annotations

import ast

from sa.core import Ob
from sa.pm import AnalysisError, norm, body_nodes
from sa import gi, df, ru, sym
from sa.pm import Undecided
from sa.gi import IntSet, iv, GuardWalker, SymbolicAtomizer, reach_sets
from sa.ef import writes_in, Fresh

CTX = "pycoin/coins/Tx.py"
BTX = "pycoin/coins/bitcoin/Tx.py"
BSC = "pycoin/coins/bitcoin/SolutionChecker.py"
SEG = "pycoin/coins/bitcoin/SegwitChecker.py"
P2S = "pycoin/coins/bitcoin/P2SChecker.py"
CHECKSIG = "pycoin/satoshi/checksigops.py"
U, E = IntSet.all(), IntSet.empty()

VALIDATION_TREE = [
    (CTX, "Tx.is_solution_ok"), (CTX, "Tx.check_solution"), (CTX, "Tx.bad_solution_count"), (BTX, "Tx.bad_solution_count"), (BTX, "Tx.missing_unspent"),
    (BTX, "Tx.is_coinbase"), (BSC, "BitcoinSolutionChecker.check_solution"), (BSC, "BitcoinSolutionChecker.puzzle_and_solution_iterator"),
    (BSC, "BitcoinSolutionChecker._solution_script_to_stack"), (BSC, "BitcoinSolutionChecker._check_script_push_only"), (BSC, "BitcoinSolutionChecker.tx_context_for_idx"),
    (BSC, "BitcoinSolutionChecker._make_sighash_f"), (BSC, "BitcoinSolutionChecker._signature_hash"), (BSC, "BitcoinSolutionChecker._tx_in_for_idx"),
    (BSC, "BitcoinSolutionChecker._delete_signature"), (BSC, "BitcoinSolutionChecker.delete_subscript"),
    (P2S, "P2SChecker.p2s_program_tuple"), (P2S, "P2SChecker.is_pay_to_script_hash"), (P2S, "P2SChecker.script_hash_from_script"),
    (SEG, "SegwitChecker.witness_program_tuple"), (SEG, "SegwitChecker._check_witness_program_v0"), (SEG, "SegwitChecker._witness_program_version"),
    (SEG, "SegwitChecker._make_witness_sighash_f"), (SEG, "SegwitChecker._puzzle_script_for_len20_segwit"), (SEG, "SegwitChecker._hash_prevouts"),
    (SEG, "SegwitChecker._hash_sequence"), (SEG, "SegwitChecker._hash_outputs"), (SEG, "SegwitChecker._segwit_signature_preimage"),
    (SEG, "SegwitChecker._signature_for_hash_type_segwit"),
    (CHECKSIG, "checksigs"), (CHECKSIG, "checksig"), (CHECKSIG, "parse_and_check_signature_blob"), (CHECKSIG, "parse_signature_blob"),
    (CHECKSIG, "do_OP_CHECKSIG"), (CHECKSIG, "do_OP_CHECKMULTISIG"),
]
for _coin, _cls in (("bcash", "BcashSolutionChecker"), ("bgold", "BgoldSolutionChecker")):
    VALIDATION_TREE.append(("pycoin/coins/%s/SolutionChecker.py" % _coin, _cls + "._signature_hash"))
VALIDATION_TREE.append(("pycoin/coins/bgold/SolutionChecker.py", "BgoldSolutionChecker._signature_for_hash_type_segwit"))
for _m in ("_hash_prevouts", "_hash_sequence", "_hash_outputs", "_signature_for_hash_type_segwit"):
    VALIDATION_TREE.append(("pycoin/coins/groestlcoin/SolutionChecker.py", "GroestlcoinSolutionChecker." + _m))

# VM state lives in a VM object created per stage: writes to these receivers are per-call state
VM_RECEIVERS = ("vm.", "vm[", "stack.", "stack[")



TXID_CALLS = ("hash", "id", "w_hash", "w_id")


def txid_keyed(ctx, g):
    """a table kept between calls by a validation function and looked up under the transaction's ID (and nothing else of its
    state): -> the key text, or None.  The id covers neither the unspents (the coins being spent, their scripts and values) nor --
    for hash() / id() -- the witnesses, and those are exactly what C06 says a verdict must follow"""
    node = getattr(g, "original", g).node           # as written: the call of hash() / id() by name, not its inlined body
    defs = df.single_defs(node)
    keys = []
    for n in ast.walk(node):
        if isinstance(n, ast.Call) and isinstance(n.func, ast.Attribute) and n.func.attr in ("setdefault", "get", "pop") and n.args and "__dict__" not in norm(n.func.value).split(".")[-1:]:
            keys.append(n.args[0])
        elif isinstance(n, ast.Subscript) and not isinstance(n.slice, ast.Slice):
            keys.append(n.slice)
        elif isinstance(n, ast.Compare) and len(n.ops) == 1 and isinstance(n.ops[0], (ast.In, ast.NotIn)):
            keys.append(n.left)
    for k in keys:
        k = df.expand(k, defs)
        ids = [c for c in ast.walk(k) if isinstance(c, ast.Call) and isinstance(c.func, ast.Attribute) and c.func.attr in TXID_CALLS and not c.args and norm(c.func.value) in ("self", "self.tx", "tx")]
        if not ids:
            continue
        other = [a for a in ast.walk(k) if isinstance(a, ast.Attribute) and norm(a).split(".")[0] in ("self", "tx") and not any(a is c.func or a is c.func.value for c in ids)
                 and not (isinstance(a.value, ast.Name) and norm(a) == "self.tx")]
        if not other:
            return norm(k)
    return None


def memo_policy(ctx, g, wr, key):
    """a write that keeps something the reviewed tree did not keep -- an attribute no reviewed function of the module writes, a
    module-level table added since the review -- is a memo: judged by whether it can go stale (sym.stale_memo), not by its
    existence.  True when the write was disposed of here (reported as undecided); False when it is for the caller to judge."""
    import re as _re
    recv = wr.text
    m_ = _re.match(r"^((?:self|cls|class_)(?:\.\w+)+)", recv)
    if m_ is not None:
        from sa import modref as _modref
        tree_ = _modref._tree(g.module.name)
        known = sym._attrs_written_in(tree_) if tree_ is not None else None
        if known is not None and m_.group(1).split(".")[-1] not in known:
            try:
                sm_ = sym.summarize(sym.expanded(ctx, g), sym.Canon(sym.make_const_of(ctx, g), None, None))
                stale = sym.stale_memo(sm_, {m_.group(1)})
            except Exception:
                stale = None
            tk_ = txid_keyed(ctx, g) if not stale else None
            if tk_ is not None:
                ctx.bad(key, ctx.where(g, wr.node), "%s keeps `%s` between calls and looks it up under `%s`: of the transaction's state the key holds its ID only, which covers neither the unspents nor, for hash() / id(), the witnesses"
                        % (g.qualname.split(".", 3)[-1], m_.group(1), tk_[:70]), sample={"function": g.qualname, "key": tk_[:70]})
                return True
            if not stale:
                ctx.undecided(key, ctx.where(g, wr.node), "%s keeps `%s` between calls (added since the review); it is handed out again only under a test that reads the object's state, or this rule cannot read when: no verdict on whether it can go stale"
                              % (g.qualname.split(".", 3)[-1], m_.group(1)))
                return True
    if "__dict__.setdefault" in (wr.why or "") or "__dict__.get" in (wr.why or ""):
        # an attribute created on demand through the instance dictionary: by construction one the reviewed class does not have;
        # the table is known by a local name here, and the stale-memo criteria are asked about that name
        ml_ = _re.match(r"^([A-Za-z_]\w*)[\[.]", recv)
        if ml_ is not None:
            try:
                sm_ = sym.summarize(sym.expanded(ctx, g), sym.Canon(sym.make_const_of(ctx, g), None, None), keep={ml_.group(1)})
                import re as _r2
                locs_ = {ml_.group(1)} | {m_.group(0) for it_ in sm_.items for m_ in [_r2.match(r"^(_v\d+)(?=\[)", it_.head)] if m_ and it_.kind == "effect"}
                if sym.stale_memo(sm_, locs_):
                    return False
            except Exception:
                pass
        tk_ = txid_keyed(ctx, g)
        if tk_ is not None:
            ctx.bad(key, ctx.where(g, wr.node), "%s keeps a table between calls that it looks up under `%s`: of the transaction's state the key holds its ID only, which covers neither the unspents "
                    "(the coins being spent: their scripts and values) nor, for hash() / id(), the witnesses -- what was remembered for the transaction as it was is served after those changed" % (g.qualname.split(".", 3)[-1], tk_[:70]),
                    sample={"function": g.qualname, "key": tk_[:70]})
            return True
        ctx.undecided(key, ctx.where(g, wr.node), "%s keeps a table it creates on demand in the instance dictionary (%s), added since the review: a memo; whether it can go stale is not read here" % (g.qualname.split(".", 3)[-1], (wr.why or "")[:60]))
        return True
    m2_ = _re.match(r"^([A-Za-z_]\w*)[\[.]", recv)
    if m2_ is not None and "free variable" in (wr.why or ""):
        from sa import shared_state as _ss
        objs_, _w, _wr = _ss.reviewed()
        if m2_.group(1) in g.module.assigns and (g.module.name, m2_.group(1)) not in objs_:
            ctx.undecided(key, ctx.where(g, wr.node), "%s fills the module-level table `%s`, added since the review: a memo, not state of the transaction or the checker; no verdict here on whether it can go stale"
                          % (g.qualname.split(".", 3)[-1], m2_.group(1)))
            return True
    return False


def stateless(ctx, tree, key_prefix):
    for rel, name in tree:
        f = ctx.func(rel, name)
        # nested closures too
        funcs = [f] + [g for q, g in ctx.p.functions.items() if q.startswith(f.qualname + ".") and g.parent is not None and not isinstance(g.node, ast.Lambda)]
        for g in funcs:
            for wr in writes_in(g):
                if wr.fresh:
                    continue
                recv = wr.text
                if g.module.relpath == CHECKSIG and (recv.startswith("vm.append(") or recv.startswith("vm.pop(") or recv.startswith("vm.op_count")):
                    continue   # the VM (created for this evaluation) is the handler's working state
                if recv.startswith("sighash_cache[") and g.name == "checksig":
                    continue   # call-local cache passed in by checksigs (checked by the cache-scope rule)
                if g.name == "checksigs" and recv.startswith("public_pair_blobs.") and _callers_pass_fresh(ctx, g, "public_pair_blobs"):
                    continue   # every caller hands over a list it has just built
                if memo_policy(ctx, g, wr, "%s:%s:%s" % (key_prefix, g.name, recv)):
                    continue
                ctx.bad("%s:%s:%s" % (key_prefix, g.name, recv), ctx.where(g, wr.node),
                        "%s writes `%s` (receiver: %s): validation keeps state on the transaction or on the checker, so a later validation of the same "
                        "object can differ from the verdict of a fresh object" % (g.qualname.split(".", 3)[-1], recv, wr.why),
                        sample={"function": g.qualname, "write": recv, "receiver": wr.why})
            ctx.ok("scanned:" + g.qualname, nontrivial=False)


def _callers_pass_fresh(ctx, g, pname):
    i = g.params().index(pname)
    ok = True
    n = 0
    for h in g.module.functions.values():
        for c in df.calls_in(h.node):
            if isinstance(c.func, ast.Name) and c.func.id == g.name and len(c.args) > i:
                n += 1
                ok = ok and Fresh(h).prov(c.args[i], c)[0]
    return ok and n > 0


# ------------------------------------------------------------------ C06.1
def c06_1(ctx):
    stateless(ctx, VALIDATION_TREE, "validation-write")
    # the checker object is created per check_solution call
    f = ctx.func(CTX, "Tx.check_solution")
    fr = Fresh(f)
    calls = [c for c in df.calls_in(f.node) if df.last_attr(c) == "check_solution"]
    if len(calls) != 1 or not isinstance(calls[0].func, ast.Attribute):
        raise Undecided("Tx.check_solution: delegating call not found")
    pv = fr.prov(calls[0].func.value, calls[0])
    ctx.check(pv[0], "checker-per-call", ctx.where(f, calls[0]),
              "Tx.check_solution validates through `%s`, which is not created inside the call (%s): cached state of an earlier validation can leak into this one"
              % (norm(calls[0].func.value), pv[2]), sample={"checker": norm(calls[0].func.value), "provenance": pv[2]})
    init = ctx.func(BSC, "BitcoinSolutionChecker.__init__")
    ws = [w.text for w in writes_in(init)]
    ctx.check(ws == ["self.tx = ..."], "checker-state", ctx.where(init), "BitcoinSolutionChecker.__init__ stores %s; the checker must hold only the transaction reference" % ws)
    # every stage gets its own copy of the stack it starts from
    c = ctx.func(BSC, "BitcoinSolutionChecker.check_solution")
    w = sym.walk(ctx, c)
    vms = [e for e in w.effects if e.kind == "call" and any(k.arg == "initial_stack" for k in e.call.keywords)]
    if not vms:
        raise Undecided("check_solution: no VM construction with initial_stack= found")
    for e in vms:
        v = [k.value for k in e.raw.keywords if k.arg == "initial_stack"][0]
        copy_ = (isinstance(v, ast.Subscript) and isinstance(v.slice, ast.Slice) and v.slice.lower is None and v.slice.upper is None) or (isinstance(v, ast.Call) and isinstance(v.func, ast.Name) and v.func.id == "list") \
            or Fresh(c).prov(v, e.raw)[0]
        ctx.check(copy_, "stage-stack-copy", ctx.where(c, e.node), "a validation stage starts its VM on `%s`, which is not a copy: stages share the solution stack object" % norm(v))
    wp = ctx.func(SEG, "SegwitChecker._check_witness_program_v0")
    ww = sym.walk(ctx, wp)
    sp = wp.params()[1]
    rets = [e for e in ww.exits if e.kind == "return" and e.value is not None]
    if not rets or not all(isinstance(e.value, ast.Tuple) and len(e.value.elts) == 2 for e in rets):
        raise Undecided("_check_witness_program_v0 does not return (stack, script) pairs")

    def _fresh_list(v):
        """a new list object: list(...), a display, a comprehension, or a sum of such"""
        if isinstance(v, (ast.List, ast.ListComp)):
            return True
        if isinstance(v, ast.Call) and isinstance(v.func, ast.Name) and v.func.id == "list":
            return True
        if isinstance(v, ast.BinOp) and isinstance(v.op, ast.Add):
            return _fresh_list(v.left) or _fresh_list(v.right)
        if isinstance(v, ast.Subscript) and isinstance(v.slice, ast.Slice):
            return _fresh_list(v.value)         # a slice of a new list
        return False
    for e in rets:
        v = e.value.elts[0]
        ctx.check(_fresh_list(v) and any(isinstance(n, ast.Name) and n.id == sp for n in ast.walk(v)), "witness-stack-copy", ctx.where(wp, e.node),
                  "the witness stack handed to the VM is `%s`, not a fresh list built from the transaction's witness: the VM would consume the witness itself" % norm(v))


# ------------------------------------------------------------------ C06.2
def cache_scope(ctx):
    f = ctx.func(CHECKSIG, "checksigs")
    fr = Fresh(f)
    calls = [c for c in df.calls_in(f.node) if isinstance(c.func, ast.Name) and c.func.id == "checksig"]
    if len(calls) != 1:
        raise Undecided("checksigs: expected one call of checksig")
    g = ctx.func(CHECKSIG, "checksig")
    gp = g.params()
    bind = dict(zip(gp, calls[0].args))
    for k in calls[0].keywords:
        bind[k.arg] = k.value
    cache_arg = bind.get("sighash_cache")
    if cache_arg is None:
        ctx.bad("sighash-cache-param", ctx.where(g), "checksig no longer receives a call-local sighash cache")
        return
    pv = fr.prov(cache_arg, calls[0])
    ctx.check(pv[0], "sighash-cache-per-call", ctx.where(f, calls[0]),
              "checksigs passes `%s` as sighash cache, which is not a container created by this call (%s): digests computed for one CHECKSIG are reused for a later "
              "one whose script code differs (FindAndDelete removes different signatures)" % (norm(cache_arg), pv[2]), sample={"cache": norm(cache_arg), "provenance": pv[2]})
    # inside checksig: the cached value's inputs beyond the key are parameters that are never reassigned
    subs = [n for n in body_nodes(g.node) if isinstance(n, ast.Subscript) and norm(n.value) == "sighash_cache"]
    keys = {norm(df.expand(n.slice, df.single_defs(g.node))) for n in subs}
    ctx.check(keys == {"signature_type"}, "sighash-cache-key", ctx.where(g), "the sighash cache is keyed by %s; with a per-call cache the key is the hash type" % sorted(keys), sample={"key": sorted(keys)})
    comp = [c for c in df.calls_in(g.node) if df.last_attr(c) == "signature_for_hash_type_f"]
    ok = len(comp) == 1 and [norm(a) for a in comp[0].args] == ["signature_type", "blobs_to_delete", "vm"]
    ctx.check(ok, "sighash-inputs", ctx.where(g), "the cached digest is not signature_for_hash_type_f(signature_type, blobs_to_delete, vm)")
    asg = df.assignments(g.node)
    ctx.check(not ({"blobs_to_delete", "vm", "signature_type"} & set(asg)), "sighash-inputs-stable", ctx.where(g), "checksig reassigns an input of the cached digest")
    # in checksigs the blobs handed to every checksig call are the full, unmodified signature list
    ctx.check(norm(bind.get("blobs_to_delete")) == "sig_blobs", "blobs-to-delete", ctx.where(f, calls[0]), "checksig does not receive the full signature list for FindAndDelete")
    muts = [w for w in writes_in(f) if w.text.startswith("sig_blobs.") or w.text.startswith("sig_blobs[")]
    ctx.check(not muts and "sig_blobs" not in df.assignments(f.node), "blobs-unmodified", ctx.where(f), "checksigs modifies sig_blobs while a digest computed from it is cached")
    # what the loop consumes is a container of its own: no local that is mutated may be (an alias of) a parameter
    params = set(f.params())
    stale = []
    for w in writes_in(f):
        recv = w.node.func.value if isinstance(w.node, ast.Call) and isinstance(w.node.func, ast.Attribute) else None
        if isinstance(recv, ast.Name) and recv.id not in params and not w.fresh:
            stale.append("%s (%s)" % (w.text, w.why))
    ctx.check(not stale, "blobs-work-copy", ctx.where(f), "checksigs consumes a list that is not its own copy: %s" % "; ".join(stale))


# ------------------------------------------------------------------ C06.3
def _ref():
    from rules import C04
    return C04._ref()


def c06_3(ctx):
    f = ctx.func(CTX, "Tx.is_solution_ok")
    idx = f.params()[1]
    w = sym.int_walk(ctx, f, {"len(self.unspents)"}, {idx})
    true_ret = lambda e: e.kind == "return" and not (isinstance(e.value, ast.Constant) and e.value.value is False)
    fr = sym.exits_formula(w, true_ret)
    s = sym.may_set(fr, U, E) if fr is not False else E
    want = iv(("s", 1), None)
    none_atom = ("op", "self.unspents[%s] is None" % idx)
    own_guard = s.issubset(want) and fr is not False and sym.entails(fr, gi.f_not(none_atom)) and none_atom[1] in gi.f_opaques(fr)
    if not own_guard and not any(("self.unspents" in o) for o in (gi.f_opaques(fr) if fr not in (True, False) else []) if isinstance(o, str)) and s == U:
        # no test of its own on the recorded outputs at all: the verdict then rests on check_solution refusing an unknown spent
        # output with ScriptError (decided below, together with `only ScriptError is converted` and `True only after the call`)
        ctx.note("is_solution_ok has no guard of its own on self.unspents: it relies on Tx.check_solution's")
        relies_on_callee = True
    else:
        relies_on_callee = False
        ctx.check(s.issubset(want), "missing-unspent-length", ctx.where(f),
                  "Tx.is_solution_ok can report an input valid when len(self.unspents) is in %s relative to the input index; it must be False unless len(unspents) > index" % s.fmt(idx),
                  sample={"subject": "len(self.unspents)", "may_return_true": s.fmt(idx)})
        ctx.check(fr is not False and sym.entails(fr, gi.f_not(none_atom)) and none_atom[1] in gi.f_opaques(fr), "missing-unspent-none", ctx.where(f), "Tx.is_solution_ok can return a positive verdict although unspents[index] is None")
    # only ScriptError is converted to False; True is returned only after check_solution returned
    cs = sym.calls_matching(w, "self.check_solution")
    if not cs:
        raise Undecided("Tx.is_solution_ok does not call self.check_solution")
    names = set()
    for e in cs:
        for t in sym.enclosing_tries(f.node, e.node):
            names |= sym.handler_names(t)
    ctx.check(names == {"ScriptError"}, "only-script-error", ctx.where(f), "Tx.is_solution_ok converts %s to a verdict; only ScriptError means `invalid`" % sorted(names))
    r_call = gi.f_or(*[e.reach for e in cs])
    tr = sym.exits_formula(w, lambda e: e.kind == "return" and isinstance(e.value, ast.Constant) and e.value.value is True)
    ctx.check(tr is not False and sym.entails(tr, r_call) and not any("exc@" in o for o in (gi.f_opaques(tr) if tr not in (True, False) else [])), "true-after-check", ctx.where(f),
              "Tx.is_solution_ok does not return True exactly after a check_solution call that did not raise")
    if not relies_on_callee:
        sym.against_reference(ctx, f, _ref(), "btx_is_solution_ok", "verdict-form", lambda t: t.startswith("len("))
    # the same guard in check_solution itself (callers use it directly): no checker runs for an unknown spent output
    cs_f = ctx.func(CTX, "Tx.check_solution")
    cidx = cs_f.params()[1]
    wc = sym.int_walk(ctx, cs_f, {"len(self.unspents)"}, {cidx})
    runs = [e for e in wc.effects if e.kind == "call" and norm(e.call.func).endswith(".check_solution")]
    if not runs:
        raise Undecided("Tx.check_solution does not delegate to a checker's check_solution")
    r_run = gi.f_or(*[e.reach for e in runs])
    s_run = sym.may_set(r_run, U, E)
    ctx.check(s_run.issubset(iv(("s", 1), None)), "check-solution-needs-unspent-length", ctx.where(cs_f),
              "Tx.check_solution runs the checker when len(self.unspents) is in %s relative to the input index; without a recorded spent output the puzzle script is empty and any signed input validates" % s_run.fmt(cidx),
              sample={"subject": "len(self.unspents)", "checker_runs_for": s_run.fmt(cidx)})
    cnone = ("op", "self.unspents[%s] is None" % cidx)
    ctx.check(sym.entails(r_run, gi.f_not(cnone)) and cnone[1] in gi.f_opaques(r_run), "check-solution-needs-unspent", ctx.where(cs_f), "Tx.check_solution runs the checker although unspents[index] is None")
    g = ctx.func(BTX, "Tx.missing_unspent")
    w3 = sym.int_walk(ctx, g, {"len(self.unspents)"}, {g.params()[1]})
    ft = sym.exits_formula(w3, lambda e: e.kind == "return" and isinstance(e.value, ast.Constant) and e.value.value is True)
    s = sym.must_set(ft, U, E, assume={"truthy(self.is_coinbase())": False}) if ft is not False else E
    ctx.check(iv(None, ("s", 0)).issubset(s), "missing-unspent-predicate", ctx.where(g), "Tx.missing_unspent is not True for every len(unspents) <= index (got %s)" % s.fmt("idx"))
    sym.against_reference(ctx, g, _ref(), "tx_missing_unspent", "missing-unspent-form", lambda t: t.startswith("len("))
    # the coinbase exemption applies to transactions with exactly one, null, input (shared with C20.3)
    k = ctx.func(BTX, "Tx.is_coinbase")
    wk = sym.int_walk(ctx, k, {"len(self.txs_in)"})
    form = sym.truth_formula(wk)
    sk = sym.may_set(form, U, E)
    ctx.check(sk == iv(1, 1), "coinbase-single-input", ctx.where(k), "Tx.is_coinbase is true for transactions with %s inputs; the exemption from input validation is for exactly one (null) input" % sk.fmt())


# ------------------------------------------------------------------ C06.4
def c06_4(ctx):
    f = ctx.func(BSC, "BitcoinSolutionChecker.tx_context_for_idx")
    sym.against_reference(ctx, f, _ref(), "bsc_tx_context_for_idx", "context", lambda t: False)
    w = sym.walk(ctx, f)
    got = {e.attr: norm(e.value) for e in w.effects if e.kind == "setattr"}
    idx = f.params()[1]
    txin = "self.tx.txs_in[%s]" % idx
    want = {"lock_time": "self.tx.lock_time", "version": "self.tx.version", "solution_script": txin + ".script", "witness_solution_stack": txin + ".witness", "sequence": txin + ".sequence", "tx_in_idx": idx}
    # the same fields handed to the context's constructor as keywords (TxContext(lock_time=self.tx.lock_time, ..))
    for e in list(w.exits) + list(w.effects):
        for part in ([e.value] if getattr(e, "kind", "") == "return" and getattr(e, "value", None) is not None else [getattr(e, "call", None)]):
            if isinstance(part, ast.AST):
                for c in ast.walk(w.sub(part) if hasattr(w, "sub") else part):
                    if isinstance(c, ast.Call) and c.keywords and norm(c.func).split(".")[-1][:1].isupper():
                        for kw in c.keywords:
                            if kw.arg is not None:
                                got.setdefault(kw.arg, norm(kw.value))
    for k_, v in want.items():
        if got.get(k_) is None:
            ctx.undecided("context:%s" % k_, ctx.where(f), "tx_context.%s: no store or constructor keyword of that name found in a form this rule reads" % k_)
            continue
        ctx.check(got.get(k_) == v, "context:%s" % k_, ctx.where(f), "tx_context.%s is built from `%s`, expected the current value `%s`" % (k_, got.get(k_), v), sample={"field": k_, "source": got.get(k_)})


from rules import C04 as _C04
from sa.refguard import guarded as _guarded


def _c06_resolver(ctx, fi):
    names = {"pycoin.satoshi.checksigops.checksigs": "cs_checksigs", "pycoin.satoshi.checksigops.checksig": "cs_checksig"}
    if fi.qualname in names:
        return _C04._ref(), names[fi.qualname], _C04.INTS
    return None


OBLIGATIONS = [
    Ob("C06.1", "validation call tree is stateless on the transaction and on the checker", c06_1, floor=40, engines="EF", breaks_if="validate, mutate an output, re-validate the same object"),
    Ob("C06.2", "sighash cache is call-local, keyed by hash type, with loop-invariant co-inputs", _guarded(cache_scope, _c06_resolver), floor=7, engines="EF,DF,SYM", breaks_if="two CHECKSIGs with one hash type where the second signature appears in the script"),
    Ob("C06.3", "an input whose spent output is unknown is never reported valid; only ScriptError means invalid", c06_3, floor=8, engines="SYM,GI", breaks_if="input index beyond a non-empty, too short unspents list"),
    Ob("C06.4", "the per-input context is built from the current transaction fields", c06_4, floor=7, engines="SYM"),
    Ob("C06.5", "commitment contents: branch partition of all 256 hash types (shared with C04.1)", _C04.c04_1, floor=11, engines="SYM,GI(finite)", exhaustive=True,
       breaks_if="a field outside the commitment of NONE|FORKID / SINGLE|FORKID changed"),
    Ob("C06.6", "commitment contents: BIP143 pre-image and sub-hash traces (shared with C04.2)", _C04.c04_2, floor=9, engines="SYM"),
    Ob("C06.7", "commitment contents: legacy blanking (shared with C04.3)", _C04.c04_3, floor=7, engines="SYM"),
]
