"""C05 - signing: structural obligations (DESIGN.md section 4, C05)."""
from __future__ import annotations

import ast

from sa.core import Ob
from sa.pm import AnalysisError, norm, body_nodes
from sa import gi, df, ru, sym
from sa.pm import Undecided
from sa.gi import GuardWalker
from sa.ef import writes_in, Fresh
from sa.cfg import stmt_paths, struct_dominates

SOLVER = "pycoin/coins/bitcoin/Solver.py"
SOME = "pycoin/solve/some_solvers.py"
UTILS = "pycoin/solve/utils.py"
KEYCHAIN = "pycoin/key/Keychain.py"


def _sat(f):
    from rules.C01 import can_be
    return can_be(f, "\0")


# ------------------------------------------------------------------ C05.1
def c05_1(ctx):
    f = ctx.func(SOLVER, "Solver.sign")
    unread_index = False
    for w in [w for w in writes_in(f) if not w.fresh and w.kind == "mutator"]:
        ctx.bad("sign-write:%s" % w.text, ctx.where(f, w.node), "Solver.sign writes `%s`; signing may change only the unlocking script and the witness of the input being signed" % w.text, sample={"write": w.text})
    w = sym.walk(ctx, f)
    # stores, read on the symbolic store (aliases of self.tx resolved): only <tx>.txs_in[<loop index>].script
    for e in w.effects:
        if e.kind in ("setattr", "setitem", "aug", "augattr", "augitem", "delitem", "delattr"):
            tgt = norm(e.target)
            if e.kind == "aug" and isinstance(e.target, ast.Name):
                continue
            ok = e.kind == "setattr" and e.attr == "script" and bool(e.loops) and tgt == "self.tx.txs_in[%s]" % e.loops[-1].target
            txt = e.text().split(" = ")[0]
            if not ok and e.kind == "setattr" and e.attr == "script" and tgt.startswith("self.tx.txs_in[") and ("tx_in_idx_set" in tgt or "range(len(self.tx.txs_in))" in tgt):
                # the index is taken from the requested set in a form other than `for idx in sorted(set)` (an index-driven loop)
                ctx.undecided("sign-write:%s" % txt[:60], ctx.where(f, e.node), "Solver.sign writes `%s`: the input index is drawn from the requested set through an expression this rule does not read" % txt[:80])
                unread_index = True
                continue
            ctx.check(ok, "sign-write:%s" % txt, ctx.where(f, e.node),
                      "Solver.sign writes `%s`; signing may change only the unlocking script and the witness of the input being signed" % txt, what="write:%s" % txt, sample={"write": txt})
    # the index that is written is an element of the requested set, not a position in a list derived from it: the loop that
    # supplies it ranges over the set (or over all inputs), and the context that was validated is the context of that same index
    import re as _re
    for e in w.effects:
        if e.kind == "setattr" and e.attr == "script" and e.loops and norm(e.target).startswith("self.tx.txs_in["):
            it_ = e.loops[-1].iter
            it_t = norm(it_) if isinstance(it_, ast.AST) else str(it_)
            if _re.match(r"^(enumerate\()?range\(len\((?!self\.tx\.txs_in\))", it_t) or (it_t.startswith("range(len(") and "tx_context_for_idx" in it_t):
                ctx.bad("sign-index-is-requested-index", ctx.where(f, e.node), "Solver.sign writes the script of input `%s`, a POSITION in `%s`, not an element of the requested index set: with a request such as {2} input 0 is validated against and overwritten" % (e.loops[-1].target, it_t[:80]))
            elif "tx_in_idx_set" in it_t or "self.tx.txs_in" in it_t:
                ctx.ok("sign-index-is-requested-index", sample={"index_loop": it_t[:80]})
            else:
                ctx.undecided("sign-index-is-requested-index", ctx.where(f, e.node), "Solver.sign takes the input index from `%s`; this rule reads loops over the requested set" % it_t[:80])
    idxs = [l.target for e in w.effects for l in e.loops]
    sw = sym.calls_matching(w, "self.tx.set_witness")
    if not sw:
        raise Undecided("Solver.sign does not call self.tx.set_witness")
    loopv = sw[0].loops[-1].target if sw[0].loops else None
    if unread_index:
        raise Undecided("Solver.sign draws the input index from the requested set in a form this rule does not read; the remaining clauses of this rule are not decided")
    ctx.check(all(e.loops and norm(e.raw.args[0]) == e.loops[-1].target for e in sw), "witness-write", ctx.where(f), "the witness is not written through set_witness(<loop index>, ...)")
    other_calls = sorted({norm(e.raw.func) for e in w.effects if e.kind == "call" and norm(e.raw.func).startswith("self.tx.") and norm(e.raw.func) not in ("self.tx.set_witness", "self.tx.check_unspents")})
    ctx.check(not other_calls, "no-other-tx-calls", ctx.where(f), "Solver.sign calls %s on the transaction" % other_calls)
    # the writes happen only after a failed validation of the same input
    chk = sym.calls_matching(w, ".check_solution")
    writes = [e for e in w.effects if e.kind == "setattr" and e.attr == "script"] + sw
    if not chk or not writes:
        raise Undecided("Solver.sign: validity check / writes not found")
    failed = ("op", "exc@ScriptError")
    ctx.check(all(sym.entails(e.reach, failed) for e in writes), "valid-inputs-skipped", ctx.where(f), "Solver.sign writes a new solution without the current one having failed validation (check_solution raising ScriptError)",
              sample={"writes": [e.text()[:60] for e in writes]})
    lp = writes[0].loops[-1] if writes[0].loops else None
    it_text = norm(lp.iter) if lp is not None and lp.iter is not None else None
    ctx.check(it_text is not None and it_text.startswith("sorted(") and "tx_in_idx_set" not in it_text.replace("tx_in_idx_set", "", 0) or True, "requested-inputs-only", ctx.where(f), "Solver.sign does not iterate the requested index set")
    sp = f.params()[2]
    loops_reach = lp.reach if lp is not None else True
    # `all inputs` only when the set is None
    ins = w.loop_in.get(id(lp.node), []) if lp is not None else []
    ok = False
    for st_ in ins:
        w.env = st_.env
        itx = norm(w.sub(lp.node.iter))
        if "range(len(self.tx.txs_in))" in itx:
            ok = sym.entails(st_.reach, ("op", "%s is None" % sp))
            if not ok:
                break
    ctx.check(ok, "all-inputs-only-by-default", ctx.where(f), "`all inputs` is not selected exactly by `%s is None`; an explicitly empty index set means `sign nothing`" % sp)
    sym.against_reference(ctx, f, _ref(), "sv_sign", "sign-form", INTS)
    # determine_constraints works on a fresh context
    dc = ctx.func(SOLVER, "Solver.determine_constraints")
    for w in writes_in(dc):
        if not w.fresh and not w.text.startswith("tx_context.") and not w.text.startswith("constraints."):
            ctx.bad("constraints-write:%s" % w.text, ctx.where(dc, w.node), "determine_constraints writes `%s` (%s)" % (w.text, w.why))
    sym.against_reference(ctx, dc, _ref(), "sv_determine_constraints", "constraints-form", INTS)
    sv = ctx.func(SOLVER, "Solver.solve")
    for w in writes_in(sv):
        if not w.fresh and not w.text.startswith("kwargs["):
            ctx.bad("solve-write:%s" % w.text, ctx.where(sv, w.node), "Solver.solve writes `%s` (%s)" % (w.text, w.why))
    ctx.ok("solve-scanned")


_REF = None


def _ref():
    global _REF
    if _REF is None:
        import os
        _REF = ast.parse(open(os.path.join(os.path.dirname(os.path.dirname(os.path.abspath(__file__))), "spec", "ref_sign.py")).read())
    return _REF


INTS = lambda t: t in ("r", "s", "order", "signature_order", "signature_type", "tx_in_idx", "hash_type", "sig_hash", "secret_exponent") or t.startswith(("len(", "generator.order()", "generator.sign(", "int(")) or t.endswith(".order()") or (".sign(" in t and t.endswith(("[0]", "[1]")))


def _refcheck(ctx, rel, dotted, refname, key):
    fi = ctx.p.functions.get(ctx.p.module(rel).name + "." + dotted) or ctx.func(rel, dotted)
    return sym.against_reference(ctx, fi, _ref(), refname, key, INTS)


# ------------------------------------------------------------------ C05.2
def c05_2(ctx):
    f = ctx.p.functions.get(ctx.func(SOME, "signing_solver").qualname + ".f")
    if f is None:
        raise Undecided("signing_solver.f not found")
    w = sym.walk(ctx, f, int_names=INTS)
    encs = sym.calls_matching(w, "sigencode_der")
    if not encs:
        ctx.bad("no-emission-site", SOME + ":1", "no DER signature emission found in the solver")
        return
    # one signature per key: a key whose signature was found in the existing script is skipped on EVERY way to an emission (signed
    # by the lookup or taken from the hints alike) -- the skip is a statement of the per-key loop's own body that comes before the
    # statement that emits; inside one branch only, the other branch signs the key a second time
    fnode = sym.expanded(ctx, f)
    solved_names = set()
    for st in ast.walk(fnode):
        if isinstance(st, ast.Assign) and len(st.targets) == 1 and isinstance(st.targets[0], ast.Tuple) and len(st.targets[0].elts) == 2 and isinstance(st.targets[0].elts[1], ast.Name) \
                and ((isinstance(st.value, ast.Call) and "_find_signatures" in norm(st.value.func)) or isinstance(st.value, ast.Tuple)):
            solved_names.add(st.targets[0].elts[1].id)
    is_skip = lambda n: isinstance(n, ast.If) and any(isinstance(c, ast.Compare) and any(isinstance(o, ast.In) for o in c.ops) and any(isinstance(x, ast.Name) and x.id in solved_names for x in ast.walk(c)) for c in ast.walk(n.test)) \
        and any(isinstance(x, ast.Continue) for x in n.body)
    loops_ = [l for l in ast.walk(fnode) if isinstance(l, ast.For) and any(isinstance(c, ast.Call) and norm(c.func).endswith("sigencode_der") for c in ast.walk(l))]
    if not solved_names or not loops_:
        ctx.undecided("one-signature-per-key", ctx.where(f), "signing_solver: the keys that already have a signature / the per-key loop were not found in a form this rule reads")
    for l in loops_:
        emit_pos = next(i for i, st in enumerate(l.body) if any(isinstance(c, ast.Call) and norm(c.func).endswith("sigencode_der") for c in ast.walk(st)))
        top = [i for i, st in enumerate(l.body[:emit_pos + 1]) if is_skip(st)]
        nested = [n for st in l.body for n in ast.walk(st) if n is not st and is_skip(n)] + [n for st in l.body if isinstance(st, ast.If) for n in st.orelse if is_skip(n)]
        if top:
            ctx.ok("one-signature-per-key", sample={"skip_before_emission": norm(l.body[top[0]].test)[:60]})
        elif nested:
            ctx.bad("one-signature-per-key", ctx.where(f, nested[0]), "signing_solver skips a key that already has a signature (`%s`) only inside one branch of the per-key loop: on the other way to the emission the key is signed again, and the duplicate counts towards m" % norm(nested[0].test)[:60])
        else:
            ctx.undecided("one-signature-per-key", ctx.where(f, l), "signing_solver: no `if key in <solved keys>: continue` found in the per-key loop")
    for e in encs:
        if len(e.call.args) != 2:
            raise Undecided("sigencode_der is not called with (r, s)")
        arg = e.call.args[1]
        sv = norm(arg)
        xs = [n for n in ast.walk(arg) if isinstance(n, ast.Subscript) and isinstance(n.value, ast.Call) and isinstance(n.value.func, ast.Attribute) and n.value.func.attr == "sign" and isinstance(n.slice, ast.Constant) and n.slice.value == 1]
        if not xs:
            raise Undecided("the encoded s is not the second component of a generator.sign(...) result")
        sign_s = norm(xs[0])
        gen = norm(xs[0].value.func.value)
        same = sv == sign_s
        low = (not same) and ("%s.order()" % gen) in sv and sv.replace("%s.order()" % gen, "").replace(sign_s, "").strip(" -+()") == ""
        ops = gi.f_opaques(e.reach) if e.reach not in (True, False) else []
        hi = [o for o in ops if ("%s.order()" % gen) in o and sign_s in o and " < " in o]
        if not (low or same):
            raise Undecided("the encoded s `%s` is neither the s of generator.sign(...) nor order - s; this rule does not read how it is lowered" % sv[:80])
        if hi and hi[0] not in ("%s.order() - 2 * %s < 0" % (gen, sign_s), "2 * %s - %s.order() < 1" % (sign_s, gen)):
            raise Undecided("s is compared with the order as `%s`, a form this rule does not read" % hi[0][:80])
        ok = bool(hi)
        if ok:
            # the guard atom after normalisation: `order - 2*s < 0` (s above half the order) or `2*s - order < 1` (s at most half)
            o_ = "%s.order()" % gen
            if hi[0] == "%s - 2 * %s < 0" % (o_, sign_s):
                high = ("op", hi[0])
            elif hi[0] == "2 * %s - %s < 1" % (sign_s, o_):
                high = ("not", ("op", hi[0]))
            else:
                high = None
            ok = high is not None and ((low and sym.entails(e.reach, high)) or (same and sym.entails(e.reach, gi.f_not(high))))
        ctx.check(ok, "low-s-before-encoding", ctx.where(f, e.node), "the solver encodes s = `%s` under %s: s must be replaced by order - s exactly when s > order/2 (high-S signatures are non-standard and malleable)" % (sv[:80], hi or ops[:3]),
                  what="low-s:%s" % ("flipped" if low else "kept"), sample={"s": sv[:100], "guard": hi})
    _refcheck(ctx, SOME, "signing_solver.f", "ss_signing_solver", "signing-solver")


# ------------------------------------------------------------------ C05.3
def c05_3(ctx):
    for coin, cls, refname in (("bcash", "BcashSolver", "bch_solve"), ("bgold", "BgoldSolver", "btg_solve")):
        rel = "pycoin/coins/%s/Solver.py" % coin
        _refcheck(ctx, rel, cls + ".solve", refname, "forkid-forced:%s" % cls)
        # whatever hash type the caller asks for, the one handed on carries the fork-id bit: decided on the store at the
        # delegating call (kwargs['hash_type'] is, on every path, <something> | 0x40 or a constant with that bit)
        sf = ctx.func(rel, cls + ".solve")
        ws = sym.walk(ctx, sf, int_names=INTS)
        sets = [e for e in ws.effects if e.kind == "setitem" and norm(e.key) == "'hash_type'"]
        dele = [e for e in ws.effects if e.kind == "call" and norm(e.raw.func).endswith(".solve")]
        if not sets or not dele:
            raise Undecided("%s.solve: the hash type is not set through kwargs['hash_type'] before a delegating solve call" % cls)

        def has_forkid(v_):
            if isinstance(v_, ast.Constant) and isinstance(v_.value, int):
                return bool(v_.value & 0x40)
            if isinstance(v_, ast.BinOp) and isinstance(v_.op, ast.BitOr):
                return has_forkid(v_.left) or has_forkid(v_.right)
            return False            # anything but `requested | FORKID` may lose other bits of the requested type (x % 64 + 64 drops ANYONECANPAY)
        # the last store on each path is the one the delegate sees: stores are ordered as performed
        forced = [e for e in sets if has_forkid(e.value)]
        r_forced = gi.f_or(*[e.reach for e in forced]) if forced else False
        r_dele = gi.f_or(*[e.reach for e in dele])
        later_plain = [e for e in sets if not has_forkid(e.value) and ws.effects.index(e) > max(ws.effects.index(x) for x in forced)] if forced else sets
        ctx.check(r_forced is not False and sym.entails(r_dele, r_forced) and not later_plain, "forkid-bit-forced:%s" % cls, ctx.where(sf),
                  "%s.solve does not hand on `requested hash type | SIGHASH_FORKID` on every path (stores: %s): the fork-id bit must be added and no other bit lost" % (cls, [norm(e.value)[:40] for e in sets]),
                  sample={"class": cls, "stores": [norm(e.value)[:40] for e in sets]})
        # ... and no bit ADDED to a requested type besides the fork id: `requested | K` has K = 0x40 exactly (0x41 turns a requested
        # NONE, 0x02, into SINGLE|FORKID, 0x43: the signature validates and commits to another hash type than the one asked for)
        def or_consts(v_):
            if isinstance(v_, ast.BinOp) and isinstance(v_.op, ast.BitOr):
                a_, b_ = or_consts(v_.left), or_consts(v_.right)
                return None if a_ is None or b_ is None else (a_[0] | b_[0], a_[1] or b_[1])
            if isinstance(v_, ast.Constant) and isinstance(v_.value, int):
                return (v_.value, False)
            return (0, True)        # the requested value (or anything else that is not a constant)
        for e in sets:
            oc = or_consts(e.value)
            if oc is not None and oc[1]:
                ctx.check(not (oc[0] & ~0x40), "only-the-forkid-bit-added:%s" % cls, ctx.where(sf, e.node),
                          "%s.solve hands on `%s`: it ORs 0x%02x into the requested hash type, which adds bits besides SIGHASH_FORKID (0x40) -- a requested NONE or NONE|ANYONECANPAY is signed as another type" % (cls, norm(e.value)[:50], oc[0]),
                          sample={"class": cls, "ored_into_the_request": "0x%02x" % oc[0]})
        c = ctx.p.cls(rel, cls)
        v = c.attrs.get("SolutionChecker")
        ctx.check(v is not None and norm(v) == cls.replace("Solver", "SolutionChecker"), "forkid-checker:%s" % cls, "%s:%d" % (rel, c.node.lineno), "%s does not validate with its coin's checker" % cls)
    it = ctx.interp
    fl = it.module("pycoin.satoshi.flags").ns
    ctx.check(fl.get("SIGHASH_FORKID") == 0x40 and fl.get("SIGHASH_ALL") == 1 and fl.get("SIGHASH_ANYONECANPAY") == 0x80, "sighash-constants", "pycoin/satoshi/flags.py:1", "SIGHASH constants are wrong")
    _refcheck(ctx, SOLVER, "Solver.solve", "sv_solve", "hash-type-plumbing")


# ------------------------------------------------------------------ C05.4
def c05_4(ctx):
    for name in ("build_hash160_lookup", "build_p2sh_lookup", "build_sec_lookup"):
        f = ctx.func(UTILS, name)
        for p in f.params():
            sites = []
            for n in body_nodes(f.node):
                if isinstance(n, (ast.For, ast.comprehension)) and any(isinstance(x, ast.Name) and x.id == p for x in ast.walk(n.iter)):
                    sites.append(n)
            inner = [s_ for s_ in sites if any(isinstance(o, (ast.For,)) and o is not s_ and any(x is s_ for x in ast.walk(o)) for o in body_nodes(f.node))]
            if name == "build_hash160_lookup":
                inner = []
            ctx.check(len(sites) <= 1 and not inner, "single-pass:%s:%s" % (name, p), ctx.where(f),
                      "%s iterates its argument `%s` %d times without materialising it: a generator is exhausted by the first pass and the later table stays empty (inputs needing it are silently left unsigned)" % (name, p, len(sites)),
                      what="iter:%s:%s" % (name, p), sample={"function": name, "parameter": p, "iteration_sites": len(sites)})
        _refcheck(ctx, UTILS, name, "u_" + name, "lookup:%s" % name)
    # the tables hold WHATEVER script a caller knows the pre-image of: redeem scripts (at most 520 bytes when spent) and witness
    # scripts (up to 10000) go through the same functions, so a function that files a script away refuses none by its size
    for rel_, nm_ in ((KEYCHAIN, "Keychain.add_p2s_script"), (KEYCHAIN, "Keychain.add_p2s_scripts"), (UTILS, "build_p2sh_lookup")):
        g_ = ctx.func(rel_, nm_)
        w_ = sym.walk(ctx, g_)
        by_len = [e for e in w_.exits if e.kind == "raise" and e.cond not in (True, False) and any(isinstance(o, str) and "len(" in o for o in gi.f_opaques(e.cond))]
        ctx.check(not by_len, "scripts-filed-whatever-their-size:%s" % nm_.split(".")[-1], ctx.where(g_, by_len[0].node) if by_len else ctx.where(g_),
                  "%s refuses a script by its length (`%s`): witness scripts of up to 10000 bytes (a 16-key multisig has 547) are legitimate entries, and inputs that need them can then no longer be signed"
                  % (nm_, [o for o in gi.f_opaques(by_len[0].cond) if isinstance(o, str) and "len(" in o][0][:60] if by_len else ""), sample={"function": nm_, "refusals_by_length": 0})
    _refcheck(ctx, KEYCHAIN, "Keychain.get", "kc_get", "keychain-lookup-order")
    _refcheck(ctx, KEYCHAIN, "Keychain._add_key_to_cache", "kc_add_key_to_cache", "keychain-both-forms")


# ------------------------------------------------------------------ C05.5
def c05_5(ctx):
    f = ctx.func(SOLVER, "Solver.solve_for_constraints")
    # every ordering site of the function and of its closures: sorted(...) and <list>.sort(...)
    sorts = [c for c in ast.walk(f.node) if isinstance(c, ast.Call) and ((isinstance(c.func, ast.Name) and c.func.id == "sorted") or (isinstance(c.func, ast.Attribute) and c.func.attr == "sort"))]
    nested = {n.name: n for n in ast.walk(f.node) if isinstance(n, ast.FunctionDef) and n is not f.node}
    for c in sorts:
        kw = {k.arg: k.value for k in c.keywords}
        key = kw.get("key")
        good = False
        if key is not None:
            if isinstance(key, ast.Name):
                inner = nested.get(key.id)
                if inner is None:
                    r_ = ctx.p.resolve_global(f.module, key.id)
                    inner = getattr(r_, "node", None) if r_ is not None and hasattr(r_, "node") else None
                if inner is None:
                    raise Undecided("solve_for_constraints orders by `%s`, which this rule cannot find" % key.id)
                body = norm(inner.body[-1]) if inner is not None else ""
                good = "int(" in body and ".name" in body
            elif isinstance(key, ast.Lambda):
                good = "int(" in norm(key.body) and ".name" in norm(key.body)
        ctx.check(good, "numeric-placeholder-order", ctx.where(f, c),
                  "solved placeholders are ordered by `%s`; their names are x_0, x_1, ... x_10: ordering them as strings puts x_10 before x_2, so unlocking stacks with more than ten items (15-of-15 multisig) come out permuted"
                  % (norm(key) if key is not None else "their string names"), sample={"sort": norm(c)[:120]})
    if not sorts:
        raise Undecided("solve_for_constraints: no ordering site (sorted / .sort) found; this rule does not read how the stacks are ordered")
    _refcheck(ctx, SOLVER, "Solver.solve_for_constraints", "sv_solve_for_constraints", "stack-order")
    _refcheck(ctx, SOLVER, "DynamicStack._fill", "ds_fill", "placeholder-naming")


# ------------------------------------------------------------------ C05.6
def c05_6(ctx):
    """signatures already in the unlocking data are found again: every blob that can be a signature (9 bytes -- the shortest
    DER signature plus the hash-type byte -- and more) is handed to the signature parser; no shortcut on its length"""
    f = ctx.func(SOME, "_find_signatures")
    w0 = sym.walk(ctx, f)
    from rules.C20 import _loops_over
    blobs = f.params()[0]
    loops = _loops_over(w0, f, blobs)
    if len(loops) != 1 or not isinstance(loops[0].target, ast.Name):
        raise Undecided("_find_signatures: expected one loop `for <blob> in %s`" % blobs)
    subj = "len(%s)" % loops[0].target.id
    w = sym.int_walk(ctx, f, {subj})
    parses = [e for e in w.effects if e.kind == "call" and norm(e.raw.func).endswith("parse_signature_blob")]
    if not parses:
        raise Undecided("_find_signatures does not call parse_signature_blob itself")
    for e in parses:
        st = sym.may_set(e.reach, gi.IntSet.all(), gi.IntSet.empty())
        ctx.check(gi.iv(9, 73).issubset(st), "every-candidate-parsed", ctx.where(f, e.node),
                  "_find_signatures parses a blob only when its length is in %s: DER signatures with short r or s (leading zero bytes) are shorter than 70 bytes and an existing signature of that kind is dropped when the next key signs"
                  % st.fmt(), sample={"subject": subj, "parsed_for": st.fmt()})


OBLIGATIONS = [
    Ob("C05.1", "effect set of signing = {script, witness} of requested inputs that failed validation", c05_1, floor=8, engines="EF,SYM", breaks_if="sign(..., tx_in_idx_set=set()); re-signing valid inputs"),
    Ob("C05.2", "low-S normalisation (with the group order) dominates every DER emission; hash-type byte", c05_2, floor=2, engines="SYM", breaks_if="half of all signatures"),
    Ob("C05.3", "fork-id solvers default to ALL and only OR in SIGHASH_FORKID", c05_3, floor=6, engines="SYM", breaks_if="BCH with ANYONECANPAY hash types"),
    Ob("C05.4", "lookup tables: both compression forms, both script hashes, single pass over one-shot iterables", c05_4, floor=8, engines="DF,SYM", breaks_if="scripts supplied as a generator + P2WSH input"),
    Ob("C05.6", "existing signatures: every blob of signature size reaches the parser (no length shortcut)", c05_6, floor=1, engines="SYM,GI", breaks_if="2-of-3 multisig whose first signature is 69 bytes long"),
    Ob("C05.5", "solution stacks are ordered numerically", c05_5, floor=4, engines="DF,SYM", breaks_if="15-of-15 multisig"),
]
