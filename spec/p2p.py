"""Reference layouts of the Bitcoin peer-to-peer messages in pycoin's layout notation, written from the protocol
documentation (developer reference / BIP 37, 130, 133, 152, 155), not from the repository.

letters: L u32le, Q u64le, h u16be, # 32 raw bytes, @ 16 raw bytes, 1 u8, 6 u48le, b bool (1 byte), I compact size,
S compact-size prefixed bytes, O optional trailing bool, A network address (Q services, @ ip, h port),
v inventory vector (L type, # hash), z 80-byte block header, T transaction, B block, [..] compact-size counted array."""

MESSAGES = {
    "version": "version:L services:Q timestamp:Q remote_address:A local_address:A nonce:Q subversion:S last_block_index:L relay:O",
    "verack": "",
    "addr": "date_address_tuples:[LA]",
    "inv": "items:[v]",
    "getdata": "items:[v]",
    "notfound": "items:[v]",
    "reject": "message:S code:1 reason:S data:#",
    "getblocks": "version:L hashes:[#] hash_stop:#",
    "getheaders": "version:L hashes:[#] hash_stop:#",
    "sendheaders": "",
    "tx": "tx:T",
    "block": "block:B",
    "headers": "headers:[zI]",
    "getaddr": "",
    "mempool": "",
    "feefilter": "fee_filter_value:Q",
    "sendcmpct": "enabled:b version:Q",
    "cmpctblock": "header_hash:# nonce:Q short_ids:[6] prefilled_txs:[IT]",
    "getblocktxn": "header_hash:# indices:[I]",
    "blocktxn": "header_hash:# txs:[T]",
    "sendaddrv2": "",
    "ping": "nonce:Q",
    "pong": "nonce:Q",
    "filterload": "filter:[1] hash_function_count:L tweak:L flags:b",
    "filteradd": "data:[1]",
    "filterclear": "",
    "merkleblock": "header:z total_transactions:L hashes:[#] flags:[1]",
    "alert": "payload:S signature:S",
}

ALERT = ("version:L relayUntil:Q expiration:Q id:L cancel:L setCancel:[L] minVer:L "
         "maxVer:L setSubVer:[S] priority:L comment:S statusBar:S reserved:S")

# letter -> (struct format, byte width) for the fixed-width scalar codecs
WIRE = {"L": ("<L", 4), "Q": ("<Q", 8), "h": ("!H", 2), "1": ("B", 1), "b": ("?", 1), "6": ("<Q", 6)}
RAW = {"#": 32, "@": 16}
