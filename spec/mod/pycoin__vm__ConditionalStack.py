"""Transcription of every function of pycoin/vm/ConditionalStack.py as of the reviewed tree (see DESIGN.md section 12).
NEVER IMPORTED OR EXECUTED: parsed and compared in canonical form (sa/sym.py) with the functions in /repo."""


_CONSTS = {

}


# pycoin/vm/ConditionalStack.py :: ConditionalStack.__init__
def q__ConditionalStack____init__(self, error_f):
    self.true_count = 0
    self.false_count = 0
    self.error_f = error_f


# pycoin/vm/ConditionalStack.py :: ConditionalStack.all_if_true
def q__ConditionalStack__all_if_true(self):
    return self.false_count == 0


# pycoin/vm/ConditionalStack.py :: ConditionalStack.OP_IF
def q__ConditionalStack__OP_IF(self, the_bool, reverse_bool=False):
    if self.false_count > 0:
        self.false_count += 1
        return
    if reverse_bool:
        the_bool = not the_bool
    if the_bool:
        self.true_count += 1
    else:
        self.false_count = 1


# pycoin/vm/ConditionalStack.py :: ConditionalStack.OP_ELSE
def q__ConditionalStack__OP_ELSE(self):
    if self.false_count > 1:
        return
    if self.false_count == 1:
        self.false_count = 0
        self.true_count += 1
    else:
        if self.true_count == 0:
            self.error_f('OP_ELSE without OP_IF')
            return
        self.true_count -= 1
        self.false_count += 1


# pycoin/vm/ConditionalStack.py :: ConditionalStack.OP_ENDIF
def q__ConditionalStack__OP_ENDIF(self):
    if self.false_count > 0:
        self.false_count -= 1
    else:
        if self.true_count == 0:
            self.error_f('OP_ENDIF without OP_IF')
            return
        self.true_count -= 1


# pycoin/vm/ConditionalStack.py :: ConditionalStack.check_final_state
def q__ConditionalStack__check_final_state(self):
    if self.false_count > 0 or self.true_count > 0:
        self.error_f('missing ENDIF')


# pycoin/vm/ConditionalStack.py :: ConditionalStack.__repr__
def q__ConditionalStack____repr__(self):
    if self.true_count or self.false_count:
        return '[IfStack true:%d/false:%d]' % (self.true_count, self.false_count)
    return '[]'
