"""Transcription of every function of pycoin/coins/bitcoin/SolutionChecker.py as of the reviewed tree (see DESIGN.md section 12).
NEVER IMPORTED OR EXECUTED: parsed and compared in canonical form (sa/sym.py) with the functions in /repo."""


_CONSTS = {
    'SIGHASH_ANYONECANPAY': 128,
    'SIGHASH_NONE': 2,
    'SIGHASH_SINGLE': 3,
    'VERIFY_CLEANSTACK': 256,
    'VERIFY_MINIMALIF': 8192,
    'VERIFY_SIGPUSHONLY': 32,
    'VERIFY_WITNESS_PUBKEYTYPE': 32768,
    'errno.CLEANSTACK': 29,
    'errno.EVAL_FALSE': 2,
    'errno.SIG_PUSHONLY': 25,
}


# pycoin/coins/bitcoin/SolutionChecker.py :: BitcoinSolutionChecker.__init__
def q__BitcoinSolutionChecker____init__(self, tx):
    self.tx = tx


# pycoin/coins/bitcoin/SolutionChecker.py :: BitcoinSolutionChecker._delete_signature
def q__BitcoinSolutionChecker___delete_signature(self, script, sig_blob):
    subscript = self.ScriptTools.compile_push_data_list([sig_blob])
    new_script = bytearray()
    pc = 0
    for opcode, data, pc, new_pc in self.ScriptTools.get_opcodes(script):
        section = script[pc:new_pc]
        if section != subscript:
            new_script.extend(section)
    return bytes(new_script)


# pycoin/coins/bitcoin/SolutionChecker.py :: BitcoinSolutionChecker._make_sighash_f
def q__BitcoinSolutionChecker___make_sighash_f(self, tx_in_idx):

    def sig_for_hash_type_f(hash_type, sig_blobs, vm):
        script = vm.script[vm.begin_code_hash:]
        for sig_blob in sig_blobs:
            script = self._delete_signature(script, sig_blob)
        return self._signature_hash(script, tx_in_idx, hash_type)
    return sig_for_hash_type_f


# pycoin/coins/bitcoin/SolutionChecker.py :: BitcoinSolutionChecker._make_sighash_f.sig_for_hash_type_f
def q__BitcoinSolutionChecker___make_sighash_f__sig_for_hash_type_f(hash_type, sig_blobs, vm):
    script = vm.script[vm.begin_code_hash:]
    for sig_blob in sig_blobs:
        script = self._delete_signature(script, sig_blob)
    return self._signature_hash(script, tx_in_idx, hash_type)


# pycoin/coins/bitcoin/SolutionChecker.py :: BitcoinSolutionChecker._solution_script_to_stack
def q__BitcoinSolutionChecker___solution_script_to_stack(self, tx_context, flags, traceback_f):
    if flags & VERIFY_SIGPUSHONLY:
        self._check_script_push_only(tx_context.solution_script)
    f1 = flags & ~(VERIFY_MINIMALIF | VERIFY_WITNESS_PUBKEYTYPE)
    vm = self.VM(tx_context.solution_script, tx_context, self._make_sighash_f(tx_context.tx_in_idx), f1)
    vm.is_solution_script = True
    vm.traceback_f = traceback_f
    solution_stack = vm.eval_script()
    return solution_stack


# pycoin/coins/bitcoin/SolutionChecker.py :: BitcoinSolutionChecker._check_script_push_only
def q__BitcoinSolutionChecker___check_script_push_only(self, script):
    scriptStreamer = self.VM.ScriptStreamer
    pc = 0
    while pc < len(script):
        opcode, data, pc, is_ok = scriptStreamer.get_opcode(script, pc)
        if opcode not in scriptStreamer.data_opcodes:
            raise self.ScriptError()


# pycoin/coins/bitcoin/SolutionChecker.py :: BitcoinSolutionChecker._tx_in_for_idx
def q__BitcoinSolutionChecker___tx_in_for_idx(self, idx, tx_in, tx_out_script, unsigned_txs_out_idx):
    if idx == unsigned_txs_out_idx:
        return self.tx.TxIn(tx_in.previous_hash, tx_in.previous_index, tx_out_script, tx_in.sequence)
    return self.tx.TxIn(tx_in.previous_hash, tx_in.previous_index, b'', tx_in.sequence)


# pycoin/coins/bitcoin/SolutionChecker.py :: BitcoinSolutionChecker.delete_subscript
def q__BitcoinSolutionChecker__delete_subscript(class_, script, subscript):
    new_script = bytearray()
    pc = 0
    for opcode, data, pc, new_pc in class_.ScriptTools.get_opcodes(script):
        section = script[pc:new_pc]
        if section != subscript:
            new_script.extend(section)
    return bytes(new_script)


# pycoin/coins/bitcoin/SolutionChecker.py :: BitcoinSolutionChecker._signature_hash
def q__BitcoinSolutionChecker___signature_hash(self, tx_out_script, unsigned_txs_out_idx, hash_type):
    tx_out_script = self.delete_subscript(tx_out_script, self.ScriptTools.compile('OP_CODESEPARATOR'))
    txs_in = [self._tx_in_for_idx(i, tx_in, tx_out_script, unsigned_txs_out_idx) for i, tx_in in enumerate(self.tx.txs_in)]
    txs_out = self.tx.txs_out
    if hash_type & 31 == SIGHASH_NONE:
        txs_out = []
        for i in range(len(txs_in)):
            if i != unsigned_txs_out_idx:
                txs_in[i].sequence = 0
    elif hash_type & 31 == SIGHASH_SINGLE:
        if unsigned_txs_out_idx >= len(txs_out):
            return 1 << 248
        txs_out = [self.tx.TxOut(18446744073709551615, b'')] * unsigned_txs_out_idx
        txs_out.append(self.tx.txs_out[unsigned_txs_out_idx])
        for i in range(len(txs_in)):
            if i != unsigned_txs_out_idx:
                txs_in[i].sequence = 0
    if hash_type & SIGHASH_ANYONECANPAY:
        txs_in = [txs_in[unsigned_txs_out_idx]]
    tmp_tx = self.tx.__class__(self.tx.version, txs_in, txs_out, self.tx.lock_time)
    return from_bytes_32(tmp_tx.hash(hash_type=hash_type))


# pycoin/coins/bitcoin/SolutionChecker.py :: BitcoinSolutionChecker.tx_context_for_idx
def q__BitcoinSolutionChecker__tx_context_for_idx(self, tx_in_idx):
    tx_in = self.tx.txs_in[tx_in_idx]
    tx_context = TxContext()
    tx_context.lock_time = self.tx.lock_time
    tx_context.version = self.tx.version
    tx_context.puzzle_script = b'' if self.tx.missing_unspent(tx_in_idx) else self.tx.unspents[tx_in_idx].script
    tx_context.solution_script = tx_in.script
    tx_context.witness_solution_stack = tx_in.witness
    tx_context.sequence = tx_in.sequence
    tx_context.tx_in_idx = tx_in_idx
    return tx_context


# pycoin/coins/bitcoin/SolutionChecker.py :: BitcoinSolutionChecker.check_solution
def q__BitcoinSolutionChecker__check_solution(self, tx_context, flags=None, traceback_f=None):
    stack = []
    for t in self.puzzle_and_solution_iterator(tx_context, flags=flags, traceback_f=traceback_f):
        puzzle_script, solution_stack, flags, sighash_f = t
        vm = self.VM(puzzle_script, tx_context, sighash_f, flags=flags, initial_stack=solution_stack[:])
        vm.is_solution_script = False
        vm.traceback_f = traceback_f
        stack = vm.eval_script()
        if len(stack) == 0 or not vm.bool_from_script_bytes(stack[-1]):
            raise self.ScriptError()
    if flags and flags & VERIFY_CLEANSTACK and (len(stack) != 1):
        raise self.ScriptError()


# pycoin/coins/bitcoin/SolutionChecker.py :: BitcoinSolutionChecker.puzzle_and_solution_iterator
def q__BitcoinSolutionChecker__puzzle_and_solution_iterator(self, tx_context, flags=None, traceback_f=None):
    if flags is None:
        flags = self.DEFAULT_FLAGS
    solution_stack = self._solution_script_to_stack(tx_context, flags=flags, traceback_f=traceback_f)
    puzzle_script = tx_context.puzzle_script
    flags_1 = flags & ~(VERIFY_MINIMALIF | VERIFY_WITNESS_PUBKEYTYPE)
    sighash_f = self._make_sighash_f(tx_context.tx_in_idx)
    yield (puzzle_script, solution_stack, flags_1, sighash_f)
    p2sh_tuple = self.p2s_program_tuple(tx_context, puzzle_script, solution_stack, flags_1, sighash_f)
    if p2sh_tuple:
        yield p2sh_tuple
        puzzle_script, solution_stack = p2sh_tuple[:2]
    is_p2sh = p2sh_tuple is not None
    witness_tuple = self.witness_program_tuple(tx_context, puzzle_script, solution_stack, flags, is_p2sh)
    if witness_tuple:
        yield witness_tuple
