"""Transcription of every function of pycoin/encoding/hash.py as of the reviewed tree (see DESIGN.md section 12).
NEVER IMPORTED OR EXECUTED: parsed and compared in canonical form (sa/sym.py) with the functions in /repo."""


_CONSTS = {

}


# pycoin/encoding/hash.py :: _HashObj.digest
def q___HashObj__digest(self):
    ...


# pycoin/encoding/hash.py :: ripemd160_native
def q__ripemd160_native(data):
    return hashlib.new('ripemd160', data)


# pycoin/encoding/hash.py :: _PurePythonRIPEMD160.__init__
def q___PurePythonRIPEMD160____init__(self, data):
    self._digest = pycoin.contrib.ripemd160.ripemd160(data)


# pycoin/encoding/hash.py :: _PurePythonRIPEMD160.digest
def q___PurePythonRIPEMD160__digest(self):
    return self._digest


# pycoin/encoding/hash.py :: get_best_ripemd160
def q__get_best_ripemd160():
    USE_NATIVE = 'ripemd160' in hashlib.algorithms_available and (not os.getenv('PYCOIN_USE_PYTHON_RIPEMD160'))
    if USE_NATIVE:
        try:
            ripemd160_native(b'').digest()
            return ripemd160_native
        except Exception:
            pass
    try:
        from Crypto.Hash.RIPEMD import RIPEMD160Hash
        return cast(HashFactory, RIPEMD160Hash)
    except Exception:
        return _PurePythonRIPEMD160


# pycoin/encoding/hash.py :: double_sha256
def q__double_sha256(data):
    return bytes_as_revhex(hashlib.sha256(hashlib.sha256(data).digest()).digest())


# pycoin/encoding/hash.py :: hash160
def q__hash160(data):
    return ripemd160(hashlib.sha256(data).digest()).digest()
